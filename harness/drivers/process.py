"""Driver for the Process specification (extra module X03): I/O redirection
of SSHClientProcess / SSHServerProcess (asyncssh/process.py).

A *case* is what TLC prints for one behaviour of specs/Process/Process.tla:
    [[label, projection], ...]
The labels are external events (the emitter writes a chunk, a wire is
delivered, the application redirects a stream, a source gets data, a target
accepts k more writes, collect_output(), wait(), close(), drain()); the
projection is the specification's state after the loop has gone idle.

replay() builds the pipeline of the specification out of real objects on the
deterministic loop

    E --wEB--> [B] --> targets | [C] --wCK--> K
      <--wBE--                       <--wKC--

B and C are real SSHClientProcess (role "client") or SSHServerProcess (role
"server") objects on two connections, E and K raw callback sessions at the
other ends, the wires the two directions of the connections' in-memory
transports in manual mode (a whole number of SSH packets is handed over per
"deliver" label), targets in-memory StreamWriters whose drain() the driver
blocks / real files under the work directory / DEVNULL / STDOUT / the stdin
of C, sources StreamReaders fed by the driver / real files / DEVNULL / a
stream of B.  After every label the driver projects the state of the real
objects and compares it with the specification's (conformance, L2), and
evaluates the property monitors on what the driver-owned ends have seen
(verdict, L1).
"""

import asyncio
import os
import shutil
import tempfile

import asyncssh
from asyncssh import _verif
from asyncssh import process as aprocess
from asyncssh.constants import EXTENDED_DATA_STDERR
from asyncssh.packet import UInt32, String, Boolean

from harness.vloop import new_loop, close_loop, Deadlock

L = 4                   # bytes per chunk
INF = 9
FAST = dict(encryption_algs=['aes128-gcm@openssh.com'],
            compression_algs=['none'])
TAGS = {'x': b'x', 'y': b'y', 's1': b'a', 's2': b'b', 's3': b'c', 's4': b'd',
        's5': b'e', 's6': b'f'}
RTAGS = {v[0]: k for k, v in TAGS.items()}
TRIGS = ['close_paused_writer', 'stale_reader', 'double_feed', 'late_eof',
         'drain_close', 'resume_while_paused', 'link_order']

_key = []


def host_key():
    if not _key:
        _key.append(asyncssh.generate_private_key('ssh-ed25519'))
    return _key[0]


def chunk(tag, n):
    return TAGS[tag] + b'%02d.' % n


def names(data):
    """bytes / str -> [[tag, n], ...]"""
    if isinstance(data, str):
        data = data.encode('ascii')
    data = bytes(data)
    out = []
    for i in range(0, len(data), L):
        c = data[i:i + L]
        if len(c) == L and c[0] in RTAGS and c[3:4] == b'.' and c[1:3].isdigit():
            out.append([RTAGS[c[0]], int(c[1:3])])
        else:
            out.append(['?', repr(c)])
    return out


def dtof(datatype):
    return 'y' if datatype == EXTENDED_DATA_STDERR else 'x'


def dtype(d):
    return EXTENDED_DATA_STDERR if d == 'y' else None


# ---------------------------------------------------------------------------
# raw endpoints (E and K)

class _Raw:
    def __init__(self, world):
        self.world = world
        self.chan = None
        self.got = []           # [cdt, tag, n]
        self.eofs = 0
        self.closed = False
        self.exit = None

    def connection_made(self, chan):
        self.chan = chan
        self.world.raw_sessions.append(self)

    def connection_lost(self, exc):
        self.closed = True

    def data_received(self, data, datatype):
        for tag, n in names(data):
            self.got.append([dtof(datatype), tag, n])

    def eof_received(self):
        self.eofs += 1
        return True


class RawServerSession(_Raw, asyncssh.SSHServerSession):
    def shell_requested(self):
        return True

    def exec_requested(self, command):
        return True


class RawClientSession(_Raw, asyncssh.SSHClientSession):
    def exit_status_received(self, status):
        self.exit = 'status'


class _Srv(asyncssh.SSHServer):
    def __init__(self, world, raw):
        self.world = world
        self.raw = raw

    def connection_made(self, conn):
        self.world.server_conns.append(conn)

    def begin_auth(self, username):
        return False

    def session_requested(self):
        if self.raw:
            return RawServerSession(self.world)
        return True             # the process factory of listen()


# ---------------------------------------------------------------------------
# driver-controlled targets and sources

class BlockableTransport(asyncio.Transport):
    """In-memory transport under an asyncio.StreamWriter.  allow = number of
    writes it still accepts before it pauses the protocol (None: any)."""

    def __init__(self, loop):
        super().__init__()
        self.chunks = []            # every write, in order
        self.eofs = 0
        self.after_eof = 0          # writes after write_eof()
        self.allow = None
        self.paused = False
        self.over = 0               # writes since it paused the protocol
        self.max_over = 0
        self._closing = False
        self.proto = asyncio.StreamReaderProtocol(
            asyncio.StreamReader(loop=loop), loop=loop)
        self.writer = asyncio.StreamWriter(self, self.proto, None, loop)

    def write(self, data):
        if self.eofs:
            self.after_eof += 1
        self.chunks.append(bytes(data))
        if self.paused:
            self.over += 1
            self.max_over = max(self.max_over, self.over)
        if self.allow is not None and self.allow > 0:
            self.allow -= 1
        if self.allow == 0 and not self.paused:
            self.paused = True
            self.over = 0
            self.proto.pause_writing()

    def set_allow(self, k):
        self.allow = None if k == INF else k
        if self.allow == 0:
            if not self.paused:
                self.paused = True
                self.over = 0
                self.proto.pause_writing()
        elif self.paused:
            self.paused = False
            self.over = 0
            self.proto.resume_writing()

    def can_write_eof(self):
        return True

    def write_eof(self):
        self.eofs += 1

    def is_closing(self):
        return self._closing

    def close(self):
        self._closing = True

    def get_extra_info(self, name, default=None):
        return default


# ---------------------------------------------------------------------------

class World:
    """One deterministic loop; connections are created per (role, windows)
    and reused by consecutive cases; every case gets fresh sessions."""

    def __init__(self, workdir):
        self.loop = new_loop()
        self.workdir = workdir
        self.raw_sessions = []
        self.server_procs = []
        self.server_conns = []
        self.conns = {}
        self.port = 2500
        self.wires = {}             # id(conn) -> [pkttype, wire_len, payload]
        self.tracking = False
        self.cases = 0
        _verif.set_sink(self._sink)

    def close(self):
        for ent in self.conns.values():
            try:
                ent['ct'].auto = ent['st'].auto = True
                ent['conn'].abort()
                ent['srv'].close()
            except Exception:           # pylint: disable=broad-except
                pass
        try:
            self.loop.run_until_idle()
        except BaseException:           # pylint: disable=broad-except
            pass
        _verif.set_sink(None)
        close_loop(self.loop)

    def _sink(self, name, f):
        if name == 'pkt_out' and self.tracking and f.get('written', True):
            q = self.wires.get(id(f['conn']))
            if q is not None:
                q.append((f['pkttype'], f['wire_len'], f['payload']))

    def connection(self, key, raw_server, **listen_kw):
        """-> dict(conn, sconn, ct, st)"""
        ent = self.conns.get(key)
        if ent is not None and not ent['conn'].is_closed() and \
                not ent['sconn'].is_closed():
            return ent
        self.port += 1
        port = self.port
        n0 = len(self.loop.net.all_transports)
        s0 = len(self.server_conns)

        async def setup():
            srv = await asyncssh.listen(
                '127.0.0.1', port,
                server_factory=lambda: _Srv(self, raw_server),
                server_host_keys=[host_key()], **listen_kw)
            conn = await asyncssh.connect(
                '127.0.0.1', port, known_hosts=None, config=None,
                client_keys=None, username='u', **FAST)
            return srv, conn
        srv, conn = self.loop.run_until_complete(setup())
        self.loop.run_until_idle()
        ts = self.loop.net.all_transports[n0:]
        ent = {'conn': conn, 'srv': srv, 'sconn': self.server_conns[s0],
               'ct': [t for t in ts if t.name == 'c'][0],
               'st': [t for t in ts if t.name == 's'][0]}
        self.conns[key] = ent
        return ent


def apply_constants(consts):
    """queue water marks of the asynchronous writers are module constants"""
    aprocess._QUEUE_HIGH_WATER = consts['QH']
    aprocess._QUEUE_LOW_WATER = consts['QL']


_ORIG_Q = (aprocess._QUEUE_HIGH_WATER, aprocess._QUEUE_LOW_WATER)


def restore_constants():
    aprocess._QUEUE_HIGH_WATER, aprocess._QUEUE_LOW_WATER = _ORIG_Q


# ---------------------------------------------------------------------------

RST = {'open': 'open', 'eof_pending': 'eofp', 'eof': 'eof',
       'close_pending': 'closep', 'closed': 'closed'}


class Replay:
    def __init__(self, world, case, consts, role='client', text=False):
        self.w = world
        self.loop = world.loop
        self.case = case
        self.k = consts
        self.role = role
        self.text = text
        self.hasB = consts['HasB']
        self.hasC = consts['HasC']
        self.divergences = []
        self.violations = []        # (clause, detail)
        self.log = []
        self.tg = []                # target records
        self.src = []               # source records
        self.emitted = {'x': 0, 'y': 0}
        self.e_eof = self.e_closed = False
        self.e_exit = 'none'
        self.app = {'x': [], 'y': []}       # collected by the application
        self.wait_task = None
        self.wait_res = None
        self.drain_tasks = {}
        self.drain_res = {}
        self.cut = False            # bclose / kclose / cclose happened
        self.kclosed = False
        self.trig = []
        self.tmp = None
        self.B = self.C = self.E = self.K = None
        self.cb = self.cc = None
        self.n_exc = len(self.loop.exceptions)
        self.max_cbuf = 0
        self.steps_done = 0
        self.failed = None
        self.open()

    # -- set-up --------------------------------------------------------
    def _enc(self):
        return 'utf-8' if self.text else None

    def _open_half(self, which):
        """-> (process, raw session, connection entry)"""
        w, k = self.w, self.k
        win_proc = k['W1'] * L if which == 'B' else 64 * L
        win_raw = 64 * L if which == 'B' else k['W2'] * L
        if self.role == 'client':
            ent = w.connection((which, 'client', win_raw), True, window=win_raw,
                               encoding=None)
            n0 = len(w.raw_sessions)

            async def op():
                return await ent['conn'].create_process(
                    command=which, encoding=self._enc(), window=win_proc)
            proc = self.loop.run_until_complete(op())
            self.loop.run_until_idle()
            assert len(w.raw_sessions) == n0 + 1
            raw = w.raw_sessions.pop()
        else:
            async def handler(process):
                w.server_procs.append(process)
            ent = w.connection((which, 'server', win_proc, self.text), False,
                               process_factory=handler, window=win_proc,
                               encoding=self._enc())
            n0 = len(w.server_procs)
            r0 = len(w.raw_sessions)

            async def op():
                return await ent['conn'].create_session(
                    lambda: RawClientSession(w), command=which, encoding=None,
                    window=win_raw)
            _chan, raw = self.loop.run_until_complete(op())
            self.loop.run_until_idle()
            assert len(w.server_procs) == n0 + 1
            proc = w.server_procs.pop()
            del w.raw_sessions[r0:]
        return proc, raw, ent

    def open(self):
        apply_constants(self.k)
        w = self.w
        if self.hasB:
            self.B, self.E, self.cb = self._open_half('B')
        if self.hasC:
            self.C, self.K, self.cc = self._open_half('C')
            self.C.channel.set_write_buffer_limits(high=self.k['CH'] * L,
                                                   low=self.k['CL'] * L)
        self.loop.run_until_idle()
        # manual wires from here on
        w.wires = {}
        self.wq = {}
        for name, ent, proc_side in (('B', self.cb, None), ('C', self.cc, None)):
            if ent is None:
                continue
            ent['ct'].auto = ent['st'].auto = False
            assert not ent['ct'].inq and not ent['st'].inq
            cq, sq = [], []
            w.wires[id(ent['conn'])] = cq
            w.wires[id(ent['sconn'])] = sq
            # the process is on the client side in role "client"
            proc_q, raw_q = (cq, sq) if self.role == 'client' else (sq, cq)
            proc_t, raw_t = (ent['ct'], ent['st']) if self.role == 'client' \
                else (ent['st'], ent['ct'])
            if name == 'B':
                self.wq['EB'] = (raw_q, proc_t)     # written by E, read by B
                self.wq['BE'] = (proc_q, raw_t)
            else:
                self.wq['CK'] = (proc_q, raw_t)
                self.wq['KC'] = (raw_q, proc_t)
        w.tracking = True

    def shut(self):
        w = self.w
        w.tracking = False
        restore_constants()
        for t in list(self.drain_tasks.values()) + [self.wait_task]:
            if t is not None and not t.done():
                t.cancel()
        for ent in (self.cb, self.cc):
            if ent is not None:
                ent['ct'].auto = ent['st'].auto = True
        for rec in self.tg:
            if rec['kind'] == 'stream':
                try:
                    rec['tr'].set_allow(INF)
                except Exception:       # pylint: disable=broad-except
                    pass
        try:
            for p in (self.B, self.C):
                if p is not None:
                    p.close()
            for r in (self.E, self.K):
                if r is not None and r.chan is not None:
                    r.chan.close()
            self.loop.run_until_idle()
        except Exception:               # pylint: disable=broad-except
            pass
        for rec in self.tg + self.src:
            f = rec.get('file')
            if f is not None and not f.closed:
                f.close()
        if self.tmp:
            shutil.rmtree(self.tmp, ignore_errors=True)
        # a torn-down connection is not reused
        for ent in (self.cb, self.cc):
            if ent is not None and (ent['conn'].is_closed() or
                                    ent['sconn'].is_closed()):
                try:
                    ent['conn'].abort()
                    ent['srv'].close()
                except Exception:       # pylint: disable=broad-except
                    pass
                for key, e in list(w.conns.items()):
                    if e is ent:
                        del w.conns[key]
        self.loop.run_until_idle()

    def tmpdir(self):
        if self.tmp is None:
            self.tmp = tempfile.mkdtemp(prefix='x03_', dir=self.w.workdir)
        return self.tmp

    # -- wires ---------------------------------------------------------
    def deliver(self, wname, k):
        q, dst = self.wq[wname]
        n = 0
        hits = 0
        while q and hits < k:
            p = q.pop(0)
            n += p[1]
            if p[0] >= 90:
                hits += 1
        if n:
            self.loop.run_callback(dst.deliver, n)

    def wire_view(self, wname):
        """pending channel packets of a wire in the specification's form"""
        out = []
        for pkttype, _n, payload in self.wq[wname][0]:
            if pkttype < 90:
                continue
            body = payload[5:]
            if pkttype == 94:
                ln = int.from_bytes(body[:4], 'big')
                nm = names(body[4:4 + ln])
                pre = ['d', 'x']
            elif pkttype == 95:
                ln = int.from_bytes(body[4:8], 'big')
                nm = names(body[8:8 + ln])
                pre = ['d', 'y']
            elif pkttype == 96:
                out.append(['eof'])
                continue
            elif pkttype == 97:
                out.append(['close'])
                continue
            elif pkttype == 93:
                out.append(['adj', int.from_bytes(body[:4], 'big') // L])
                continue
            elif pkttype == 98:
                ln = int.from_bytes(body[:4], 'big')
                req = body[4:4 + ln]
                out.append(['exit', 'status' if req == b'exit-status'
                            else 'signal' if req == b'exit-signal'
                            else req.decode('ascii', 'replace')])
                continue
            else:
                out.append(['pkt%d' % pkttype])
                continue
            for tag, n in nm:
                if wname == 'EB':
                    out.append([pre[0], tag, n])
                else:
                    out.append([pre[0], pre[1], tag, n])
        return out

    # -- the labels ----------------------------------------------------
    def do_emit(self, d):
        n = self.emitted[d] + 1
        self.emitted[d] = n
        self.E.chan.write(chunk(d, n), dtype(d))

    def do_emitexit(self, kind):
        ch = self.E.chan
        if kind == 'status':
            ch._send_request(b'exit-status', UInt32(3))
        else:
            ch._send_request(b'exit-signal', String('TERM'), Boolean(False),
                             String('x'), String('en'))
        self.e_exit = kind

    def _stream(self, proc, inbound, d):
        """the SSHReader / SSHWriter object of a stream of a process"""
        if self.role == 'client':
            return (proc.stderr if d == 'y' else proc.stdout) if inbound \
                else proc.stdin
        return proc.stdin if inbound else \
            (proc.stderr if d == 'y' else proc.stdout)

    def _redirect(self, proc, inbound, d, obj, **kw):
        """redirect stream d of proc (inbound: a target, else a source)"""
        if self.role == 'client':
            key = ('stderr' if d == 'y' else 'stdout') if inbound else 'stdin'
        else:
            key = 'stdin' if inbound else ('stderr' if d == 'y' else 'stdout')
        kw[key] = obj
        self.captured = cap = {'w': None, 'r': None}

        # the writer / reader objects the call creates (observation only)
        def set_writer(p, writer, recv_eof, datatype):
            if writer is not None:
                cap['w'] = writer
                cap['wt'] = getattr(writer, '_write_task', None)
            return type(p).set_writer(p, writer, recv_eof, datatype)

        def set_reader(p, reader, send_eof, datatype):
            if reader is not None:
                cap['r'] = reader
            return type(p).set_reader(p, reader, send_eof, datatype)
        procs = [p for p in (self.B, self.C) if p is not None]
        for p in procs:
            p.set_writer = set_writer.__get__(p)
            p.set_reader = set_reader.__get__(p)

        async def op():
            await proc.redirect(bufsize=L, **kw)
        try:
            try:
                self.loop.run_until_complete(op())
            finally:
                for p in procs:
                    del p.set_writer
                    del p.set_reader
        except Deadlock:
            self.failed = f'redirect of {key} did not return'
            self.note('no-crash', f'redirect({key}) never returned')
        except Exception as exc:        # pylint: disable=broad-except
            self.failed = f'redirect of {key} raised {exc!r}'
            self.note('no-crash', f'redirect({key}=...) raised {exc!r}')

    def do_redirb(self, d, kind, re_, cd, se, via):
        rec = {'kind': kind, 'dt': d, 're': re_, 'cdt': cd, 'obj': None,
               'task': None, 'attached': True, 'seq': len(self.log)}
        for r in self.tg:
            if r['attached'] and r['dt'] == d:
                r['attached'] = False
        if kind == 'none':
            self._redirect(self.B, True, d, asyncssh.PIPE, recv_eof=re_)
            return
        if kind == 'proc':
            srec = {'kind': 'proc', 'dt': cd, 'se': se, 'bdt': d, 'obj': None,
                    'attached': True, 'fed': 0, 'eof': False}
            for r in self.src:
                if r['attached'] and r['dt'] == cd:
                    r['attached'] = False
                    r['replaced'] = True
            self.tg.append(rec)
            self.src.append(srec)
            if via == 'w':
                self._redirect(self.B, True, d, self._stream(self.C, False, cd),
                               send_eof=se, recv_eof=re_)
            else:
                self._redirect(self.C, False, cd, self._stream(self.B, True, d),
                               send_eof=se, recv_eof=re_)
            rec['obj'] = self.captured['w']
            srec['obj'] = self.captured['r']
            return
        if kind == 'stream':
            rec['tr'] = BlockableTransport(self.loop)
            target = rec['tr'].writer
        elif kind == 'file':
            rec['path'] = os.path.join(self.tmpdir(), 't%d' % len(self.tg))
            rec['file'] = open(rec['path'], 'wb')
            target = rec['file']
        elif kind == 'null':
            target = asyncssh.DEVNULL
        elif kind == 'merge':
            target = asyncssh.STDOUT
        else:
            raise ValueError(kind)
        self.tg.append(rec)
        self._redirect(self.B, True, d, target, recv_eof=re_)
        rec['obj'] = self.captured['w']
        if kind == 'stream' and rec['obj'] is not None:
            rec['task'] = self.captured['wt']

    def do_redirc(self, cd, kind, se, n):
        for r in self.src:
            if r['attached'] and r['dt'] == cd:
                r['attached'] = False
                r['replaced'] = True
        if kind == 'none':
            self._redirect(self.C, False, cd, asyncssh.PIPE, send_eof=se)
            return
        if kind == 'null':
            self.null_redirected = True
            self._redirect(self.C, False, cd, asyncssh.DEVNULL, send_eof=se)
            return
        rec = {'kind': kind, 'dt': cd, 'se': se, 'obj': None, 'attached': True,
               'fed': 0, 'eof': False}
        if kind == 'stream':
            rec['sr'] = asyncio.StreamReader(loop=self.loop)
            source = rec['sr']
        elif kind == 'file':
            rec['path'] = os.path.join(self.tmpdir(), 's%d' % len(self.src))
            tag = 's%d' % (len(self.src) + 1)
            with open(rec['path'], 'wb') as f:
                f.write(b''.join(chunk(tag, i + 1) for i in range(n)))
            rec['file'] = open(rec['path'], 'rb')
            rec['fed'] = n
            rec['eof'] = True
            source = rec['file']
        else:
            raise ValueError(kind)
        self.src.append(rec)
        self._redirect(self.C, False, cd, source, send_eof=se)
        rec['obj'] = self.captured['r']

    def do_feed(self, s):
        rec = self.src[s - 1]
        rec['fed'] += 1
        rec['sr'].feed_data(chunk('s%d' % s, rec['fed']))

    def do_feedeof(self, s):
        rec = self.src[s - 1]
        rec['eof'] = True
        if rec['attached']:
            rec['eof_while_attached'] = True
        rec['sr'].feed_eof()

    def do_collect(self):
        try:
            o, e = self.B.collect_output()
        except Exception as exc:        # pylint: disable=broad-except
            self.note('no-crash', f'collect_output() raised {exc!r}')
            return
        self.app['x'] += names(o)
        self.app['y'] += names(e)

    def do_drain(self, d):
        wr = self._stream(self.C, False, d)
        self.drain_tasks[d] = self.loop.create_task(wr.drain())

    def step(self, lab):
        k = lab[0]
        if k == 'emit':
            self.do_emit(lab[1])
        elif k == 'emiteof':
            self.E.chan.write_eof()
            self.e_eof = True
        elif k == 'emitexit':
            self.do_emitexit(lab[1])
        elif k == 'emitclose':
            self.E.chan.close()
            self.e_closed = True
        elif k == 'deliver':
            self.deliver(lab[1], lab[2])
        elif k == 'redirb':
            self.do_redirb(*lab[1:])
        elif k == 'redirc':
            self.do_redirc(*lab[1:])
        elif k == 'feed':
            self.do_feed(lab[1])
        elif k == 'feedeof':
            self.do_feedeof(lab[1])
        elif k == 'allow':
            self.tg[lab[1] - 1]['tr'].set_allow(lab[2])
        elif k == 'collect':
            self.do_collect()
        elif k == 'wait':
            self.wait_task = self.loop.create_task(
                self.B.wait() if self.role == 'client' else self.B.wait_closed())
        elif k == 'bclose':
            self.cut = True
            self.B.close()
        elif k == 'kclose':
            self.cut = self.kclosed = True
            self.K.chan.close()
        elif k == 'cclose':
            self.cut = True
            self.C.close()
        elif k == 'drain':
            self.do_drain(lab[1])
        else:
            raise ValueError(lab)
        self.loop.run_until_idle()
        self.after_step()

    def after_step(self):
        if self.wait_task is not None and self.wait_task.done() and \
                self.wait_res is None:
            t = self.wait_task
            if t.cancelled() or t.exception() is not None:
                self.wait_res = ('exc', repr(t.exception()
                                             if not t.cancelled() else 'cancelled'))
                self.note('no-crash', f'wait() raised {self.wait_res[1]}')
            else:
                res = t.result()
                if res is None:         # wait_closed() of a server process
                    self.wait_res = ('done', 'none')
                else:
                    x = 'signal' if res.exit_signal is not None else \
                        'status' if res.exit_status is not None else 'none'
                    self.app['x'] += names(res.stdout or b'')
                    self.app['y'] += names(res.stderr or b'')
                    self.wait_res = ('done', x)
                self.monitor_wait()
        for d, t in self.drain_tasks.items():
            if t.done() and d not in self.drain_res:
                self.drain_res[d] = 'exc' if (t.cancelled() or
                                              t.exception() is not None) else 'ret'
        if self.C is not None:
            self.max_cbuf = max(self.max_cbuf,
                                self.C.channel.get_write_buffer_size())
        self.monitor_step()

    # -- observations --------------------------------------------------
    def target_got(self, rec):
        """what the driver-owned end of a target has received"""
        kind = rec['kind']
        if kind == 'stream':
            return [nm for c in rec['tr'].chunks for nm in names(c)]
        if kind == 'file':
            f = rec['file']
            if not f.closed:
                f.flush()
            with open(rec['path'], 'rb') as g:
                return names(g.read())
        return None

    def target_eofs(self, rec):
        if rec['kind'] == 'stream':
            return rec['tr'].eofs
        if rec['kind'] == 'file':
            return 1 if rec['file'].closed else 0
        return None

    def note(self, clause, detail):
        if not any(c == clause for c, _ in self.violations):
            self.violations.append((clause, detail))

    # -- L1: the property, on what the driver-owned ends have seen ------
    def monitor_step(self):
        # no internal errors: nothing reaches the loop's exception handler,
        # no connection is torn down underneath the pipeline
        excs = self.loop.exceptions[self.n_exc:]
        if excs:
            self.note('no-crash', 'exception reached the event loop: ' +
                      str(excs[0].get('exception') or excs[0].get('message'))[:200])
        for nm, ent in (('B', self.cb), ('C', self.cc)):
            if ent is not None and (ent['conn'].is_closed() or
                                    ent['sconn'].is_closed()):
                self.note('no-crash', f'the SSH connection of {nm} was torn '
                                      f'down (internal error)')
        # targets: each stream arrives as a gap-free increasing run, once;
        # nothing after EOF; EOF at most once and only when asked for; a
        # blocked target gets at most the write that was under way
        seen = {}
        for i, rec in enumerate(self.tg):
            got = self.target_got(rec)
            if got is None:
                continue
            for tag in ('x', 'y'):
                ns = [n for t, n in got if t == tag]
                if any(b != a + 1 for a, b in zip(ns, ns[1:])):
                    self.note('in-order-once',
                              f'target {i + 1} ({rec["kind"]}) received '
                              f'{tag}: {ns}')
                for n in ns:
                    if (tag, n) in seen:
                        self.note('in-order-once',
                                  f'chunk {tag}{n} at target {i + 1} and at '
                                  f'{seen[(tag, n)]}')
                    seen[(tag, n)] = f'target {i + 1}'
            if any(t not in ('x', 'y') for t, _ in got):
                self.note('in-order-once', f'target {i + 1} received {got}')
            eofs = self.target_eofs(rec)
            if eofs and not rec['re']:
                self.note('eof-rule', f'target {i + 1} ({rec["kind"]}) got '
                                      f'EOF although recv_eof=False')
            if rec['kind'] == 'stream':
                tr = rec['tr']
                if tr.eofs > 1:
                    self.note('eof-rule', f'target {i + 1}: {tr.eofs} EOFs')
                if tr.after_eof:
                    self.note('no-write-after-eof',
                              f'target {i + 1}: {tr.after_eof} writes after EOF')
                if tr.max_over > 1:
                    self.note('backpressure',
                              f'target {i + 1}: {tr.max_over} writes while '
                              f'it was blocked')
        for tag in ('x', 'y'):
            for n in [n for t, n in self.app[tag] if t == tag] + \
                    ([n for _c, t, n in self.K.got if t == tag]
                     if self.K is not None else []):
                if (tag, n) in seen:
                    self.note('in-order-once',
                              f'chunk {tag}{n} delivered twice '
                              f'({seen[(tag, n)]} and application / consumer)')
                seen[(tag, n)] = 'application / consumer'
        if self.K is not None:
            for tag in set(t for _c, t, _n in self.K.got):
                ns = [n for _c, t, n in self.K.got if t == tag]
                if any(b != a + 1 for a, b in zip(ns, ns[1:])) or \
                        (tag not in ('x', 'y') and not self.kclosed and
                         ns and ns[0] != 1):
                    self.note('in-order-once',
                              f'the consumer received {tag}: {ns}')
                if tag not in ('x', 'y'):
                    s = int(tag[1:])
                    if s <= len(self.src) and ns and \
                            ns[-1] > self.src[s - 1]['fed']:
                        self.note('in-order-once',
                                  f'the consumer received {tag}: {ns}, '
                                  f'produced {self.src[s - 1]["fed"]}')
            if self.K.eofs > 1:
                self.note('eof-rule', f'the consumer got {self.K.eofs} EOFs')
            if self.K.eofs and not self.eof_due():
                self.note('eof-rule', 'the consumer got EOF although no source '
                                      'with send_eof=True has ended')
            if self.k['W1'] > 0 and not self.limit_lifted():
                bound = (self.k['CH'] + len(self.k['OutDT']) +
                         (self.k['W1'] if self.hasB else 0)) * L
                if self.max_cbuf > bound:
                    self.note('backpressure',
                              f'{self.max_cbuf} bytes buffered in the channel '
                              f'of C (high water {self.k["CH"] * L})')

    def limit_lifted(self):
        return self.wait_task is not None

    def eof_due(self):
        """some source with send_eof=True has ended (reference rule)"""
        if getattr(self, 'null_redirected', False):
            return True
        for rec in self.src:
            if not rec['se']:
                continue
            if rec['kind'] in ('stream', 'file') and rec['eof']:
                return True
            if rec['kind'] == 'proc':
                t = [r for r in self.tg if r['kind'] == 'proc' and
                     r['cdt'] == rec['dt'] and r['dt'] == rec['bdt']]
                if any(r['re'] for r in t) and \
                        (self.e_eof or self.e_closed or self.cut):
                    return True
        return False

    def monitor_wait(self):
        """wait() has returned: all output is where it belongs, the exit
        status is the one that was sent"""
        if self.cut:
            return
        missing = self.missing_output()
        if missing:
            self.note('exit-after-output',
                      f'wait() returned (exit {self.wait_res[1]}) but '
                      f'{missing} had not been delivered')
        if self.role == 'client' and self.wait_res[1] != self.e_exit:
            self.note('exit-report', f'wait() reported {self.wait_res[1]}, '
                                     f'sent {self.e_exit}')

    def missing_output(self):
        have = set()
        for rec in self.tg:
            got = self.target_got(rec)
            if got is None:
                # DEVNULL / STDOUT / the next process: what the next process
                # was given is judged at its consumer
                continue
            have |= {(t, n) for t, n in got}
        for tag in ('x', 'y'):
            have |= {(t, n) for t, n in self.app[tag]}
        unobs = any(r['kind'] in ('null', 'proc') for r in self.tg)
        if unobs:
            return []
        return [f'{d}{n}' for d in ('x', 'y')
                for n in range(1, self.emitted[d] + 1) if (d, n) not in have]

    def monitor_quiet(self):
        """nothing is in flight, no target is blocked and every inbound
        stream is redirected: what the emitter wrote has arrived"""
        if not self.hasB or self.cut or self.failed or \
                self.wait_task is not None:
            return
        last = {}
        for rec in self.tg:
            last[rec['dt']] = rec
        for lab in self.log:
            if lab[0] == 'redirb' and lab[2] == 'none':
                last[lab[1]] = None
        if any(last.get(d) is None for d in self.k['InDT']):
            return                  # an unredirected stream may hold the rest
        if any(r['kind'] in ('null', 'proc') for r in self.tg):
            return                  # not seen / may have been unlinked by C
        have = set()
        for rec in self.tg:
            got = self.target_got(rec)
            if got is not None:
                have |= {(t, n) for t, n in got}
        for tag in ('x', 'y'):
            have |= {(t, n) for t, n in self.app[tag]}
        if self.K is not None:
            have |= {(t, n) for _c, t, n in self.K.got}
        miss = [f'{d}{n}' for d in ('x', 'y')
                for n in range(1, self.emitted[d] + 1) if (d, n) not in have]
        if miss:
            self.note('nothing-stuck', f'nothing is in flight and no target '
                                       f'is blocked, but {miss} have not '
                                       f'been delivered')

    def monitor_drain_quiet(self):
        """every source of a stream has ended and its data was sent: a
        drain() on that stream has returned"""
        if self.cut or self.failed:
            return
        for d, t in self.drain_tasks.items():
            if t.done():
                continue
            recs = [r for r in self.src if r['dt'] == d]
            if any(r['kind'] == 'proc' for r in recs):
                continue
            if all(r['eof'] or r.get('replaced') for r in recs) and \
                    self.C.channel.get_write_buffer_size() == 0:
                self.loop.run_until_idle()
                if not t.done():
                    self.note('waiters-resolve',
                              f'drain() of {d} still pending although every '
                              f'source has ended and everything was sent')

    def monitor_end(self):
        """after the closing phase: nothing is stuck, every waiter resolved,
        EOF where it was asked for"""
        if self.failed:
            return
        if self.wait_task is not None and not self.wait_task.done():
            self.note('waiters-resolve', 'wait() still pending after the '
                                         'channel closed and every target '
                                         'accepted everything')
        for d, t in self.drain_tasks.items():
            if not t.done() and self.C._connection_lost:
                self.note('waiters-resolve', f'drain() of {d} still pending '
                                             f'after the channel closed')
        if self.cut:
            return
        if self.hasB:
            have = set()
            for rec in self.tg:
                got = self.target_got(rec)
                if got is not None:
                    have |= {(t, n) for t, n in got}
            for tag in ('x', 'y'):
                have |= {(t, n) for t, n in self.app[tag]}
            if self.K is not None:
                have |= {(t, n) for _c, t, n in self.K.got}
            if not any(r['kind'] == 'null' for r in self.tg):
                miss = [f'{d}{n}' for d in ('x', 'y')
                        for n in range(1, self.emitted[d] + 1)
                        if (d, n) not in have]
                if miss:
                    self.note('nothing-lost',
                              f'{miss} of the emitter never arrived anywhere')
            for i, rec in enumerate(self.tg):
                if rec['kind'] in ('stream', 'file') and rec['re'] and \
                        rec['obj'] is not None and not self.target_eofs(rec):
                    self.note('eof-complete', f'target {i + 1} '
                                              f'({rec["kind"]}) never got EOF')
        if self.hasC:
            for s, rec in enumerate(self.src):
                if rec['kind'] not in ('stream', 'file'):
                    continue
                if rec.get('replaced') or not rec['eof']:
                    continue
                tag = 's%d' % (s + 1)
                ns = [n for _c, t, n in self.K.got if t == tag]
                if len(ns) != rec['fed']:
                    self.note('nothing-lost',
                              f'source {s + 1} ({rec["kind"]}) produced '
                              f'{rec["fed"]} chunks and ended, the consumer '
                              f'received {ns}')
                elif rec['se'] and not self.K.eofs:
                    self.note('eof-complete',
                              f'source {s + 1} ended with send_eof=True, no '
                              f'EOF at the consumer')

    # -- L2: projection of the real objects ----------------------------
    def project(self):
        k = self.k
        B, C = self.B, self.C
        if B is not None:
            ch = B._chan
            wmap = {id(r['obj']): i + 1 for i, r in enumerate(self.tg)
                    if r['obj'] is not None}
            rb = {d: [nm for b in B._recv_buf.get(dtype(d), [])
                      if not isinstance(b, Exception) for nm in names(b)]
                  for d in ('x', 'y')}
            ex = 'none' if self.role != 'client' else \
                'signal' if ch._exit_signal is not None else \
                'status' if ch._exit_status is not None else 'none'
            wt = 'none' if self.wait_task is None else \
                'done' if self.wait_res is not None else 'pending'
            pb = [ch._recv_window // L,
                  [nm for d, _t in ch._recv_buf for nm in names(d)],
                  RST[ch._recv_state], bool(ch._recv_paused),
                  'open' if ch._send_state == 'open' else 'closed', ex,
                  [rb['x'], rb['y']], B._read_paused,
                  [None in B._paused_write_streams,
                   EXTENDED_DATA_STDERR in B._paused_write_streams],
                  [wmap.get(id(B._writers.get(dtype(d))), 0)
                   if B._writers.get(dtype(d)) is not None else 0
                   for d in ('x', 'y')],
                  B._eof_received, B._connection_lost,
                  [self.app['x'], self.app['y']], wt,
                  self.wait_res[1] if self.wait_res else 'none']
            pe = [self.E.chan._send_window // L if self.E.chan._send_chan
                  is not None or True else 0,
                  self.wire_view('EB'), self.wire_view('BE')]
        else:
            pb = pe = None
        ptg = []
        for rec in self.tg:
            kind = rec['kind']
            if kind == 'stream':
                wo = rec['obj']
                q = wo._queue
                ptg.append([kind, q.qsize(), self.target_got(rec),
                            rec['tr'].eofs,
                            q._unfinished_tasks - q.qsize() == 1 and
                            not rec['task'].done(),
                            wo._paused, wo._write_task is None,
                            rec['task'].done()])
            elif kind == 'file':
                ptg.append([kind, 0, self.target_got(rec),
                            self.target_eofs(rec), False, False,
                            rec['file'].closed, False])
            else:
                ptg.append([kind, 0, None, 0, False, False, False, False])
        if C is not None:
            ch = C._chan
            rmap = {id(r['obj']): i + 1 for i, r in enumerate(self.src)
                    if r['obj'] is not None}
            dr = [('no' if d not in self.drain_tasks else
                   self.drain_res.get(d, 'wait')) for d in ('x', 'y')]
            pc = [[[dtof(t)] + nm for d, t in ch._send_buf for nm in names(d)],
                  ch._send_window // L, RST[ch._send_state], C._write_paused,
                  [rmap.get(id(C._readers.get(dtype(d))), 0)
                   if C._readers.get(dtype(d)) is not None else 0
                   for d in ('x', 'y')],
                  [dtof(d) for d in C._readers], C._connection_lost, dr]
            kch = self.K.chan
            pk = [self.wire_view('CK'), self.wire_view('KC'),
                  kch._recv_window // L, self.K.got, self.K.eofs,
                  'open' if kch._send_state == 'open' else 'closed']
        else:
            pc = pk = None
        psrc = []
        for rec in self.src:
            kind = rec['kind']
            att = rec['obj'] is not None and C is not None and \
                any(r is rec['obj'] for r in C._readers.values())
            if kind == 'stream':
                sr = rec['sr']
                psrc.append([kind, len(sr._buffer) // L if att else 0,
                             bool(rec['obj']._paused) if rec['obj'] else False,
                             'reading' if sr._waiter is not None else 'none',
                             not att])
            elif kind == 'file':
                f = rec['file']
                left = 0 if f.closed else \
                    (os.path.getsize(rec['path']) - f.tell()) // L
                psrc.append([kind, left if att else 0,
                             bool(rec['obj']._paused) if rec['obj'] else False,
                             'none', not att])
            else:
                psrc.append([kind, 0, False, 'none', not att])
        return pe, pb, ptg, pc, psrc, pk

    def compare(self, step, lab, pred):
        pe, pb, ptg, pc, psrc, pk = self.project()
        me, mb, mtg, mc, msrc, mk, mtrig = pred
        self.trig = [t for t, v in zip(TRIGS, mtrig) if v]
        diffs = []
        if self.hasB:
            names_e = ['eWin', 'wEB', 'wBE']
            for nm, a, b in zip(names_e, pe, me):
                if a != b:
                    diffs.append(f'{nm}: real {a} model {b}')
            names_b = ['bRw', 'bPark', 'bRst', 'bRp', 'bSst', 'bExit', 'bRbuf',
                       'bRdP', 'bPws', 'bW', 'bEof', 'bLost', 'bApp', 'bWait',
                       'bWaitX']
            for nm, a, b in zip(names_b, pb, mb):
                if nm == 'bExit' and self.role != 'client':
                    continue
                if a != b:
                    diffs.append(f'{nm}: real {a} model {b}')
        if len(ptg) != len(mtg):
            diffs.append(f'targets: real {len(ptg)} model {len(mtg)}')
        for i, (a, b) in enumerate(zip(ptg, mtg)):
            b = list(b)
            if a[2] is None:
                b[2] = None         # DEVNULL / STDOUT / process: not seen
                b[3] = 0
            # the model's "closed" of a file target means close() was
            # called with needs_close; the real file then is closed
            if a != b:
                diffs.append(f'target {i + 1}: real {a} model {b}')
        if self.hasC:
            names_c = ['cBuf', 'cWin', 'cSst', 'cWp', 'cR', 'cOrd', 'cLost',
                       'cDrain']
            for nm, a, b in zip(names_c, pc, mc):
                if a != b:
                    diffs.append(f'{nm}: real {a} model {b}')
            names_k = ['wCK', 'wKC', 'kRw', 'kGot', 'kEof', 'kSst']
            for nm, a, b in zip(names_k, pk, mk):
                if a != b:
                    diffs.append(f'{nm}: real {a} model {b}')
        if len(psrc) != len(msrc):
            diffs.append(f'sources: real {len(psrc)} model {len(msrc)}')
        for i, (a, b) in enumerate(zip(psrc, msrc)):
            b = list(b)
            if b[4]:
                b[1] = 0
                b[2] = a[2]         # pause flag of a detached reader: unused
                if b[0] == 'stream':
                    b[3] = a[3] if not self.trig else b[3]
            if b[0] == 'stream' and b[3] == 'start':
                b[3] = 'none'
            if a != b:
                diffs.append(f'source {i + 1}: real {a} model {b}')
        if diffs and not self.divergences:
            self.divergences.append(f'step {step} {lab}: ' + '; '.join(diffs[:4]))
        return not diffs

    # -- whole case ----------------------------------------------------
    def execute(self):
        step = 0
        for lab, pred in self.case:
            step += 1
            try:
                self.step(lab)
            except Exception as exc:    # pylint: disable=broad-except
                self.failed = f'step {step} {lab} raised {exc!r}'
                self.note('no-crash', self.failed)
            self.log.append(lab)
            if self.failed:
                break
            if pred is None:        # a fixed schedule: the monitors only
                self.steps_done = step
                continue
            ok = self.compare(step, lab, pred)
            self.steps_done = step
            if not ok:
                break
        if not self.failed:
            try:
                self.finish()
            except Deadlock:
                self.note('waiters-resolve', 'the closing phase never ended')
            except Exception as exc:    # pylint: disable=broad-except
                self.note('no-crash', f'closing phase raised {exc!r}')

    def pump(self):
        for _ in range(400):
            self.loop.run_until_idle()
            moved = False
            for w in ('EB', 'BE', 'CK', 'KC'):
                if w in self.wq and self.wq[w][0]:
                    self.deliver(w, 1)
                    self.loop.run_until_idle()
                    self.after_step()
                    moved = True
            if not moved:
                return
        self.note('waiters-resolve', 'the pipeline never went quiet')

    def finish(self):
        """closing phase (not predicted by the specification; judged by the
        end monitors only)"""
        for rec in self.tg:
            if rec['kind'] == 'stream':
                rec['tr'].set_allow(INF)
        self.loop.run_until_idle()
        self.pump()
        self.monitor_quiet()
        if self.hasC and not self.cut:
            for s, rec in enumerate(self.src):
                if rec['kind'] == 'stream' and not rec['eof'] and \
                        rec['attached'] and not rec.get('replaced'):
                    self.do_feedeof(s + 1)
                    self.loop.run_until_idle()
            self.pump()
            self.monitor_drain_quiet()
        if self.hasB:
            if not self.e_closed and not self.cut:
                if not self.e_eof:
                    self.E.chan.write_eof()
                    self.e_eof = True
                self.E.chan.close()
                self.e_closed = True
            elif not self.e_closed:
                self.E.chan.close()
                self.e_closed = True
            self.pump()
            if self.wait_task is None and not self.cut and \
                    self.role == 'client':
                self.wait_task = self.loop.create_task(self.B.wait())
                self.loop.run_until_idle()
                self.after_step()
            self.pump()
            if self.role == 'server' and not self.cut:
                # a server process has no wait(): the handler reads the rest
                t = self.loop.create_task(self.B.stdin.read())
                self.loop.run_until_idle()
                if t.done() and not t.cancelled() and t.exception() is None:
                    self.app['x'] += names(t.result())
                else:
                    t.cancel()
                    self.note('waiters-resolve', 'stdin.read() of the server '
                              'process did not return after the close')
        if self.hasC and self.drain_tasks and not self.cut:
            # the consumer goes away: every drain() must come back
            self.K.chan.close()
            self.pump()
        self.after_step()
        self.monitor_end()


def replay(world, case, consts, **kw):
    """-> dict(divergences, violations, trig, steps)"""
    rep = Replay(world, case, consts, **kw)
    world.cases += 1
    try:
        rep.execute()
    finally:
        rep.shut()
    return {'divergences': rep.divergences, 'violations': rep.violations,
            'trig': rep.trig, 'steps': rep.steps_done, 'labels': rep.log,
            'failed': rep.failed}


# ---------------------------------------------------------------------------
# back pressure probes: a producer that writes whenever it can against a
# consumer that does not take anything.  The monitor counts what the
# driver-owned producer could get rid of / what sits in the channel buffer.

PROBES = ['stream_target', 'pipe_to_process', 'file_source', 'stream_source',
          'two_file_sources']


def probe(world, name, role='client', W1=1, W2=2, CH=2, CL=1):
    """-> [(clause, detail, defect situation)]"""
    consts = {'HasB': name in ('stream_target', 'pipe_to_process'),
              'HasC': name != 'stream_target', 'W1': W1, 'W2': W2, 'CH': CH,
              'CL': CL, 'QH': _ORIG_Q[0], 'QL': _ORIG_Q[1], 'InDT': ['x'],
              'OutDT': ['x', 'y'] if name == 'two_file_sources' else ['x']}
    if name == 'two_file_sources':
        role = 'server'
    rep = Replay(world, [], consts, role=role)
    out = []
    loop = world.loop
    QH = consts['QH']
    try:
        if name in ('stream_target', 'pipe_to_process'):
            if name == 'stream_target':
                rep.do_redirb('x', 'stream', True, 'x', True, 'w')
                rep.tg[0]['tr'].set_allow(0)
                bound = 1 + QH + W1
            else:
                rep.do_redirb('x', 'proc', True, 'x', True, 'w')
                bound = W2 + CH + 1 + W1
            loop.run_until_idle()
            sent = 0
            for _ in range(bound + 12):
                rep.do_emit('x')
                # everything moves except towards the consumer K
                for _i in range(6):
                    loop.run_until_idle()
                    for w in ('EB', 'BE', 'KC'):
                        if w in rep.wq and rep.wq[w][0]:
                            rep.deliver(w, 1)
                loop.run_until_idle()
                if rep.E.chan.get_write_buffer_size():
                    break
                sent += 1
            if sent > bound:
                out.append(('backpressure',
                            f'{name}: the producer got rid of {sent} chunks '
                            f'while the consumer took '
                            f'{1 if name == "stream_target" else 0} (bound '
                            f'{bound}: window {W1}, queue / buffer limits)',
                            'none'))
        else:
            n = 40
            if name == 'stream_source':
                rep.do_redirc('x', 'stream', False, 0)
                for _ in range(n):
                    rep.do_feed(1)
                    loop.run_until_idle()
                bound = CH + 1
            elif name == 'file_source':
                rep.do_redirc('x', 'file', False, n)
                bound = CH + 1
            else:
                rep.do_redirc('y', 'file', False, n)
                rep.do_redirc('x', 'file', False, n)
                bound = CH + 2
            loop.run_until_idle()
            worst = rep.C.channel.get_write_buffer_size()
            # the consumer takes one window at a time
            for _ in range(6):
                rep.deliver('CK', W2)
                loop.run_until_idle()
                rep.deliver('KC', 9)
                loop.run_until_idle()
                worst = max(worst, rep.C.channel.get_write_buffer_size())
            if worst > bound * L:
                out.append(('backpressure',
                            f'{name}: {worst // L} chunks buffered in the '
                            f'channel of C (high water {CH})',
                            'resume_while_paused'
                            if name == 'two_file_sources' else 'none'))
            excs = loop.exceptions[rep.n_exc:]
            if excs or rep.cc['conn'].is_closed():
                out.append(('no-crash', f'{name}: internal error', 'none'))
    finally:
        rep.shut()
    return out
