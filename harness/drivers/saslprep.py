"""Driver for specs/Auth/SaslPrep.tla: renders a class string with concrete
representatives, renders the model's token output for the same choice, and
runs the real saslprep() - alone, and where it is applied during
authentication (server: user name of a USERAUTH_REQUEST, password of a
password request; client: its own user name option)."""

import unicodedata

import asyncssh
from asyncssh.packet import Boolean, String
from asyncssh.saslprep import saslprep, SASLPrepError

# representatives: (character, NFKC expansion or None)
REPS = {
    'A': [('a', None), ('e', None), ('O', None), ('u', None)],
    'ACC': [('é', None), ('Á', None), ('ó', None)],
    'D': [('0', None), ('7', None)],
    'SP': [(' ', None)],
    'NB': [(' ', None), (' ', None), ('　', None), (' ', None)],
    'SHY': [('­', None), ('‍', None), ('﻿', None), ('͏', None)],
    'CTL': [('\x07', None), ('\x7f', None), ('\u0085', None), ('\x00', None)],
    'R': [('א', None), ('ب', None)],
    'UNA': [('͸', None), ('԰', None), ('\U000e0080', None)],
    'PUA': [('', None), ('\U000f0000', None)],
    'NCH': [('﷐', None), ('￿', None)],
    'INA': [('￹', None), ('⿰', None), ('‎', None), ('‪', None)],
    'TAG': [('\U000e0001', None), ('\U000e0041', None)],
    'LIG': [('ﬁ', 'fi'), ('ﬂ', 'fl')],
    'FW': [('Ａ', 'A'), ('ª', 'a'), ('ｅ', 'e')],
    'CMB': [('́', None)],
}
# what a base letter and the combining acute compose to
COMPOSE = {'a': 'á', 'e': 'é', 'O': 'Ó', 'u': 'ú',
           'A': 'Á', 'i': 'í', 'l': 'ĺ'}


def self_check():
    """The representatives really are in the classes the model assumes (a
    wrong table here would be a false alarm, so it is checked against the
    standard library's tables, not against asyncssh)."""
    import stringprep as sp
    tests = {
        'A': lambda c: sp.in_table_d2(c) and c.isascii(),
        'ACC': lambda c: sp.in_table_d2(c) and unicodedata.normalize('NFKC', c) == c,
        'D': lambda c: not sp.in_table_d1(c) and not sp.in_table_d2(c),
        'SP': lambda c: c == ' ',
        'NB': sp.in_table_c12,
        'SHY': sp.in_table_b1,
        'CTL': sp.in_table_c21_c22,
        'R': sp.in_table_d1,
        'UNA': sp.in_table_a1,
        'PUA': sp.in_table_c3,
        'NCH': sp.in_table_c4,
        'INA': lambda c: sp.in_table_c6(c) or sp.in_table_c7(c) or sp.in_table_c8(c),
        'TAG': sp.in_table_c9,
        'LIG': lambda c: len(unicodedata.normalize('NFKC', c)) == 2,
        'FW': lambda c: len(unicodedata.normalize('NFKC', c)) == 1 and unicodedata.normalize('NFKC', c) != c,
        'CMB': lambda c: unicodedata.combining(c) > 0 and not sp.in_table_d1(c) and not sp.in_table_d2(c),
    }
    bad = []
    for cls, reps in REPS.items():
        for ch, exp in reps:
            if not tests[cls](ch):
                bad.append((cls, hex(ord(ch))))
            if exp is not None and unicodedata.normalize('NFKC', ch) != exp:
                bad.append((cls, hex(ord(ch)), 'expansion'))
            if cls not in ('UNA',) and sp.in_table_a1(ch):
                bad.append((cls, hex(ord(ch)), 'unassigned'))
    for base, comp in COMPOSE.items():
        if unicodedata.normalize('NFC', base + '́') != comp:
            bad.append(('compose', base))
    return bad


def concrete(classes, salt):
    """One concrete string for a class string (representatives picked by
    position and salt); returns (string, [representative per position])."""
    reps = [REPS[c][(salt + 3 * i) % len(REPS[c])] for i, c in enumerate(classes)]
    return ''.join(r[0] for r in reps), reps


def render(tokens, reps):
    def tok(t):
        if t[0] == 'keep':
            return reps[t[1] - 1][0]
        if t[0] == 'sp':
            return ' '
        if t[0] == 'exp':
            return reps[t[1] - 1][1][t[2] - 1]
        if t[0] == 'comp':
            return COMPOSE[tok(t[1])]
        raise ValueError(t)
    return ''.join(tok(t) for t in tokens)


def run_function(text):
    try:
        return ('ok', saslprep(text))
    except SASLPrepError as exc:
        return ('err', str(exc))
    except Exception as exc:            # pylint: disable=broad-except
        return ('crash', f'{type(exc).__name__}: {exc}')


# ---------------------------------------------------------------------------
# where authentication applies it
# ---------------------------------------------------------------------------

def server_sees(username, password):
    """A raw client sends a password request with these strings (UTF-8).
    Returns dict(begin_auth=[user names seen], passwords=[(user, password)
    seen by validate_password], lost=exception type or None, loop_exceptions)."""
    from harness import rawpeer
    from harness.sshpair import hostkey
    from harness.vloop import new_loop, close_loop
    loop = new_loop()
    seen = {'begin_auth': [], 'passwords': [], 'lost': 'open'}

    class Srv(asyncssh.SSHServer):
        def connection_lost(self, exc):
            seen['lost'] = type(exc).__name__ if exc else None

        def begin_auth(self, user):
            seen['begin_auth'].append(user)
            return True

        def password_auth_supported(self):
            return True

        def validate_password(self, user, pw):
            seen['passwords'].append((user, pw))
            return True

    res = {}

    async def go():
        res['acc'] = await asyncssh.listen('127.0.0.1', 2222, server_factory=Srv,
                                           server_host_keys=[hostkey()])
        res['raw'] = await rawpeer.raw_connect('127.0.0.1', 2222)

    try:
        loop.run_until_complete(go())
        loop.run_until_idle()
        raw = res['raw']
        raw.take()
        loop.run_callback(raw.raw_send, 50, rawpeer.userauth_request(
            username.encode('utf-8'), 'password', Boolean(False),
            String(password.encode('utf-8'))))
        loop.run_until_idle()
        seen['replies'] = [t for t, _ in raw.take()]
        seen['loop_exceptions'] = [str(c.get('exception') or c.get('message'))
                                   for c in loop.exceptions]
    finally:
        try:
            res['raw'].abort()
            res['acc'].close()
            loop.run_until_idle()
        except BaseException:           # pylint: disable=broad-except
            pass
        close_loop(loop)
    return seen


def client_option(username):
    """What the client makes of its own user name option."""
    try:
        opts = asyncssh.SSHClientConnectionOptions(username=username,
                                                   known_hosts=None,
                                                   client_keys=None,
                                                   config=None)
        return ('ok', opts.username)
    except SASLPrepError as exc:
        return ('err', str(exc))
    except Exception as exc:            # pylint: disable=broad-except
        return ('crash', f'{type(exc).__name__}: {exc}')
