"""Driver for C10 (specs/Hostile/Grammar.tla): materialises the generated
hostile inputs - SSH messages with one field mutated, DER trees with every
length form, raw byte streams at connection start - feeds them to real
endpoints / parsers under a meter (watchdog, iteration budget, output size,
event-loop exception handler) and classifies the outcome."""

import signal
import struct
import time

import asyncssh
from asyncssh.packet import Boolean, String, UInt32, NameList

from harness import rawpeer
from harness.sshpair import hostkey
from harness.vloop import new_loop, close_loop, Deadlock, Spin


class Watchdog(BaseException):
    pass


def _alarm(signum, frame):
    raise Watchdog('no return within the watchdog time')


class meter:
    """with meter(seconds): ... raises Watchdog if the block spins."""

    def __init__(self, seconds=3.0):
        self.seconds = seconds

    def __enter__(self):
        self.old = signal.signal(signal.SIGVTALRM, _alarm)
        signal.setitimer(signal.ITIMER_VIRTUAL, self.seconds)
        self.t0 = time.perf_counter()
        return self

    def __exit__(self, *exc):
        signal.setitimer(signal.ITIMER_VIRTUAL, 0)
        signal.signal(signal.SIGVTALRM, self.old)
        self.elapsed = time.perf_counter() - self.t0
        return False


# ---------------------------------------------------------------------------
# (1) SSH messages
# ---------------------------------------------------------------------------
# name -> (pkttype, phase, [default field values])   phase: P2 / P3 / P4 / CH
# 'CH' = needs an open session channel; the u32 in first position is then the
# recipient channel and is replaced by the real number unless mutated.
_NL = ['curve25519-sha256', 'ssh-ed25519', 'aes128-ctr', 'aes128-ctr',
       'hmac-sha2-256', 'hmac-sha2-256', 'none', 'none', '', '']
TEMPLATES = {
    'DISCONNECT': (1, 'P3', [11, b'bye', b'']),
    'DEBUG': (4, 'P3', [False, b'msg', b'']),
    'SERVICE_REQUEST': (5, 'P2', [b'ssh-userauth']),
    'KEXINIT': (20, 'P4', [bytes(16)] + [x.encode() for x in _NL] + [False, 0]),
    'KEXDH_INIT': (30, 'KEX', [b'\x07' * 32]),
    'USERAUTH_PASSWORD': (50, 'P3', [b'u', b'ssh-connection', b'password',
                                     False, b'pw']),
    'USERAUTH_PUBLICKEY': (50, 'P3', [b'u', b'ssh-connection', b'publickey',
                                      False, b'ssh-ed25519', b'KEYBLOB']),
    'USERAUTH_KBDINT': (50, 'P3', [b'u', b'ssh-connection',
                                   b'keyboard-interactive', b'', b'']),
    'INFO_RESPONSE': (61, 'KBD', [1, b'pw']),
    'GLOBAL_TCPIP_FORWARD': (80, 'P4', [b'tcpip-forward', True, b'127.0.0.1',
                                        0]),
    'GLOBAL_UNKNOWN': (80, 'P4', [b'nonsense@example', True]),
    'CHANNEL_OPEN_SESSION': (90, 'P4', [b'session', 9, 65536, 32768]),
    'CHANNEL_OPEN_DIRECT': (90, 'P4', [b'direct-tcpip', 9, 65536, 32768,
                                       b'127.0.0.1', 7, b'127.0.0.1', 1234]),
    'WINDOW_ADJUST': (93, 'CH', [0, 10]),
    'CHANNEL_DATA': (94, 'CH', [0, b'data']),
    'CHANNEL_EXT_DATA': (95, 'CH', [0, 1, b'data']),
    'CHANNEL_EOF': (96, 'CH', [0]),
    'CHANNEL_CLOSE': (97, 'CH', [0]),
    'REQ_PTY': (98, 'CH0', [0, b'pty-req', True, b'xterm', 80, 24, 0, 0,
                            b'\x00']),
    'REQ_ENV': (98, 'CH0', [0, b'env', True, b'A', b'b']),
    'REQ_EXEC': (98, 'CH0', [0, b'exec', True, b'cmd']),
    'REQ_SUBSYSTEM': (98, 'CH0', [0, b'subsystem', True, b'sftp']),
    'REQ_WINDOW_CHANGE': (98, 'CH', [0, b'window-change', False, 80, 24, 0,
                                     0]),
    'REQ_SIGNAL': (98, 'CH', [0, b'signal', False, b'INT']),
    'REQ_BREAK': (98, 'CH', [0, b'break', True, 100]),
    'REQ_UNKNOWN': (98, 'CH', [0, b'nonsense', True]),
}


def _enc(kind, v):
    if kind == 'u32':
        return struct.pack('>I', v & 0xffffffff)
    if kind == 'bool':
        return bytes([1 if v else 0]) if isinstance(v, bool) else bytes([v])
    if kind == 'cookie':
        return v
    return struct.pack('>I', len(v)) + v            # str / namelist


def build(name, fields, idx, mut, chan=None):
    """Body (without the type byte) of message `name` with field idx (1-based)
    mutated by `mut`."""
    t, phase, vals = TEMPLATES[name]
    if len(vals) != len(fields):
        raise ValueError(f'template/spec mismatch for {name}')
    out = b''
    for i, (kind, v) in enumerate(zip(fields, vals), 1):
        if i == 1 and phase in ('CH', 'CH0') and chan is not None and \
                not (i == idx and kind == 'u32'):
            v = chan
        if i != idx or mut in ('cut_after', 'trailing'):
            out += _enc(kind, v)
            if i == idx and mut == 'cut_after':
                return out
            continue
        if kind == 'u32':
            out += _enc('u32', {'zero': 0, 'one': 1, 'half': 0x80000000,
                                'max': 0xffffffff}[mut])
        elif kind == 'bool':
            out += bytes([2 if mut == 'two' else 255])
        elif kind == 'cookie':
            out += v[:7]
        else:
            b = v if isinstance(v, bytes) else b''
            if mut == 'len_zero':
                out += struct.pack('>I', 0) + b
            elif mut == 'len_plus1':
                out += struct.pack('>I', len(b) + 1) + b
            elif mut == 'len_half':
                out += struct.pack('>I', 0x80000000) + b
            elif mut == 'len_max':
                out += struct.pack('>I', 0xffffffff) + b
            elif mut == 'empty':
                out += struct.pack('>I', 0)
            elif mut == 'nonutf8':
                out += _enc('str', b'\xff\xfe\x80' + b)
            elif mut == 'long':
                out += _enc('str', b * 400 + b'x' * 3000)
    if mut == 'trailing':
        out += b'\x00\x00\x00\x05extra'
    return out


class ServerUnderTest:
    """A real server, a raw client advanced to the requested phase."""

    def __init__(self, phase):
        self.loop = new_loop()
        self.loop.max_iterations = 100000
        self.lost = []
        self.chan = None
        w = self

        class SS(asyncssh.SSHServerSession):
            def connection_made(self, chan):
                pass

            def pty_requested(self, *a):
                return True

            def shell_requested(self):
                return True

            def exec_requested(self, command):
                return True

            def subsystem_requested(self, subsystem):
                return True

            def break_received(self, msec):
                return True

            def eof_received(self):
                return True

        class Srv(asyncssh.SSHServer):
            def connection_lost(self, exc):
                w.lost.append(exc)

            def begin_auth(self, username):
                return phase in ('P3', 'KBD')

            def password_auth_supported(self):
                return True

            def validate_password(self, u, p):
                return False

            def public_key_auth_supported(self):
                return True

            def validate_public_key(self, u, k):
                return False

            def kbdint_auth_supported(self):
                return True

            def get_kbdint_challenge(self, u, lang, sub):
                return ('', '', '', [('Password:', False)])

            def validate_kbdint_response(self, u, r):
                return False

            def session_requested(self):
                return SS()

            def connection_requested(self, dh, dp, oh, op):
                return False

            def server_requested(self, host, port):
                return False

        async def go():
            self.acc = await asyncssh.listen(
                '127.0.0.1', 2222, server_factory=Srv,
                server_host_keys=[hostkey()], encoding=None)
            self.raw = await rawpeer.raw_connect('127.0.0.1', 2222,
                                                 hold_service=True)

        self.loop.run_until_complete(go())
        self.loop.run_until_idle()
        raw = self.raw
        if phase != 'P2':
            self._send(5, String(b'ssh-userauth'))
        if phase in ('P4', 'CH', 'CH0', 'KEX'):
            self._send(50, rawpeer.userauth_request('u', 'none'))
        if phase == 'KBD':
            self._send(50, rawpeer.kbdint_request('u'))
        if phase in ('CH', 'CH0'):
            self._send(90, rawpeer.session_open(chan=5))
            conf = [p for t, p in raw.inbox if t == 91]
            self.chan = int.from_bytes(conf[0][5:9], 'big')
            if phase == 'CH':
                self._send(98, UInt32(self.chan) + String(b'shell') +
                           Boolean(True))
        if phase == 'KEX':
            # start a re-exchange and stop before the DH init
            raw.raw = False
        self.out0 = sum(len(w_) for w_ in self._st().writes)

    def _st(self):
        return [t for t in self.loop.net.all_transports if t.name == 's'][0]

    def _send(self, t, body):
        self.loop.run_callback(self.raw.raw_send, t, body)

    def feed(self, t, body):
        """Send the hostile packet; returns (outcome, bytes written by server,
        loop iterations)."""
        it0 = self.loop.iterations
        out = 'ok'
        try:
            with meter(3.0):
                self._send(t, body)
        except Watchdog:
            out = 'spin'
        except Spin:
            out = 'spin-iterations'
        for c in list(self.loop.exceptions):
            if isinstance(c.get('exception'), Watchdog):
                self.loop.exceptions.remove(c)
                out = 'spin'
        written = sum(len(w_) for w_ in self._st().writes) - self.out0
        return out, written, self.loop.iterations - it0

    def feed_many(self, pkts):
        """Several packets written back to back, so that the server gets
        them in ONE chunk (requests pipelined behind one another)."""
        it0 = self.loop.iterations
        out = 'ok'

        def burst():
            for t, body in pkts:
                self.raw.raw_send(t, body)
        try:
            with meter(3.0):
                self.loop.run_callback(burst)
        except Watchdog:
            out = 'spin'
        except Spin:
            out = 'spin-iterations'
        for c in list(self.loop.exceptions):
            if isinstance(c.get('exception'), Watchdog):
                self.loop.exceptions.remove(c)
                out = 'spin'
        written = sum(len(w_) for w_ in self._st().writes) - self.out0
        return out, written, self.loop.iterations - it0

    def alive(self):
        """Does the server still answer?  (a global request gets a reply)"""
        if self.lost:
            return False
        n0 = len(self.raw.inbox)
        try:
            self._send(80, String(b'keepalive@openssh.com') + Boolean(True))
        except BaseException:           # pylint: disable=broad-except
            return False
        return len(self.raw.inbox) > n0 or not self.lost

    def stop(self):
        try:
            self.raw.abort()
            self.acc.close()
            self.loop.run_until_idle()
        except BaseException:           # pylint: disable=broad-except
            pass
        exc = [str(c.get('exception') or c.get('message'))
               for c in self.loop.exceptions]
        close_loop(self.loop)
        return exc


def run_msg_case(name, fields, idx, mut, pipelined=False):
    """pipelined: the hostile channel request arrives in the same chunk
    BEHIND requests whose handling completes asynchronously (agent and X11
    forwarding requests), i.e. it is taken from the channel's request queue
    later instead of being handled inside data_received."""
    t, phase, _ = TEMPLATES[name]
    if phase == 'KEX':
        phase_run = 'P4'
    else:
        phase_run = phase
    s = ServerUnderTest(phase_run)
    bad = []
    try:
        if phase == 'KEX':
            # our own KEXINIT first so that the server is inside an exchange
            kx = build('KEXINIT', FIELDS['KEXINIT'], 0, 'none')
            s.feed(20, kx)
        body = build(name, fields, idx, mut, chan=s.chan)
        if pipelined and s.chan is not None:
            pre = [(98, UInt32(s.chan) +
                    String(b'auth-agent-req@openssh.com') + Boolean(True)),
                   (98, UInt32(s.chan) + String(b'x11-req') + Boolean(True) +
                    Boolean(False) + String(b'MIT-MAGIC-COOKIE-1') +
                    String(b'00' * 16) + UInt32(0))]
            out, written, iters = s.feed_many(pre + [(t, body)])
        else:
            out, written, iters = s.feed(t, body)
        if out != 'ok':
            bad.append(f'{out}: handling the packet did not finish')
        if written > 4096 + 64 * len(body):
            bad.append(f'output of {written} bytes for an input of '
                       f'{len(body)} bytes')
        if iters > 2000:
            bad.append(f'{iters} event-loop iterations for one packet')
        for exc in s.lost:
            if exc is None and name != 'DISCONNECT':
                # (a DISCONNECT "by application" is the one message that
                # ends a connection without an error)
                bad.append('the connection was closed because of the '
                           'message but its owner was told a clean close '
                           '(connection_lost(None)), not an error')
            if exc is not None and not isinstance(exc, Exception):
                bad.append(f'owner got a non-exception {exc!r}')
            elif exc is not None and not isinstance(
                    exc, (asyncssh.DisconnectError, ConnectionError)):
                INTERNAL.append((name, idx, mut, type(exc).__name__))
        closed = bool(s.lost)
    finally:
        exc = s.stop()
    if exc:
        bad.append(f'exception reached the event loop: {exc[0]}')
    return bad, closed


FIELDS = {}
INTERNAL = []      # inputs reported to the owner as an internal (non-disconnect) error


# ---------------------------------------------------------------------------
# (2) DER
# ---------------------------------------------------------------------------
_TAGB = {'bool': 0x01, 'int': 0x02, 'bitstr': 0x03, 'octstr': 0x04,
         'null': 0x05, 'oid': 0x06, 'utf8': 0x0c, 'seq': 0x30, 'set': 0x31,
         'ctx0c': 0xa0, 'ctx1p': 0x81, 'tag0': 0x00}
_CONTENT = {'bool': b'\xff', 'int': b'\x05', 'bitstr': b'\x00\xa5',
            'octstr': b'ab', 'null': b'', 'oid': b'\x2a\x03', 'utf8': b'hi',
            'seq': b'', 'set': b'', 'ctx0c': b'', 'ctx1p': b'z',
            'hightag': b'q', 'tag0': b''}


def der_bytes(tag, lenform, kids):
    content = b''.join(der_bytes(k['tag'], k['len'], [])
                       for k in kids) or _CONTENT[tag]
    tb = b'\x1f\x85\x01' if tag == 'hightag' else bytes([_TAGB[tag]])
    n = len(content)
    if lenform == 'short':
        lb = bytes([n])
    elif lenform == 'long1':
        lb = b'\x81' + bytes([n])
    elif lenform == 'long2':
        lb = b'\x82' + struct.pack('>H', n)
    elif lenform == 'overlong':
        lb = b'\x89' + bytes(8) + bytes([n])
    elif lenform == 'indef':
        lb, content = b'\x80', content + b'\x00\x00'
    elif lenform == 'more_than_data':
        lb = bytes([n + 3])
    elif lenform == 'less_than_data':
        lb = bytes([max(0, n - 1)])
    elif lenform == 'zero':
        lb = b'\x00'
    else:
        lb = b'\xff'
    return tb + lb + content


def run_der_case(tag, lenform, kids):
    from asyncssh import asn1
    data = der_bytes(tag, lenform, kids)
    bad = []
    for fn in (asn1.der_decode, asn1.der_decode_partial):
        try:
            with meter(2.0):
                fn(data)
            out = 'value'
        except asn1.ASN1DecodeError:
            out = 'ASN1DecodeError'
        except Watchdog:
            out = 'spin'
            bad.append(f'{fn.__name__}({data.hex()}) did not return')
        except Exception as exc:        # pylint: disable=broad-except
            out = type(exc).__name__
            bad.append(f'{fn.__name__}({data.hex()}) raised '
                       f'{type(exc).__name__}: {exc} instead of '
                       f'ASN1DecodeError')
    # the same bytes as a key file must give a key or KeyImportError
    for imp in (asyncssh.import_private_key, asyncssh.import_public_key,
                asyncssh.import_certificate):
        try:
            with meter(2.0):
                imp(data)
        except (asyncssh.KeyImportError, asyncssh.KeyEncryptionError):
            pass
        except Watchdog:
            bad.append(f'{imp.__name__}({data.hex()}) did not return')
        except Exception as exc:        # pylint: disable=broad-except
            bad.append(f'{imp.__name__}({data.hex()}) raised '
                       f'{type(exc).__name__}: {exc} instead of '
                       f'KeyImportError')
    return bad, out


# ---------------------------------------------------------------------------
# (3) raw byte streams at connection start (both roles)
# ---------------------------------------------------------------------------
# inputs after which either role must have given up (client: more than 1024
# lines before the version; server: the first line is not an SSH version)
MUST_CLOSE = {'empty-line-flood', 'empty-line-flood-256k',
              'empty-line-flood-1m',
              'crlf-line-flood-128k', 'space-line-flood', 'banner-flood',
              'banner-flood-100k'}


def raw_stream_cases():
    L = 4
    big = 0xffffffff
    v = b'SSH-2.0-evil\r\n'
    cases = {
        'empty-line-flood': b'\n' * 5000,
        # large floods: the cost per line must not grow with what is still
        # buffered, and the documented limits must end the connection
        'empty-line-flood-256k': b'\n' * 262144,
        'empty-line-flood-1m': b'\n' * (1 << 20),
        'crlf-line-flood-128k': b'\r\n' * 131072,
        'space-line-flood': b' \n' * 100000,
        'banner-flood-100k': b'b\r\n' * 100000,
        'no-newline-64k': b'A' * 65536,
        'banner-flood': b'x\r\n' * 2000 + v,
        'long-version': b'SSH-2.0-' + b'v' * 9000 + b'\r\n',
        'bad-version': b'SSH-1.0-old\r\n',
        'nul-bytes': bytes(4096),
        'binary': bytes(range(256)) * 16,
        'version-then-len0': v + struct.pack('>I', 0) + bytes(16),
        'version-then-len1': v + struct.pack('>I', 1) + bytes(16),
        'version-then-len4': v + struct.pack('>I', 4) + bytes(16),
        'version-then-lenmax': v + struct.pack('>I', big) + bytes(64),
        'version-then-len-huge': v + struct.pack('>I', 0x7fffffff) + bytes(64),
        'version-then-padlen255': v + struct.pack('>I', 12) + b'\xff' +
        bytes(11),
        'version-then-padlen0': v + struct.pack('>I', 12) + b'\x00' +
        b'\x14' + bytes(10),
        'version-then-empty-payload': v + struct.pack('>I', 8) + b'\x07' +
        bytes(7),
        'version-then-garbage': v + bytes(range(256)) * 8,
        'two-versions': v + v,
        'version-lf-only': b'SSH-2.0-evil\n' + bytes(32),
    }
    return cases


def run_raw_stream(role, name, data, chunk):
    """Feed raw bytes as the whole peer input of a fresh endpoint of `role`
    ('server' or 'client'), in chunks of `chunk` bytes (0 = all at once)."""
    import asyncio
    loop = new_loop()
    loop.max_iterations = 200000
    lost = []
    bad = []

    class Srv(asyncssh.SSHServer):
        def connection_lost(self, exc):
            lost.append(exc)

    class Cli(asyncssh.SSHClient):
        def connection_lost(self, exc):
            lost.append(exc)

    class Dummy(asyncio.Protocol):
        def connection_made(self, transport):
            self.t = transport

        def data_received(self, d):
            pass

    res = {}

    async def go():
        if role == 'server':
            acc = await asyncssh.listen('127.0.0.1', 2222, server_factory=Srv,
                                        server_host_keys=[hostkey()])
            tr, _ = await loop.create_connection(Dummy, '127.0.0.1', 2222)
            res['tr'] = tr
            res['acc'] = acc
        else:
            srv = await loop.create_server(Dummy, '127.0.0.1', 2222)
            res['acc'] = srv
            async def conn():
                return await asyncssh.connect(
                    '127.0.0.1', 2222, known_hosts=None, config=None,
                    client_keys=None, client_factory=Cli, login_timeout=5)

            res['task'] = loop.create_task(conn())

    loop.run_until_complete(go())
    loop.run_until_idle()
    if role == 'client':
        tr = [t for t in loop.net.all_transports if t.name == 's'][0]
    else:
        tr = res['tr']
    out = 'ok'
    try:
        with meter(5.0):
            if chunk:
                for i in range(0, len(data), chunk):
                    loop.run_callback(tr.write, data[i:i + chunk])
            else:
                loop.run_callback(tr.write, data)
            loop.run_until_idle()
    except Watchdog:
        out = 'spin'
    except Spin:
        out = 'spin-iterations'
    if out != 'ok':
        bad.append(f'{out}: handling the input did not finish')
    peer = tr.peer
    written = sum(len(w) for w in peer.writes)
    if written > 16384 + 4 * len(data):
        bad.append(f'{written} bytes written in response to {len(data)} '
                   f'bytes of input')
    for exc in lost:
        if exc is not None and not isinstance(exc, Exception):
            bad.append(f'owner got a non-exception {exc!r}')
    if name in MUST_CLOSE and not lost:
        bad.append('the endpoint is still waiting for more after a flood of '
                   'lines that exceeds its own limits: no error was reported '
                   '(only a login timeout would end this connection)')
    # let timers run (login timeout) so that nothing is left hanging
    try:
        with meter(5.0):
            loop.advance(200)
    except (Watchdog, Spin):
        bad.append('spin while timers ran')
    exc = [str(c.get('exception') or c.get('message'))
           for c in loop.exceptions
           if not isinstance(c.get('exception'), Watchdog)]
    if exc:
        bad.append(f'exception reached the event loop: {exc[0]}')
    try:
        tr.abort()
        res['acc'].close()
        if 'task' in res:
            res['task'].cancel()
        loop.run_until_idle()
    except BaseException:               # pylint: disable=broad-except
        pass
    for t in asyncio.all_tasks(loop):
        t.cancel()
    close_loop(loop)
    return bad, bool(lost)
