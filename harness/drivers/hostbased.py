"""Driver for specs/Auth/HostBased.tla (C05: server side of host-based
authentication).

Every row is run against a real asyncssh server on the deterministic loop:
  * known_client_hosts is real known_hosts text built from the relations the
    specification prints (host -> key, @cert-authority host -> CA, @revoked),
    with real ed25519 keys and real host certificates;
  * the peer connects from the fixed address 10.0.0.5 (local_addr of the raw
    client); the REVERSE LOOKUP is driven by the harness: the virtual loop's
    getnameinfo() answers from loop.net.rdns (set to the row's name), and for
    "no name" loop.getnameinfo is replaced by a coroutine raising
    socket.gaierror;
  * a raw client (harness/rawpeer.py) sends the "hostbased" USERAUTH_REQUEST
    exactly as the row says: claimed client host (with / without trailing
    dot), key or certificate blob, client user name, signature (valid, made
    for another session id, made by another key), optionally after an
    earlier request on the same connection;
  * oracle: USERAUTH_SUCCESS received, SSHServer.auth_completed ran for the
    user, and a session channel is accepted afterwards.
"""

import socket

import asyncssh
from asyncssh.packet import Byte, String

from harness import rawpeer
from harness.vloop import new_loop, close_loop, Deadlock

ADDR = '10.0.0.5'
SERVER_ADDR = ('127.0.0.1', 2222)
CIPHER = 'aes128-gcm@openssh.com'
_keys = {}
_certs = {}


def key(name):
    if name not in _keys:
        _keys[name] = asyncssh.generate_private_key('ssh-ed25519')
    return _keys[name]


def pub(name):
    return key(name).export_public_key('openssh').decode().strip()


def known_hosts_text(pool):
    listed, calisted, revoked = pool
    lines = [f'{h} {pub(k)}' for h, k in listed]
    lines += [f'@cert-authority {h} {pub(ca)}' for h, ca in calisted]
    lines += [f'@revoked * {pub(k)}' for k in revoked]
    return '\n'.join(lines) + '\n'


def credential(cred):
    """-> (algorithm, public blob, signing key)"""
    if cred['ca'] == '-':
        k = key(cred['key'])
        return k.algorithm, k.public_data, k
    ck = (cred['key'], cred['ca'], tuple(sorted(cred['principals'])))
    if ck not in _certs:
        _certs[ck] = key(cred['ca']).generate_host_certificate(
            key(cred['key']), 'row', principals=list(ck[2]))
    cert = _certs[ck]
    return cert.algorithm, cert.public_data, key(cred['key'])


def request_body(sid, q):
    alg, blob, signer = credential(q['cred'])
    host = q['claimed'] + ('.' if q['dot'] else '')
    body = rawpeer.userauth_request(q['user'], b'hostbased', String(alg),
                                    String(blob), String(host),
                                    String(q['cuser']))
    if q['sig'] == 'othersid':
        sid = sid[:-1] + bytes([sid[-1] ^ 1])
    elif q['sig'] == 'otherkey':
        signer = key('someone-else')
    sig = signer.sign(String(sid) + Byte(50) + body, signer.algorithm)
    return body + String(sig)


_kh_cache = {}


def run_row(row, pool):
    """row: dict(enabled, trust, rdns, vuser, prior=None|req, req).
    Returns dict(replies, granted_user, session, vcalls, errors)."""
    loop = new_loop()
    out = {'replies': [], 'completed': None, 'session': False, 'vcalls': [],
           'errors': [], 'loop_exceptions': []}
    w = {}
    if row['rdns'] == 'fail':
        async def no_name(sockaddr, flags=0):
            raise socket.gaierror(socket.EAI_NONAME, 'Name or service not known')
        loop.getnameinfo = no_name
    else:
        loop.net.rdns[ADDR] = row['rdns']

    class Sess(asyncssh.SSHServerSession):
        def connection_made(self, chan):
            self.chan = chan

        def exec_requested(self, command):
            return True

        def session_started(self):
            self.chan.exit(0)

    class Srv(asyncssh.SSHServer):
        def connection_made(self, conn):
            w['sconn'] = conn

        def begin_auth(self, username):
            return True

        def auth_completed(self):
            out['completed'] = w['sconn'].get_extra_info('username')

        def session_requested(self):
            return Sess()

    if row['vuser'] != 'default':
        answer = row['vuser'] == 'true'

        def validate_host_based_user(self, username, client_host,
                                     client_username):
            out['vcalls'].append([username, client_host, client_username])
            return answer
        Srv.validate_host_based_user = validate_host_based_user

    skw = {}
    if row['enabled']:
        text = known_hosts_text(pool)
        if text not in _kh_cache:
            _kh_cache[text] = asyncssh.import_known_hosts(text)
        skw['known_client_hosts'] = _kh_cache[text]

    async def go():
        acc = await asyncssh.listen(
            *SERVER_ADDR, server_factory=Srv, server_host_keys=[key('srv')],
            trust_client_host=row['trust'], encryption_algs=[CIPHER],
            compression_algs=['none'], **skw)
        raw = await rawpeer.raw_connect(*SERVER_ADDR, local_addr=(ADDR, 0))
        w['raw'] = raw
        reqs = ([row['prior']] if row.get('prior') else []) + [row['req']]
        for q in reqs:
            fut = loop.create_future()

            def on_packet(t, _payload, fut=fut):
                if t in (51, 52) and not fut.done():
                    fut.set_result(t)
            raw.on_packet = on_packet
            raw.raw_send(50, request_body(raw._session_id, q))
            t = await fut
            out['replies'].append('success' if t == 52 else 'fail')
            if t == 52:
                break
        raw.on_packet = None
        if out['replies'][-1] == 'success':
            # back to an ordinary client connection: is a session accepted?
            raw.take()
            raw.raw = False
            raw._channels = raw._saved_channels
            raw._auth = None
            try:
                chan, _ = await raw.create_session(asyncssh.SSHClientSession,
                                                   'true')
                await chan.wait_closed()
                out['session'] = True
            except asyncssh.Error as exc:
                out['session_error'] = str(exc)
            raw.close()
            await raw.wait_closed()
        else:
            raw.abort()
        acc.close()

    try:
        loop.run_until_complete(go())
    except Deadlock:
        out['errors'].append('hung')
    except Exception as exc:            # pylint: disable=broad-except
        out['errors'].append(f'{type(exc).__name__}: {exc}')
    out['loop_exceptions'] = [str(c.get('exception') or c.get('message'))
                              for c in loop.exceptions]
    close_loop(loop)
    return out


def _set(v):
    return v['$set'] if isinstance(v, dict) and '$set' in v else list(v)


def _req(q):
    if q['claimed'] == '-':
        return None
    c = q['cred']
    return dict(claimed=q['claimed'], dot=q['dot'], sig=q['sig'],
                user=q['user'], cuser=q['cuser'],
                cred=dict(key=c['key'], ca=c['ca'],
                          principals=sorted(_set(c['principals']))))


def to_row(r):
    """parsed TLC row -> row for run_row"""
    return dict(sec=r['sec'], enabled=r['enabled'], trust=r['trust'],
                rdns=r['rdns'], vuser=r['vuser'], prior=_req(r['prior']),
                req=_req(r['req']))


def to_pool(v):
    return ([tuple(e) for e in _set(v[1])], [tuple(e) for e in _set(v[2])],
            list(_set(v[3])))


def describe(row):
    def one(q):
        c = q['cred']
        cred = c['key'] if c['ca'] == '-' else \
            f'cert({c["ca"]}:{",".join(c["principals"]) or "any"})'
        return (f'{q["claimed"]}{"." if q["dot"] else ""} {cred} '
                f'sig={q["sig"]} {q["cuser"]}->{q["user"]}')
    return (f'{"on" if row["enabled"] else "off"} '
            f'trust={int(row["trust"])} rdns={row["rdns"]} '
            f'vuser={row["vuser"]} | ' +
            (one(row['prior']) + ' ; ' if row['prior'] else '') +
            one(row['req']))
