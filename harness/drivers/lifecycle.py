"""Driver for specs/Lifecycle: replays open / EOF / close / abort /
connection close / abort / cut behaviours into a real client/server pair with
packet-by-packet delivery, and evaluates the C09 monitors on observations:
session and owner callback logs, completion of every awaited call, channel
tables."""

import asyncio

import asyncssh

from harness.sshpair import Pair, NoAuthServer, PairClient
from harness.vloop import Deadlock, _EOF

TYPES = {90: 'OPEN', 91: 'CONF', 92: 'FAIL', 98: 'REQ', 99: 'SUCC',
         100: 'REQFAIL', 94: 'DATA', 96: 'EOF', 97: 'CLOSE', 1: 'DISC',
         93: 'ADJ'}
LEGAL_AFTER_MADE = {'session_started', 'eof_received', 'connection_lost',
                    'data_received'}


class World:
    def __init__(self, chans, reject=(), win=0):
        self.chans = list(chans)
        self.win = win               # channel window in 1-byte chunks (0: default window)
        self.reject = set(reject)
        self.log = {x: {c: [] for c in self.chans} for x in 'cs'}
        self.chan = {x: {} for x in 'cs'}
        self.tasks = {}          # name -> asyncio.Task
        self.closed_by_app = set()   # (side, ch) on which close()/abort() was called
        self.api_errors = []         # (api, exception) raised synchronously by an application call
        self.close_seen = set()      # (side, ch) that received the peer's CLOSE
        self.sent_opens = []     # channel ids in the order OPEN was sent (= arrives)
        self.wbytes = {x: {c: 0 for c in self.chans} for x in 'cs'}
        self.rxbytes = {x: {c: 0 for c in self.chans} for x in 'cs'}
        self.eof_written = set() # (side, ch) on which write_eof() was called while open
        self.rough = set()       # (side, ch) aborted; 'conn' if the connection was closed / cut by anyone
        w = self

        def mk_session(side, ch, base):
            class Sess(base):
                def connection_made(self, chan):
                    w.chan[side][ch] = chan
                    w.log[side][ch].append('connection_made')
                    w._watch(f'wait_closed:{side}:{ch}', chan.wait_closed())

                def session_started(self):
                    w.log[side][ch].append('session_started')

                def exec_requested(self, command):
                    return True

                def data_received(self, data, datatype):
                    w.log[side][ch].append('data_received')
                    w.rxbytes[side][ch] += len(data)

                def eof_received(self):
                    w.log[side][ch].append('eof_received')
                    return True

                def connection_lost(self, exc):
                    w.log[side][ch].append('connection_lost')

            return Sess

        self.mk_session = mk_session

        class Srv(NoAuthServer):
            def session_requested(self):
                ch = w.sent_opens.pop(0) if w.sent_opens else None
                if ch is None or ch in w.reject:
                    return False
                return mk_session('s', ch, asyncssh.SSHServerSession)()

        skw = dict(encoding=None)
        if win:
            skw['window'] = win
        self.pair = Pair(server_cls=Srv, server_kw=skw)

    def _watch(self, name, coro):
        self.tasks[name] = self.pair.loop.create_task(coro)

    def start(self):
        p = self.pair.start()
        self._watch('conn_wait_closed:c', p.conn.wait_closed())
        self._watch('conn_wait_closed:s', p.sconn.wait_closed())
        p.manual()
        return self

    def stop(self):
        for t in self.tasks.values():
            if not t.done():
                t.cancel()
        self.pair.stop()

    # ---- actions ----
    def do(self, lbl):
        p = self.pair
        k = lbl[0]
        conn = {'c': p.conn, 's': p.sconn}
        if k == 'open':
            ch = lbl[1]
            self.sent_opens.append(ch)

            def start():
                self._watch(f'create:{ch}', p.conn.create_session(
                    self.mk_session('c', ch, asyncssh.SSHClientSession),
                    command='x', encoding=None,
                    **({'window': self.win} if self.win else {})))
            p.call(start)
        elif k == 'weof':
            if self.chan[lbl[1]][lbl[2]]._send_state == 'open':
                self.eof_written.add((lbl[1], lbl[2]))
            self._api(self.chan[lbl[1]][lbl[2]].write_eof)
        elif k == 'wdata':
            if self.chan[lbl[1]][lbl[2]]._send_state == 'open':
                self.wbytes[lbl[1]][lbl[2]] += 1
            self._api(self.chan[lbl[1]][lbl[2]].write, b'd')
        elif k == 'pause':
            self._api(self.chan[lbl[1]][lbl[2]].pause_reading)
        elif k == 'resume':
            self._api(self.chan[lbl[1]][lbl[2]].resume_reading)
        elif k == 'close':
            self.closed_by_app.add((lbl[1], lbl[2]))
            self._api(self.chan[lbl[1]][lbl[2]].close)
        elif k == 'abort':
            self.rough.add((lbl[1], lbl[2]))
            self.closed_by_app.add((lbl[1], lbl[2]))
            self._api(self.chan[lbl[1]][lbl[2]].abort)
        elif k == 'connclose':
            self.rough.add('conn')
            self._api(conn[lbl[1]].close)
        elif k == 'connabort':
            self.rough.add('conn')
            self._api(conn[lbl[1]].abort)
        elif k == 'cut':
            self.rough.add('conn')
            def cut():
                p.ct.cut()
                p.st.cut()
            p.queue['c'].clear()
            p.queue['s'].clear()
            p.call(cut)
        elif k == 'chunk':
            return self._deliver(lbl[1], lbl[3])
        elif k == 'run':
            pass
        else:
            raise ValueError(lbl)
        return None

    def _api(self, fn, *args):
        """An application call.  An exception it raises is the call failing
        with an error (which C09 allows), not an exception escaping into the
        event loop."""
        def call():
            try:
                fn(*args)
            except Exception as exc:    # pylint: disable=broad-except
                self.api_errors.append((getattr(fn, '__name__', '?'),
                                        type(exc).__name__))
        self.pair.call(call)

    def _deliver(self, x, wants):
        """wants: message kinds the model delivers in this one chunk."""
        p = self.pair
        dst = p.st if x == 'c' else p.ct
        typed = [w for w in wants if w != 'LOST']
        if typed:
            took = p.deliver(x, lambda t: t in TYPES, count=len(typed))
            got = [TYPES[t] for t, _, _ in took if t in TYPES]
            for t, _, pl in took:
                if t == 97:
                    self._note_close(x, int.from_bytes(pl[1:5], 'big'))
            if got != typed:
                return f'delivered {got} but the model expected {typed}'
        if 'LOST' in wants:
            # the peer's transport went away: EOF after everything written
            if p.queue[x]:
                p.deliver_all(x)
            p.loop.run_callback(dst.deliver)
        return None

    def _note_close(self, x, rchan):
        y = 's' if x == 'c' else 'c'
        for c, chan in self.chan[y].items():
            if chan._recv_chan == rchan:
                self.close_seen.add((y, c))

    # ---- projection ----
    def observe(self):
        p = self.pair
        obs = {'log': {x: {c: [e for e in self.log[x][c]]
                           for c in self.chans} for x in 'cs'}}
        obs['ownerLost'] = dict(p.lost_n)
        obs['nreg'] = {'c': len(p.conn._channels),
                       's': len(p.sconn._channels) if p.sconn else 0}
        obs['create'] = {}
        for c in self.chans:
            t = self.tasks.get(f'create:{c}')
            obs['create'][c] = 'none' if t is None else 'pending' \
                if not t.done() else 'err' if (t.cancelled() or t.exception()) \
                else 'ok'
        obs['states'] = {}
        for x in 'cs':
            for c, chan in self.chan[x].items():
                obs['states'][(x, c)] = (chan._send_state, chan._recv_state,
                                         len(chan._recv_buf))
                if self.win:
                    obs.setdefault('flow', {})[(x, c)] = (
                        chan._send_window, chan._send_buf_len,
                        chan._recv_window)
        obs['pending'] = {x: [TYPES.get(t, t) for t, _, _ in p.queue[x]
                              if t in TYPES] for x in 'cs'}
        return obs

    # ---- L1 monitors ----
    def l1(self, final, quiet=False):
        """quiet: nothing is in flight in either direction."""
        bad = []
        p = self.pair
        for x in 'cs':
            for c in self.chans:
                lg = self.log[x][c]
                if lg.count('connection_lost') > 1:
                    bad.append(f'CloseOnceAndLast: session {x}{c} got '
                               f'connection_lost {lg.count("connection_lost")}'
                               f' times: {lg}')
                if 'connection_lost' in lg and lg[-1] != 'connection_lost':
                    bad.append(f'CloseOnceAndLast: callbacks after '
                               f'connection_lost on session {x}{c}: {lg}')
                if lg and lg[0] != 'connection_made':
                    bad.append(f'LegalOrder: session {x}{c} first callback '
                               f'is {lg[0]}: {lg}')
                for name in ('connection_made', 'session_started',
                             'eof_received'):
                    if lg.count(name) > 1:
                        bad.append(f'LegalOrder: {name} delivered '
                                   f'{lg.count(name)} times to session '
                                   f'{x}{c}: {lg}')
                if final and lg and 'connection_lost' not in lg:
                    bad.append(f'MadeImpliesLost: session {x}{c} was told '
                               f'connection_made but never connection_lost '
                               f'after its connection ended: {lg}')
            # a channel closed gracefully by the peer: by the time the session
            # is told connection_lost it has been given everything the peer
            # wrote (data buffered while reading was paused included)
            y = 's' if x == 'c' else 'c'
            for c in self.chans:
                if 'conn' in self.rough or (x, c) in self.closed_by_app or \
                        (y, c) in self.rough or p.lost:
                    continue
                # (a session that was never started - the open or the
                # session request failed - has no application to deliver to)
                if 'connection_lost' in self.log[x][c] and \
                        'session_started' in self.log[x][c] and \
                        self.rxbytes[x][c] != self.wbytes[y][c]:
                    bad.append(f'DataBeforeClose: session {x}{c} was told '
                               f'connection_lost after {self.rxbytes[x][c]} of '
                               f'the {self.wbytes[y][c]} bytes its peer wrote '
                               f'before closing the channel: {self.log[x][c]}')
            # between two honest endpoints nothing is a protocol error: unless
            # somebody closed, aborted or cut the connection it is still up
            if 'conn' not in self.rough and x in p.lost:
                bad.append(f'HonestNoError: connection {x} ended with '
                           f'{p.lost[x]!r} although neither application '
                           f'closed it and the transport was not cut')
            if p.lost_n[x] > 1:
                bad.append(f'CloseOnceAndLast: owner {x} connection_lost '
                           f'called {p.lost_n[x]} times')
            olog = [e for e in p.log if e[0] == x]
            if olog and any(e[1] == 'connection_lost' for e in olog) and \
                    olog[-1][1] != 'connection_lost':
                bad.append(f'CloseOnceAndLast: owner {x} got callbacks after '
                           f'connection_lost: {olog}')
        if final:
            for name, t in self.tasks.items():
                if not t.done():
                    bad.append(f'AllWaitersResolved: {name} still pending '
                               f'after the connection ended and the loop '
                               f'went idle')
            for x, conn in (('c', p.conn), ('s', p.sconn)):
                if conn is not None and conn._channels:
                    bad.append(f'NoChannelLeft: {len(conn._channels)} '
                               f'channel(s) still registered on closed '
                               f'connection {x}')
        else:
            # closed locally AND the peer's CLOSE arrived: nothing is left to
            # wait for, so wait_closed() is done and the session was told
            for (x, c) in self.closed_by_app & self.close_seen:
                t = self.tasks.get(f'wait_closed:{x}:{c}')
                if t is not None and not t.done():
                    bad.append(f'AllWaitersResolved: wait_closed() on channel '
                               f'{x}{c} still pending although the channel '
                               f'was closed locally and the peer\'s CLOSE '
                               f'has arrived')
                if 'connection_lost' not in self.log[x][c]:
                    bad.append(f'CloseOnceAndLast: session {x}{c} never got '
                               f'connection_lost although the channel is '
                               f'closed in both directions: {self.log[x][c]}')
            if quiet and 'conn' not in self.rough and not p.lost:
                for x in 'cs':
                    y = 's' if x == 'c' else 'c'
                    for c in self.chans:
                        mine, peer = self.chan[x].get(c), self.chan[y].get(c)
                        if mine is None or peer is None:
                            continue
                        consuming = peer._recv_paused is False and \
                            'session_started' in self.log[y][c] and \
                            (y, c) not in self.closed_by_app
                        # close() on a channel whose peer keeps reading: the
                        # unsent data drains, CLOSE goes out, the peer answers
                        t = self.tasks.get(f'wait_closed:{x}:{c}')
                        # (a peer that is itself waiting to close drops what
                        # arrives but gives it back to the window)
                        if (x, c) in self.closed_by_app and \
                                (consuming or
                                 peer._send_state == 'close_pending') and \
                                t is not None and not t.done():
                            bad.append(
                                f'AllWaitersResolved: wait_closed() on '
                                f'channel {x}{c} still pending with nothing '
                                f'in flight although close() was called and '
                                f'the peer is reading (send state '
                                f'{mine._send_state}, {mine._send_buf_len} '
                                f'bytes unsent, window {mine._send_window})')
                        # ... and the end of file its peer signalled behind it
                        if consuming and (x, c) in self.eof_written and \
                                (x, c) not in self.closed_by_app and \
                                (y, c) not in self.rough and \
                                (x, c) not in self.rough and \
                                mine._send_state == 'eof' and \
                                'eof_received' not in self.log[y][c]:
                            bad.append(
                                f'EofDelivered: session {y}{c} is reading and '
                                f'nothing is in flight, its peer signalled '
                                f'end of file, but eof_received() was never '
                                f'called (receive state {peer._recv_state}): '
                                f'{self.log[y][c]}')
                        # as long as the receiver keeps reading every byte
                        # written is delivered (C07 / C08)
                        # (also behind a close(): "any unsent buffered data
                        # will be flushed before the channel is closed" - only
                        # abort() may drop it)
                        if consuming \
                                and (y, c) not in self.rough \
                                and (x, c) not in self.rough \
                                and self.rxbytes[y][c] != self.wbytes[x][c]:
                            bad.append(
                                f'AllDelivered: session {y}{c} is reading and '
                                f'nothing is in flight, but it has {self.rxbytes[y][c]} '
                                f'of the {self.wbytes[x][c]} bytes its peer '
                                f'wrote ({mine._send_buf_len} still unsent, '
                                f'send window {mine._send_window})')
            for c in self.chans:
                t = self.tasks.get(f'create:{c}')
                if t is not None and not t.done():
                    bad.append(f'AllWaitersResolved: create_session({c}) '
                               f'still pending with nothing in flight and '
                               f'nothing scheduled')
        return bad

    def quiesce(self):
        """Deliver everything still in flight, both directions."""
        p = self.pair
        for _ in range(100):
            moved = False
            for x in 'cs':
                dst = p.st if x == 'c' else p.ct
                if p.queue[x]:
                    for t, _, pl in p.deliver_all(x):
                        if t == 97:
                            self._note_close(x, int.from_bytes(pl[1:5], 'big'))
                    moved = True
                elif dst.inq and not dst.closed:
                    p.loop.run_callback(dst.deliver)
                    moved = True
            p.loop.run_until_idle()
            if not moved:
                break


def model_obs(st, chans):
    st = st['s']
    def at(f, side, ch=None):
        v = f[side]
        if ch is None:
            return v
        return v[ch - 1] if isinstance(v, list) else v[ch]

    obs = {'log': {x: {c: list(at(st['log'], x, c)) for c in chans}
                   for x in 'cs'},
           'ownerLost': {x: at(st['ownerLost'], x) for x in 'cs'},
           'nreg': {x: sum(1 for c in chans if at(st['reg'], x, c))
                    for x in 'cs'},
           'create': {c: (st['createW'][c - 1]
                          if isinstance(st['createW'], list)
                          else st['createW'][c]) for c in chans},
           'pending': {x: [m['t'] for m in at(st['net'], x)
                           if m['t'] != 'LOST'] for x in 'cs'}}
    return obs


def replay(steps, chans, reject=(), final=None, win=0, prefix=False):
    """steps: [(label, state-or-None)].  With states the implementation is
    compared with the model after every step; `final` (a model state) is
    compared at the end of the script.  prefix: the script may stop with
    messages in flight and callbacks scheduled (the end game delivers them)."""
    w = World(chans, reject, win).start()
    res = {'diverged': None, 'l1': [], 'script': []}
    try:
        i, n = 0, len(steps)
        while i < n:
            lbl, st = steps[i]
            j = i + 1
            if lbl[0] == 'chunk':
                k = lbl[2]
                if i + k >= n:
                    break               # cut by the depth bound mid-chunk
                lbl = list(lbl) + [[steps[i + 1 + m][0][2]
                                    for m in range(k)]]
                j = i + 1 + k
            while j < n and steps[j][0][0] == 'run':
                j += 1
            last = steps[j - 1][1]
            if last is not None and (last['s']['ready'] or
                                     last['s']['chunk'][1]):
                break                   # cut by the depth bound mid-step
            err = w.do(lbl)
            res['script'].append(lbl)
            if err:
                res['diverged'] = f'step {i} {lbl}: {err}'
                break
            if last is None and i + (j - i) >= n and final is not None:
                last = {'s': final}
            if last is None:
                i = j
                continue
            got = w.observe()
            want = model_obs(last, chans)
            for key in want:
                if got[key] != want[key]:
                    res['diverged'] = (f'step {i} {lbl}: {key}: code='
                                       f'{got[key]!r} model={want[key]!r}')
                    break
            # channel states where the code has a handle
            if not res['diverged']:
                ls = last['s']

                def at(f, x, c):
                    v = ls[f][x]
                    return v[c - 1] if isinstance(v, list) else v[c]

                for (x, c), (s_, r_, nb) in got['states'].items():
                    want_st = (at('ss', x, c), at('rs', x, c),
                               at('rbufN', x, c))
                    if at('reg', x, c) and (s_, r_, nb) != want_st:
                        res['diverged'] = (f'step {i} {lbl}: channel {x}{c} '
                                           f'states code={(s_, r_, nb)} '
                                           f'model={want_st}')
                        break
                    if win and at('reg', x, c) and at('ss', x, c) != 'closed':
                        wantf = (at('swin', x, c), at('sbufN', x, c),
                                 at('rwin', x, c))
                        if got['flow'][(x, c)] != wantf:
                            res['diverged'] = (
                                f'step {i} {lbl}: channel {x}{c} (send '
                                f'window, unsent, receive window) code='
                                f'{got["flow"][(x, c)]} model={wantf}')
                            break
            if res['diverged']:
                break
            i = j
        res['l1'] = w.l1(final=False) if not (res['diverged'] or prefix) \
            else []
        # end game: deliver what is in flight, then lose the transport
        w.quiesce()
        res['l1'] += w.l1(final=False, quiet=True)
        w.do(('cut',))
        w.pair.loop.run_until_idle()
        res['l1'] += w.l1(final=True)
        res['l1'] = sorted(set(res['l1']))
        res['loop_exceptions'] = [str(c.get('exception') or c.get('message'))
                                  for c in w.pair.loop.exceptions]
    finally:
        w.stop()
    return res


def paused_close_case(x, ndata, eof_first, pause_when):
    """Regression schedule: the receiver pauses reading, the sender x writes
    ndata chunks, (signals EOF,) and closes the channel; everything is
    delivered while the receiver is still paused; then it resumes.
    pause_when: 'before' (paused before any data arrives) or 'between'
    (after the first chunk).  Returns the l1 findings."""
    y = 's' if x == 'c' else 'c'
    w = World([1]).start()
    try:
        p = w.pair
        w.do(['open', 1])
        for _ in range(6):              # OPEN, CONF, REQ, SUCC
            p.deliver_all('c')
            p.deliver_all('s')
        if pause_when == 'before':
            w.do(['pause', y, 1])
        for i in range(ndata):
            w.do(['wdata', x, 1])
            if i == 0 and pause_when == 'between':
                p.deliver_all(x)
                w.do(['pause', y, 1])
        if eof_first:
            w.do(['weof', x, 1])
        w.do(['close', x, 1])
        p.deliver_all(x)                # DATA.., (EOF,) CLOSE arrive paused
        p.loop.run_until_idle()
        w.do(['resume', y, 1])
        for _ in range(4):
            p.deliver_all('c')
            p.deliver_all('s')
        p.loop.run_until_idle()
        out = w.l1(final=False)
        if 'connection_lost' not in w.log[y][1]:
            out.append(f'CloseOnceAndLast: session {y}1 never got '
                       f'connection_lost after the peer closed the channel '
                       f'and reading was resumed: {w.log[y][1]}')
        return out, w.log[y][1]
    finally:
        w.stop()
