"""Driver for specs/Transport/Rekey.tla: replays interleavings of application
sends and packet deliveries into a real pair with rekey_bytes=1 semantics
(threshold counted in application packets), and a parametric sweep of busy
sessions with tiny re-key limits whose wire bytes are decoded by the
independent decoder."""

import time as _time

import asyncssh

from harness.sshpair import Pair, NoAuthServer

KEX_OK = set(range(30, 50)) | {1, 2, 3, 4, 20, 21}
KIND = {20: 'KEXINIT', 21: 'NEWKEYS', 30: 'KEXDH_INIT', 31: 'KEXDH_REPLY',
        94: 'APP'}


class World:
    def __init__(self, thresh_c, thresh_s, timer=()):
        self.timer = tuple(timer)
        self.rx = {'c': [], 's': []}
        self.chan = {}
        w = self

        class SS(asyncssh.SSHServerSession):
            def connection_made(self, chan):
                w.chan['s'] = chan

            def exec_requested(self, command):
                return True

            def data_received(self, data, datatype):
                w.rx['s'] += [int(x) for x in data.decode().split(',') if x]

            def eof_received(self):
                return True

        class CS(asyncssh.SSHClientSession):
            def data_received(self, data, datatype):
                w.rx['c'] += [int(x) for x in data.decode().split(',') if x]

            def eof_received(self):
                return True

        class Srv(NoAuthServer):
            def session_requested(self):
                return SS()

        # thresholds: rekey_bytes=1 makes every application packet after the
        # first one since the last exchange start a new exchange
        big = 1 << 30
        self.pair = Pair(
            server_cls=Srv,
            server_kw=dict(encoding=None, window=big,
                           rekey_bytes=big, kex_algs=['curve25519-sha256']),
            client_kw=dict(rekey_bytes=big, kex_algs=['curve25519-sha256']))
        self.CS = CS
        self.thresh = {'c': thresh_c, 's': thresh_s}
        self.napp = {'c': 0, 's': 0}
        self._seen = 0
        self.out = {'c': [], 's': []}

    def start(self):
        p = self.pair.start()

        async def go():
            chan, _ = await p.conn.create_session(self.CS, command='x',
                                                  encoding=None,
                                                  window=1 << 30)
            self.chan['c'] = chan

        p.run(go())
        p.manual()
        # model: threshold T packets; code: rekey_bytes compared with bytes
        # sent since the last KEXINIT.  T=1 <-> rekey_bytes=1, T=0 <-> never.
        for x, conn in (('c', p.conn), ('s', p.sconn)):
            t = self.thresh[x]
            conn._rekey_bytes = (1 << 30) if t == 0 else 1 if t == 1 \
                else 60 * (2 * t - 1)
            conn._rekey_bytes_sent = 0
            # re-keying by time: sides in `timer` have a limit (it does not
            # expire by itself during a replay: 'tick' makes it pass)
            conn._rekey_seconds = 100000 if x in self.timer else 0
            conn._rekey_time = _time.monotonic() + 100000
        self._seen = len(p.events)
        return self

    def stop(self):
        self.pair.stop()

    def _scan(self):
        p = self.pair
        for side, name, f in p.events[self._seen:]:
            if name == 'pkt_out' and f['pkttype'] != 2:
                self.out[side].append(KIND.get(f['pkttype'],
                                               f't{f["pkttype"]}'))
        self._seen = len(p.events)

    def do(self, lbl):
        p = self.pair
        if lbl[0] == 'app':
            x = lbl[1]
            self.napp[x] += 1
            p.call(self.chan[x].write, b'%d,' % self.napp[x])
        elif lbl[0] == 'recv':
            x = lbl[1]
            p.deliver(x, lambda t: t != 2)
        elif lbl[0] == 'tick':
            # rekey_seconds pass for every side that re-keys by time
            for x, conn in (('c', p.conn), ('s', p.sconn)):
                if x in self.timer:
                    conn._rekey_time = _time.monotonic() - 1
        self._scan()

    def observe(self):
        p = self.pair
        return {
            'out': {x: list(self.out[x]) for x in 'cs'},
            'delivered': {'c': list(self.rx['c']), 's': list(self.rx['s'])},
            'pending': {x: [KIND.get(t, f't{t}') for t, _, _ in p.queue[x]
                            if t != 2] for x in 'cs'},
            'err': bool(p.lost),
        }

    def l1(self):
        bad = []
        for x in 'cs':
            got = self.rx[x]
            if got != list(range(1, len(got) + 1)):
                bad.append(f'FIFOExactlyOnce: side {x} received {got}')
        bad += only_kex_between(self.pair.events)
        return bad

    def drain(self):
        p = self.pair
        for _ in range(200):
            if not p.queue['c'] and not p.queue['s']:
                break
            for x in 'cs':
                if p.queue[x]:
                    p.deliver(x, lambda t: t != 2)
            self._scan()


def only_kex_between(events):
    """From the pkt_out hook log: between its KEXINIT and its NEWKEYS a side
    emits only key-exchange and transport-control messages."""
    bad = []
    inkex = {'c': False, 's': False}
    for side, name, f in events:
        if name != 'pkt_out' or side not in inkex:
            continue
        t = f['pkttype']
        if inkex[side] and t not in KEX_OK:
            bad.append(f'OnlyKexBetween: side {side} emitted message type {t} '
                       f'between its KEXINIT and its NEWKEYS')
        if t == 20:
            inkex[side] = True
        elif t == 21:
            inkex[side] = False
    return bad


def model_obs(st):
    st = st['s']
    return {
        'out': {x: list(st['out'][x]) for x in 'cs'},
        'delivered': {x: list(st['delivered'][x]) for x in 'cs'},
        'pending': {x: [m['t'] for m in st['net'][x]] for x in 'cs'},
        'err': st['err'],
    }


def replay(steps, thresh_c, thresh_s, timer=()):
    w = World(thresh_c, thresh_s, timer).start()
    res = {'diverged': None, 'l1': [], 'script': []}
    try:
        base = None
        for i, (lbl, st) in enumerate(steps):
            w.do(lbl)
            res['script'].append(lbl)
            got = w.observe()
            if st is None:              # blind replay of a stored script
                if got['err']:
                    break
                continue
            want = model_obs(st)
            if base is None:
                # session set-up emitted packets before the modelled part
                base = {x: len(got['out'][x]) - len(want['out'][x])
                        for x in 'cs'}
            got['out'] = {x: got['out'][x][max(0, base[x]):] for x in 'cs'}
            for key in want:
                if got[key] != want[key]:
                    res['diverged'] = (f'step {i} {lbl}: {key}: code='
                                       f'{got[key]!r} model={want[key]!r}')
                    break
            if got['err']:
                break
            if res['diverged']:
                # the model no longer describes the run, but the schedule is
                # still a schedule: the rest of it is carried out blindly
                # (writes by the applications, deliveries of whatever is
                # next) so that the monitors judge a complete execution
                for lbl2, _ in steps[i + 1:]:
                    if w.pair.lost:
                        break
                    try:
                        w.do(lbl2)
                    except Exception:       # pylint: disable=broad-except
                        break
                break
        w.drain()
        res['l1'] = w.l1()
        for x, y in (('c', 's'), ('s', 'c')):
            if not w.pair.lost and w.rx[y] != list(range(1, w.napp[x] + 1)):
                res['l1'].append(f'FIFOExactlyOnce: {x} sent {w.napp[x]} '
                                 f'packets, {y} received {w.rx[y]} after '
                                 f'everything was delivered')
        if w.pair.lost:
            res['l1'].append('NoKeyMismatch: connection failed during '
                             f're-exchange: {w.pair.lost}')
        res['loop_exceptions'] = [str(c.get('exception') or c.get('message'))
                                  for c in w.pair.loop.exceptions]
    finally:
        w.stop()
    return res


# ---------------------------------------------------------------------------
# code -> spec: record naturally scheduled executions for RekeyTrace.tla
# ---------------------------------------------------------------------------

def _snap(conn):
    return {'kc': bool(conn._kex_complete), 'ks': bool(conn._kexinit_sent),
            'kexing': conn._kex is not None,
            'staged': conn._next_recv_encryption is not None,
            'ndef': len(conn._deferred_packets),
            'cnt': int(conn._rekey_bytes_sent)}


def _app_id(payload):
    # CHANNEL_DATA: byte 94, uint32 channel, string data = b'%04d,'
    try:
        return int(payload[9:13])
    except ValueError:
        return -1


def record_natural(seed, th_c, th_s, n_c=6, n_s=6, mode='mixed', kw=None):
    """One real session, both applications writing from their own asyncio
    tasks at seeded random (virtual) times, the byte stream segmented and
    stalled at random, re-key limits th_c/th_s given in units of one
    application packet (0 = never; fractions allowed via the 'half' flag in
    mode).  Returns dict(trace=..., l1=[...], nkex=int, raw=int)."""
    import asyncio
    import random
    from asyncssh import _verif
    rng = random.Random(seed)
    w = World(0, 0)
    if kw:
        w.pair.server_kw.update(kw)
        w.pair.client_kw.update(kw)
    p = w.pair.start()
    log = []                              # raw, totally ordered

    async def open_():
        chan, _ = await p.conn.create_session(w.CS, command='x',
                                              encoding=None, window=1 << 30)
        w.chan['c'] = chan

    p.run(open_())
    p.loop.run_until_idle()
    conns = {'c': p.conn, 's': p.sconn}
    side_of = {id(p.conn): 'c', id(p.sconn): 's'}

    def sink(name, f):
        side = side_of.get(id(f.get('conn')))
        if side is None:
            return
        if name in ('pkt_out', 'pkt_in'):
            log.append((name, side, f['pkttype'], f['payload'],
                        f.get('pktlen', 0)))
        elif name == 'pkt_defer':
            log.append((name, side, f['pkttype'], b'', 0))
        elif name in ('pkt_done', 'pkt_handled'):
            # pkt_handled: an asynchronous handler finished (its pkt_done
            # only follows a loop iteration later and finds nothing to do)
            log.append(('pkt_done', side, f['pkttype'], _snap(f['conn']), 0))

    # measure what one application packet adds to the re-key counter
    _verif.set_sink(sink)
    for x in 'cs':
        conns[x]._rekey_bytes = 1 << 30
    before = {x: conns[x]._rekey_bytes_sent for x in 'cs'}
    for x in 'cs':
        p.call(w.chan[x].write, b'0000,')
    p.loop.run_until_idle()
    asz = {x: conns[x]._rekey_bytes_sent - before[x] for x in 'cs'}
    if asz['c'] != asz['s'] or asz['c'] <= 0:
        raise RuntimeError(f'application packet sizes differ: {asz}')
    asz = asz['c']
    w.rx = {'c': [], 's': []}
    del log[:]
    half = 'half' in mode
    th = {}
    for x, t in (('c', th_c), ('s', th_s)):
        th[x] = 0 if t == 0 else 1 if t == 1 and not half else \
            asz * t - (asz // 2 if half else 0)
        conns[x]._rekey_bytes = th[x] if th[x] else 1 << 30
        conns[x]._rekey_bytes_sent = 0
    # random segmentation and stalls of both byte streams
    if 'whole' not in mode:
        for t in (p.ct, p.st):
            t.chunker = (lambda avail: rng.randint(1, max(1, avail))) \
                if 'tiny' not in mode else (lambda avail: rng.randint(1, 7))
    lost = {}

    async def writer(x, n):
        for i in range(1, n + 1):
            await asyncio.sleep(rng.choice([0, 0, 0, 0.001, 0.002, 0.01]))
            if p.lost:
                return
            log.append(('app_begin', x, i, None, 0))
            w.chan[x].write(b'%04d,' % i)
            log.append(('app_end', x, i, _snap(conns[x]), 0))

    async def staller():
        for _ in range(12):
            await asyncio.sleep(rng.choice([0.0005, 0.001, 0.003]))
            t = rng.choice([p.ct, p.st])
            t.auto = not t.auto
        p.ct.auto = p.st.auto = True

    async def go():
        tasks = [writer('c', n_c), writer('s', n_s)]
        if 'stall' in mode or mode == 'mixed':
            tasks.append(staller())
        await asyncio.gather(*tasks)

    outcome = 'ok'
    try:
        p.run(go())
        p.ct.auto = p.st.auto = True
        p.loop.run_until_idle()
    except Exception as exc:            # pylint: disable=broad-except
        outcome = f'{type(exc).__name__}: {exc}'
    _verif.set_sink(None)
    # ---- raw log -> one event per spec action ----
    ev = []
    in_app = {'c': None, 's': None}       # kinds emitted inside a write()
    cur_in = {'c': None, 's': None}       # (kind, id, [kinds emitted])
    nkex = 0
    for name, side, a, b, _ in log:
        if name == 'app_begin':
            in_app[side] = []
        elif name == 'app_end':
            ev.append(dict(e='app', x=side, id=a, t='', out=in_app[side],
                           err=False, **b))
            in_app[side] = None
        elif name == 'pkt_out':
            if a == 2:
                continue
            kind = KIND.get(a, f't{a}')
            nkex += kind == 'KEXINIT'
            if in_app[side] is not None:
                in_app[side].append(kind)
            elif cur_in[side] is not None:
                cur_in[side][2].append(kind)
            else:
                ev.append(dict(e='stray', x=side, id=0, t=kind, out=[],
                               err=False, kc=False, ks=False, kexing=False,
                               staged=False, ndef=0, cnt=0))
        elif name == 'pkt_in':
            if a == 2:
                continue
            kind = KIND.get(a, f't{a}')
            cur_in[side] = (kind, _app_id(b) if a == 94 else 0, [])
        elif name == 'pkt_done':
            if a == 2 or cur_in[side] is None:
                continue
            kind, pid, outs = cur_in[side]
            cur_in[side] = None
            ev.append(dict(e='recv', x='s' if side == 'c' else 'c', id=pid,
                           t=kind, out=outs, err=False, **b))
    for side in 'cs':
        if cur_in[side] is not None:      # handler never finished
            kind, pid, outs = cur_in[side]
            ev.append(dict(e='recv', x='s' if side == 'c' else 'c', id=pid,
                           t=kind, out=outs, err=True,
                           **_snap(conns[side])))
    l1 = []
    for x, y, n in (('c', 's', n_c), ('s', 'c', n_s)):
        if w.rx[y] != list(range(1, n + 1)):
            l1.append(f'FIFOExactlyOnce: {x} wrote 1..{n}, {y} received '
                      f'{w.rx[y]}')
    if p.lost:
        l1.append(f'NoKeyMismatch: connection lost: {p.lost}')
    if outcome != 'ok':
        l1.append(f'session failed: {outcome}')
    hook_events = [(s_, 'pkt_out', {'pkttype': a})
                   for n_, s_, a, _, _ in log if n_ == 'pkt_out']
    l1 += only_kex_between(hook_events)
    exc = [str(c.get('exception') or c.get('message'))
           for c in p.loop.exceptions]
    w.stop()
    return {'trace': {'thc': th['c'], 'ths': th['s'], 'asz': asz, 'ev': ev,
                      'seed': seed, 'mode': mode},
            'l1': l1, 'nkex': nkex, 'raw': len(log), 'loop_exceptions': exc}
