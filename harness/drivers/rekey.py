"""Driver for specs/Transport/Rekey.tla: replays interleavings of application
sends and packet deliveries into a real pair with rekey_bytes=1 semantics
(threshold counted in application packets), and a parametric sweep of busy
sessions with tiny re-key limits whose wire bytes are decoded by the
independent decoder."""

import asyncssh

from harness.sshpair import Pair, NoAuthServer

KEX_OK = set(range(30, 50)) | {1, 2, 3, 4, 20, 21}
KIND = {20: 'KEXINIT', 21: 'NEWKEYS', 30: 'KEXDH_INIT', 31: 'KEXDH_REPLY',
        94: 'APP'}


class World:
    def __init__(self, thresh_c, thresh_s):
        self.rx = {'c': [], 's': []}
        self.chan = {}
        w = self

        class SS(asyncssh.SSHServerSession):
            def connection_made(self, chan):
                w.chan['s'] = chan

            def exec_requested(self, command):
                return True

            def data_received(self, data, datatype):
                w.rx['s'] += [int(x) for x in data.decode().split(',') if x]

            def eof_received(self):
                return True

        class CS(asyncssh.SSHClientSession):
            def data_received(self, data, datatype):
                w.rx['c'] += [int(x) for x in data.decode().split(',') if x]

            def eof_received(self):
                return True

        class Srv(NoAuthServer):
            def session_requested(self):
                return SS()

        # thresholds: rekey_bytes=1 makes every application packet after the
        # first one since the last exchange start a new exchange
        big = 1 << 30
        self.pair = Pair(
            server_cls=Srv,
            server_kw=dict(encoding=None, window=big,
                           rekey_bytes=big, kex_algs=['curve25519-sha256']),
            client_kw=dict(rekey_bytes=big, kex_algs=['curve25519-sha256']))
        self.CS = CS
        self.thresh = {'c': thresh_c, 's': thresh_s}
        self.napp = {'c': 0, 's': 0}
        self._seen = 0
        self.out = {'c': [], 's': []}

    def start(self):
        p = self.pair.start()

        async def go():
            chan, _ = await p.conn.create_session(self.CS, command='x',
                                                  encoding=None,
                                                  window=1 << 30)
            self.chan['c'] = chan

        p.run(go())
        p.manual()
        # model: threshold T packets; code: rekey_bytes compared with bytes
        # sent since the last KEXINIT.  T=1 <-> rekey_bytes=1, T=0 <-> never.
        for x, conn in (('c', p.conn), ('s', p.sconn)):
            t = self.thresh[x]
            conn._rekey_bytes = (1 << 30) if t == 0 else 1 if t == 1 \
                else 60 * (2 * t - 1)
            conn._rekey_bytes_sent = 0
        self._seen = len(p.events)
        return self

    def stop(self):
        self.pair.stop()

    def _scan(self):
        p = self.pair
        for side, name, f in p.events[self._seen:]:
            if name == 'pkt_out' and f['pkttype'] != 2:
                self.out[side].append(KIND.get(f['pkttype'],
                                               f't{f["pkttype"]}'))
        self._seen = len(p.events)

    def do(self, lbl):
        p = self.pair
        if lbl[0] == 'app':
            x = lbl[1]
            self.napp[x] += 1
            p.call(self.chan[x].write, b'%d,' % self.napp[x])
        elif lbl[0] == 'recv':
            x = lbl[1]
            p.deliver(x, lambda t: t != 2)
        self._scan()

    def observe(self):
        p = self.pair
        return {
            'out': {x: list(self.out[x]) for x in 'cs'},
            'delivered': {'c': list(self.rx['c']), 's': list(self.rx['s'])},
            'pending': {x: [KIND.get(t, f't{t}') for t, _, _ in p.queue[x]
                            if t != 2] for x in 'cs'},
            'err': bool(p.lost),
        }

    def l1(self):
        bad = []
        for x in 'cs':
            got = self.rx[x]
            if got != list(range(1, len(got) + 1)):
                bad.append(f'FIFOExactlyOnce: side {x} received {got}')
        bad += only_kex_between(self.pair.events)
        return bad

    def drain(self):
        p = self.pair
        for _ in range(200):
            if not p.queue['c'] and not p.queue['s']:
                break
            for x in 'cs':
                if p.queue[x]:
                    p.deliver(x, lambda t: t != 2)
            self._scan()


def only_kex_between(events):
    """From the pkt_out hook log: between its KEXINIT and its NEWKEYS a side
    emits only key-exchange and transport-control messages."""
    bad = []
    inkex = {'c': False, 's': False}
    for side, name, f in events:
        if name != 'pkt_out' or side not in inkex:
            continue
        t = f['pkttype']
        if inkex[side] and t not in KEX_OK:
            bad.append(f'OnlyKexBetween: side {side} emitted message type {t} '
                       f'between its KEXINIT and its NEWKEYS')
        if t == 20:
            inkex[side] = True
        elif t == 21:
            inkex[side] = False
    return bad


def model_obs(st):
    st = st['s']
    return {
        'out': {x: list(st['out'][x]) for x in 'cs'},
        'delivered': {x: list(st['delivered'][x]) for x in 'cs'},
        'pending': {x: [m['t'] for m in st['net'][x]] for x in 'cs'},
        'err': st['err'],
    }


def replay(steps, thresh_c, thresh_s):
    w = World(thresh_c, thresh_s).start()
    res = {'diverged': None, 'l1': [], 'script': []}
    try:
        base = None
        for i, (lbl, st) in enumerate(steps):
            w.do(lbl)
            res['script'].append(lbl)
            got = w.observe()
            want = model_obs(st)
            if base is None:
                # session set-up emitted packets before the modelled part
                base = {x: len(got['out'][x]) - len(want['out'][x])
                        for x in 'cs'}
            got['out'] = {x: got['out'][x][max(0, base[x]):] for x in 'cs'}
            for key in want:
                if got[key] != want[key]:
                    res['diverged'] = (f'step {i} {lbl}: {key}: code='
                                       f'{got[key]!r} model={want[key]!r}')
                    break
            if res['diverged'] or got['err']:
                break
        w.drain()
        res['l1'] = w.l1()
        for x, y in (('c', 's'), ('s', 'c')):
            if not w.pair.lost and w.rx[y] != list(range(1, w.napp[x] + 1)):
                res['l1'].append(f'FIFOExactlyOnce: {x} sent {w.napp[x]} '
                                 f'packets, {y} received {w.rx[y]} after '
                                 f'everything was delivered')
        if w.pair.lost:
            res['l1'].append('NoKeyMismatch: connection failed during '
                             f're-exchange: {w.pair.lost}')
        res['loop_exceptions'] = [str(c.get('exception') or c.get('message'))
                                  for c in w.pair.loop.exceptions]
    finally:
        w.stop()
    return res
