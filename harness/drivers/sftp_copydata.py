"""Driver for specs/SftpIO/CopyData.tla: the copy-data extension on the real
server.  Every case of the table is sent by a raw SFTP client (own framing)
to asyncssh's SFTPServerHandler with _COPY_DATA_BLOCK_SIZE scaled to the
model's block size, under the C10 meter (CPU-time watchdog; the number of
application read() calls is counted), and a sample through
SFTPClient.remote_copy().  Extra hostile rows use uint64 extremes.
"""

import os
import struct

import asyncssh
from asyncssh import sftp as _sftp

from harness.drivers import sftp_proto
from harness.drivers.sftp_proto import (FaultyServer, RawSession, ServerWorld,
                                        open_body, classify, check_body)
from harness.drivers.sftp_io import u32, u64, sstr, Cur, HANDLE, EXTENDED
from harness.drivers.hostile import meter, Watchdog

WATCHDOG = 1.5          # seconds of CPU time for one request


class _Counting:
    """Counts the application's read() calls; optionally makes them short"""
    reads = 0
    short = False


_orig_read = FaultyServer.read if 'read' in FaultyServer.__dict__ else None


def _install():
    if getattr(FaultyServer, '_copydata_hook', False):
        return
    base_read = asyncssh.SFTPServer.read

    def read(self, file_obj, offset, size):
        _Counting.reads += 1
        data = base_read(self, file_obj, offset, size)
        if _Counting.short and len(data) > 1:
            return data[:-1]            # a short read that is not end of file
        return data

    FaultyServer.read = read
    FaultyServer._copydata_hook = True


def ids_to_bytes(ids):
    return bytes(0 if i == 0 else (i if i < 100 else 0x80 + (i - 100))
                 for i in ids)


def raw_case(sw, v, S, ro, L, wo, D, same, final_ids, iters, B, short=False):
    """One copy-data request through the raw client.  Returns (sw, res):
    sw is replaced when the watchdog had to stop the server."""
    _install()
    res = {'l1': [], 'case': [S, ro, L, wo, D, same], 'v': v}
    root = sw.root
    srcp, dstp = os.path.join(root, 'cs'), os.path.join(root, 'cd')
    with open(srcp, 'wb') as f:
        f.write(ids_to_bytes(range(1, S + 1)))
    with open(dstp, 'wb') as f:
        f.write(ids_to_bytes(range(101, 101 + D)))
    old = _sftp._COPY_DATA_BLOCK_SIZE
    _sftp._COPY_DATA_BLOCK_SIZE = B
    _Counting.reads, _Counting.short = 0, short
    sess = None
    try:
        sess = RawSession(sw, v)
        r1 = sess.exchange(3, open_body(v, b'cs', write=True))
        r2 = r1 if same else sess.exchange(3, open_body(v, b'cd', write=True))
        if not (r1 and r2 and r1[0] == HANDLE and r2[0] == HANDLE):
            res['skipped'] = 'open failed'
            return sw, res
        hs, hd = Cur(r1[1]).str(), Cur(r2[1]).str()
        body = sstr(b'copy-data') + sstr(hs) + u64(ro) + u64(L) + sstr(hd) + \
            u64(wo)
        rid = sess.request(EXTENDED, body)
        pid = sess.request(16, sstr(b'.') + (b'\x01' if v >= 6 else b''))
        fired = False
        try:
            with meter(WATCHDOG) as m:
                sess.loop.run_until_idle()
            # (asyncio stores a BaseException raised inside a task in the
            # task instead of propagating it: judge by the CPU time used)
            fired = m.elapsed >= 0.8 * WATCHDOG
        except Watchdog:
            fired = True
        if fired:
            res['l1'].append(('CopyDataWork', f'one copy-data request '
                              f'(source {S} bytes, offset {ro}, length {L}, '
                              f'block {B}) kept the server busy for more '
                              f'than {WATCHDOG} s of CPU time without '
                              f'returning to the event loop; read() was '
                              f'called {_Counting.reads} times'))
            res['watchdog'] = True
            try:
                sw.close()
            except BaseException:       # pylint: disable=broad-except
                pass
            return ServerWorld(), res
        mine, probe = [], []
        for pt, b in sess.packets():
            i = struct.unpack('>I', b[:4])[0] if len(b) >= 4 else None
            if i == rid:
                mine.append((pt, b[4:]))
            elif i == pid:
                probe.append((pt, b[4:]))
        res['reads'] = _Counting.reads
        if len(mine) != 1:
            res['l1'].append(('ExactlyOneReply', f'{len(mine)} replies to '
                              f'the copy-data request'))
        for pt, b in mine:
            res['reply'] = classify(pt, b)
            bad = check_body(pt, b, v)
            if bad:
                res['l1'].append(('WellFormedReply', bad))
        if len(probe) != 1:
            res['l1'].append(('ErrorNotFatal', 'the session did not answer '
                              'the next request'))
        if final_ids is not None:
            bound = iters + 1
            if _Counting.reads > bound and not short:
                res['l1'].append(('ChunkProgress', f'{_Counting.reads} '
                                  f'read() calls for a copy that needs '
                                  f'{iters}'))
            ok = res.get('reply', ('?',))[0] == 'status_ok'
            want = ids_to_bytes(final_ids)
            got = open(srcp if same else dstp, 'rb').read()
            if ok and got != want:
                res['l1'].append(('CopyExact', f'copy-data(offset {ro}, '
                                  f'length {L}, to offset {wo}) of a '
                                  f'{S}-byte source (block {B}'
                                  f'{", short reads" if short else ""}) '
                                  f'answered OK; destination {got!r}, '
                                  f'expected {want!r}'))
            if not same and open(srcp, 'rb').read() != \
                    ids_to_bytes(range(1, S + 1)):
                res['l1'].append(('CopyExact', 'the source was modified'))
            if not ok and not res['l1']:
                res['diverged'] = f'reply {res.get("reply")}, table says OK'
    finally:
        _sftp._COPY_DATA_BLOCK_SIZE = old
        _Counting.short = False
        if sess is not None and not res.get('watchdog'):
            sess.close()
    return sw, res


def api_case(sw, v, S, ro, L, wo, D, final_ids, B):
    """The same through SFTPClient.remote_copy()"""
    _install()
    res = {'l1': [], 'case': [S, ro, L, wo, D, False], 'v': v}
    root = sw.root
    srcp, dstp = os.path.join(root, 'as'), os.path.join(root, 'ad')
    with open(srcp, 'wb') as f:
        f.write(ids_to_bytes(range(1, S + 1)))
    with open(dstp, 'wb') as f:
        f.write(ids_to_bytes(range(101, 101 + D)))
    old = _sftp._COPY_DATA_BLOCK_SIZE
    _sftp._COPY_DATA_BLOCK_SIZE = B
    loop = sw.loop

    async def go():
        sftp = await sw.conn.start_sftp_client(sftp_version=v)
        try:
            a = await sftp.open('as', 'rb')
            b = await sftp.open('ad', 'r+b')
            await sftp.remote_copy(a, b, ro, L, wo)
            await a.close()
            await b.close()
        finally:
            sftp.exit()

    fired = False
    try:
        with meter(WATCHDOG * 2) as m:
            loop.run_until_complete(go())
            loop.run_until_idle()
    except (asyncssh.Error, OSError) as e:
        res['diverged'] = f'remote_copy raised {e!r}'
        _sftp._COPY_DATA_BLOCK_SIZE = old
        return sw, res
    except BaseException:               # Watchdog, Deadlock after a spin
        fired = True
    if fired or m.elapsed >= 1.6 * WATCHDOG:
        res['l1'].append(('CopyDataWork', 'remote_copy() kept the server '
                          'spinning'))
        res['watchdog'] = True
        try:
            sw.close()
        except BaseException:           # pylint: disable=broad-except
            pass
        _sftp._COPY_DATA_BLOCK_SIZE = old
        return ServerWorld(), res
    _sftp._COPY_DATA_BLOCK_SIZE = old
    got = open(dstp, 'rb').read()
    want = ids_to_bytes(final_ids)
    if got != want:
        res['l1'].append(('CopyExact', f'remote_copy(offset {ro}, length '
                          f'{L}, to {wo}) of a {S}-byte source returned '
                          f'normally; destination {got!r}, expected '
                          f'{want!r}'))
    return sw, res


HOSTILE = [   # (S, read offset, length, write offset): uint64 extremes
    (3, 0, 2**63, 0), (3, 0, 2**64 - 1, 0), (3, 1, 2**32, 1),
    (3, 2**63, 1, 0), (3, 2**64 - 1, 0, 0), (3, 0, 1, 2**63),
    (0, 0, 2**64 - 1, 0), (4, 4, 5, 0), (4, 5, 2**40, 0),
]


def select_rows(rows, quick, seed, B):
    if not quick:
        return rows
    out = []
    for i, r in enumerate(rows):
        _t, S, ro, L, wo, D, same, _it, _f = r
        left = max(S - ro, 0)
        k = i + seed
        if (L > 0 and L % B == 0 and k % 3 == 0) or \
                (L > left and k % 6 == 0) or k % 12 == 0:
            out.append(r)
    return out


def replay(ctx, rows, B, clauses, quick, rnd, label, stride=1):
    """Run the table rows; report the clauses in `clauses` as violations of
    the calling check.  Returns counters."""
    sw = ServerWorld()
    stats = {'rows': 0, 'api': 0, 'hostile': 0, 'watchdog': 0}
    hits = {}

    def report(r, what, rp):
        for clause in sorted({c for c, _ in r['l1']}):
            if clause not in clauses:
                continue
            hits[clause] = hits.get(clause, 0) + 1
            if hits[clause] > 4:
                continue
            text = '; '.join(t for c, t in r['l1'] if c == clause)
            ctx.violation({'module': 'CopyData', 'clause': clause,
                           'case': r['case'], 'via': what},
                          f'{clause} ({what}, v{r["v"]}): {text}', replay=rp)
        if r.get('diverged') and not r['l1']:
            ctx.divergence(f'CopyData {what} {r["case"]}: {r["diverged"]}')

    try:
        for i, row in enumerate(select_rows(rows, quick, ctx.seed,
                                            B)[::stride if quick else 1]):
            _t, S, ro, L, wo, D, same, iters, final = row
            v = rnd.choice([3, 6])
            sw, r = raw_case(sw, v, S, ro, L, wo, D, same, final, iters, B)
            stats['rows'] += 1
            stats['watchdog'] += bool(r.get('watchdog'))
            ctx.count((label, S, ro, L, wo, D, same), nontrivial=L > B)
            report(r, 'raw client', {'kind': 'copydata', 'row': row[1:7]})
            if not same and i % 9 == 0:
                sw, r = api_case(sw, v, S, ro, L, wo, D, final, B)
                stats['api'] += 1
                report(r, 'remote_copy', {'kind': 'copydata',
                                          'row': row[1:7]})
            if stats['watchdog'] > 3:
                break
        for S, ro, L, wo in HOSTILE:
            sw, r = raw_case(sw, rnd.choice([3, 6]), S, ro, L, wo, 2, False,
                             None, 0, B)
            stats['hostile'] += 1
            report(r, 'raw client, uint64 extremes', {'kind': 'copydata',
                                                      'row': [S, ro, L, wo]})
    finally:
        try:
            sw.close()
        except BaseException:           # pylint: disable=broad-except
            pass
    ctx.notes.append(f'copy-data ({label}): {stats}' +
                     (f' hits {hits}' if hits else ''))
    return stats


def table(B=2, MaxS=5):
    """Run TLC on CopyData.tla and return (result, rows)"""
    from harness import tlc
    from harness.framework import VERIF
    spec = os.path.join(VERIF, 'specs', 'SftpIO')
    cfg = f'_copydata_{os.getpid()}.cfg'
    with open(os.path.join(spec, cfg), 'w') as f:
        f.write(f'CONSTANTS\n  B = {B}\n  MaxS = {MaxS}\n'
                f'  ZeroMeansToEnd = FALSE\n  NoProgressAtEof = FALSE\n'
                f'  Emit = TRUE\nSPECIFICATION Spec\nINVARIANT CopyExact\n'
                f'INVARIANT ChunkProgress\nINVARIANT Table\n')
    tag = f'c12_copydata_{os.getpid()}'
    try:
        res = tlc.run(spec, 'CopyData', cfg, tag, workers=1, timeout=600,
                      java_heap='2g')
    finally:
        tlc.cleanup(tag)
        os.remove(os.path.join(spec, cfg))
    rows = [r for r in sftp_proto.printed_multiline(res.output)
            if r and r[0] == 'COPYDATA']
    return res, rows


def copy_data_work_cases(ctx, quick):
    """For checks/c10.py: one hostile copy-data request costs bounded work
    (CPU-time watchdog per request, iterations <= what the copy needs)."""
    import random
    res, rows = table()
    ctx.require_tlc_ok('CopyData table (work bound)', res)
    ctx.require(len(rows) > 1000, f'copy-data table has {len(rows)} rows')
    return replay(ctx, rows, 2, {'CopyDataWork', 'ChunkProgress',
                                 'ExactlyOneReply', 'ErrorNotFatal'},
                  quick, random.Random(ctx.seed + 10), 'c10')
