"""Transport-level drivers: run real sessions between two real endpoints with
chosen algorithms, payload sizes and segmentation, record every byte and
key-log record, and hand them to the independent decoder (harness/wire.py).
Also the packet-boundary MITM used for C01/C06/C11."""

import asyncio

import asyncssh
from asyncssh import _verif

from harness import wire
from harness.sshpair import hostkey
from harness.vloop import new_loop, close_loop, Deadlock


class Recorder:
    """Global, ordered record of writes (per direction) and key logs."""

    def __init__(self):
        self.events = []        # ('w', dir, bytes) | ('k', rec)
        self.app = {'c': [], 's': []}     # (type, payload) emitted > 49
        self.rx = {'c': [], 's': []}      # (type, seq) accepted by side

    def sink(self, name, f):
        conn = f.get('conn')
        side = 'c' if conn.is_client() else 's'
        if name == 'keylog':
            rec = {k: (v.decode() if isinstance(v, bytes) and
                       k[:3] in ('enc', 'mac', 'cmp') else v)
                   for k, v in f.items() if k != 'conn'}
            rec['side'] = side
            rec['kex_alg'] = f['kex_alg'].decode()
            self.events.append(('k', rec))
        elif name == 'pkt_out':
            self.app[side].append((f['pkttype'], f['seq'], f['payload'],
                                   f.get('written', True)))
        elif name == 'pkt_in':
            self.rx[side].append((f['pkttype'], f['seq'], f['payload'],
                                  f['skip_reason']))

    def tap(self, transport, idx, data):
        self.events.append(('w', 'cs' if transport.name == 'c' else 'sc',
                            data))
        return [data]


def decode_all(rec):
    """Feed the recording to the independent decoder.  Returns
    (session, error or None)."""
    sess = wire.Session()
    try:
        for ev in rec.events:
            if ev[0] == 'k':
                sess.keylog(ev[1])
            elif ev[0] == 'seq':
                # the harness moved both endpoints' sequence numbers
                (sess.cs if ev[1] == 'cs' else sess.sc).seq = ev[2]
            elif ev[0] == 'iv':
                # the harness moved the AES-GCM nonce of one direction on
                # both endpoints (any value can come out of key derivation)
                (sess.cs if ev[1] == 'cs' else sess.sc).gcm_iv = ev[2]
            else:
                sess.feed(ev[1], ev[2])
    except wire.WireError as exc:
        return sess, str(exc)
    return sess, None


class NoAuth(asyncssh.SSHServer):
    last_conn = None
    lost = []

    def connection_made(self, conn):
        NoAuth.last_conn = conn

    def connection_lost(self, exc):
        NoAuth.lost.append(exc)

    def begin_auth(self, username):
        return False


class _Cli(asyncssh.SSHClient):
    lost = []

    def connection_lost(self, exc):
        _Cli.lost.append(exc)


SRV_RX = []


async def _echo(proc):
    try:
        while True:
            data = await proc.stdin.read(65536)
            if not data:
                break
            SRV_RX.append(data)
            proc.stdout.write(data)
        proc.exit(0)
    except (asyncssh.Error, OSError):
        pass


def run_session(payloads, client_kw=None, server_kw=None, chunker=None,
                mitm=None, rekey_bytes=None, after_connect=None, burst=False):
    """One real session: connect, open an echo process, send each payload
    and read it back, close.  Returns dict(rec, outcome, echoed, ...)."""
    loop = new_loop()
    rec = Recorder()
    _verif.set_sink(rec.sink)
    out = {'rec': rec, 'outcome': None, 'echoed': [], 'lost': {}}
    del SRV_RX[:]
    skw = dict(server_factory=NoAuth, server_host_keys=[hostkey()],
               process_factory=_echo, encoding=None)
    skw.update(server_kw or {})
    ckw = dict(known_hosts=None, config=None, client_keys=None, username='u',
               encoding=None, client_factory=_Cli)
    del NoAuth.lost[:]
    del _Cli.lost[:]
    ckw.update(client_kw or {})
    if rekey_bytes:
        skw['rekey_bytes'] = rekey_bytes
        ckw['rekey_bytes'] = rekey_bytes

    def on_connect(tr, peer):
        tr.filter = mitm.filter if mitm is not None else rec.tap
        peer.filter = tr.filter
        if mitm is not None:
            mitm.attach(rec, tr, peer)
        if isinstance(chunker, tuple) and chunker[0] == 'cuts':
            _, lens, hdr, cuts, jitter = chunker
            tr.chunker = CutChunker(tr, lens, hdr, cuts, jitter)
            peer.chunker = CutChunker(peer, lens, hdr, cuts, jitter)
            out['chunkers'] = (tr.chunker, peer.chunker)
        elif chunker is not None:
            tr.chunker = chunker
            peer.chunker = chunker

    loop.net.on_connect = on_connect

    async def go():
        acc = await asyncssh.listen('127.0.0.1', 2222, **skw)
        try:
            conn = await asyncssh.connect('127.0.0.1', 2222, **ckw)
            out['conn'] = conn
            out['sconn'] = NoAuth.last_conn
            if after_connect is not None:
                await after_connect(conn, NoAuth.last_conn, rec)
            proc = await conn.create_process('x', encoding=None)
            if burst:
                # everything is written before anything is read: the peer
                # sees one chunk spanning all the packets
                for p in payloads:
                    proc.stdin.write(p)
                for p in payloads:
                    got = await proc.stdout.readexactly(len(p)) if p else b''
                    out['echoed'].append(got)
            else:
                for p in payloads:
                    proc.stdin.write(p)
                    got = await proc.stdout.readexactly(len(p)) if p else b''
                    out['echoed'].append(got)
            proc.stdin.write_eof()
            await proc.wait()
            conn.close()
            await conn.wait_closed()
        finally:
            acc.close()

    try:
        loop.run_until_complete(go())
        out['outcome'] = 'ok'
    except Deadlock:
        out['outcome'] = 'stall'
    except asyncssh.Error as exc:
        out['outcome'] = 'error:' + type(exc).__name__
        out['exc'] = exc
    except (OSError, asyncio.IncompleteReadError) as exc:
        out['outcome'] = 'error:' + type(exc).__name__
        out['exc'] = exc
    except Exception as exc:            # pylint: disable=broad-except
        # anything else the session raises is an outcome to be judged, not
        # a failure of the harness
        out['outcome'] = 'error!:' + type(exc).__name__
        out['exc'] = exc
    try:
        loop.run_until_idle()
    except BaseException:               # pylint: disable=broad-except
        pass
    out['srv_rx'] = b''.join(SRV_RX)
    out['lost'] = {'s': list(NoAuth.lost), 'c': list(_Cli.lost)}
    out['loop_exceptions'] = [str(c.get('exception') or c.get('message'))
                              for c in loop.exceptions]
    if 'chunkers' in out:
        out['applied'] = [c.applied[:12] for c in out.pop('chunkers')]
    _verif.set_sink(None)
    for t in asyncio.all_tasks(loop):
        t.cancel()
    close_loop(loop)
    return out


class CutChunker:
    """Segments the byte stream INTO `transport` at the real-stream images of
    abstract cut offsets chosen by TLC (specs/RecvMachine).  Abstract packet
    i (length lens[i-1] units, header hdr units) is the i-th write() of the
    peer (write 1 = version line); beyond the modelled packets the stream is
    delivered as it comes."""

    def __init__(self, transport, lens, hdr, cuts, jitter=0, hb=8):
        self.t = transport
        self.lens, self.hdr, self.cuts = lens, hdr, sorted(set(cuts))
        self.jitter, self.hb = jitter, hb
        self.applied = []

    def _real(self, cut):
        """Real stream offset of abstract offset `cut`, or None if the
        packet it falls in has not been written yet."""
        writes = self.t.peer.writes
        start = 0
        astart = 0
        for j, ln in enumerate(self.lens):
            if j >= len(writes):
                return None
            size = len(writes[j])
            if cut <= astart + ln:
                u = cut - astart
                hb = min(self.hb, size - 1) if j else max(1, size - 2)
                if u >= ln:
                    off = size
                elif u <= self.hdr:
                    off = max(1, (u * hb) // self.hdr)
                else:
                    body = size - hb
                    off = hb + max(1, ((u - self.hdr) * body) //
                                   (ln - self.hdr))
                    off = min(off, size - 1)
                return start + min(size, max(1, off + (self.jitter
                                                     if 0 < u < ln else 0)))
            start += size
            astart += ln
        return None

    def __call__(self, avail):
        pos = sum(len(d) for d in self.t.delivered)
        for c in self.cuts:
            r = self._real(c)
            if r is None:
                break
            if r > pos:
                n = min(avail, r - pos)
                self.applied.append(pos + n)
                return n
        return avail


def seq_jump(value):
    """after_connect callback: move the sequence numbers of both directions
    to `value` on both endpoints (and tell the decoder), to exercise the
    32-bit wrap and the width of the number that goes into the MAC."""
    async def cb(conn, sconn, rec):
        for a, b, d in ((conn, sconn, 'cs'), (sconn, conn, 'sc')):
            if not hasattr(a, '_send_seq') or not hasattr(b, '_recv_seq'):
                raise RuntimeError('sequence number attributes not found')
            a._send_seq = value
            b._recv_seq = value
            rec.events.append(('seq', d, value))
    return cb


class NoNonceAccess(Exception):
    """The nonce of the negotiated cipher cannot be set from outside."""


def iv_jump(ivs):
    """after_connect callback: replace the AES-GCM nonce (fixed field +
    invocation counter, 12 bytes) of direction d by ivs[d] on the sending and
    on the receiving endpoint, and tell the decoder.  The initial nonce comes
    out of the key derivation, so any value is one a session can start from;
    specs/Transport/Nonce.tla chooses the ones that make carries happen."""
    async def cb(conn, sconn, rec):
        for a, b, d in ((conn, sconn, 'cs'), (sconn, conn, 'sc')):
            ca = getattr(getattr(a, '_send_encryption', None), '_cipher', None)
            cb_ = getattr(getattr(b, '_recv_encryption', None), '_cipher', None)
            if not isinstance(getattr(ca, '_iv', None), bytes) or \
                    not isinstance(getattr(cb_, '_iv', None), bytes) or \
                    len(ca._iv) != 12:
                raise NoNonceAccess(d)
            ca._iv = ivs[d]
            cb_._iv = ivs[d]
            rec.events.append(('iv', d, ivs[d]))
    return cb


class Mitm:
    """On-path adversary at packet granularity.  Every transport.write() is
    one SSH packet; packets of a direction are numbered from 1 starting with
    the first packet written after that side sent NEWKEYS (i.e. the first
    encrypted one).  actions: list of dicts
      {dir: 'cs'|'sc', op: flip|trunc|drop|dup|swap|splice, id: n, ...}"""

    def __init__(self, actions, macsize=16, seed=0):
        self.actions = list(actions)
        self.macsize = macsize
        self.count = {'cs': 0, 'sc': 0}
        self.enc = {'cs': False, 'sc': False}
        self.seen = {'cs': [], 'sc': []}      # encrypted packets as written
        self.fwd = {'cs': [], 'sc': []}       # encrypted bytes as forwarded
        self.held = {}
        self.applied = []
        self.rec = None
        self.finned = set()                   # directions ended by a FIN
        self.preinserted = set()

    def attach(self, rec, ct, st):
        self.rec = rec
        orig = rec.sink

        def sink(name, f):
            orig(name, f)
            if name == 'pkt_out' and f['pkttype'] == 21:
                side = 'cs' if f['conn'].is_client() else 'sc'
                self.enc[side] = True
        _verif.set_sink(sink)

    def filter(self, transport, idx, data):
        d = 'cs' if transport.name == 'c' else 'sc'
        self.rec.events.append(('w', d, data))
        if not self.enc[d]:
            pre = [a for a in self.actions if a['op'] == 'preinsert']
            if pre and d not in self.preinserted and len(data) > 5 and \
                    data[5] == 20 and not data.startswith(b'SSH-'):
                # an IGNORE message in front of the first KEXINIT
                self.preinserted.add(d)
                for a in pre:
                    if not a.get('done'):
                        a['done'] = True
                        self.applied.append(dict(a))
                ignore = (12).to_bytes(4, 'big') + bytes([6, 2, 0, 0, 0, 0]) \
                    + bytes(6)
                return [ignore, data]
            return [data]
        self.count[d] += 1
        n = self.count[d]
        self.seen[d].append(data)
        if d in self.finned:                    # written behind the FIN
            return []
        out = [data]
        if d in self.held:                      # second half of a swap
            out = [data, self.held.pop(d)]
        for a in self.actions:
            if a['dir'] != d or a['id'] != n or a.get('done'):
                continue
            a['done'] = True
            self.applied.append(dict(a))
            op = a['op']
            if op == 'flip' and a.get('setlen') is not None:
                # the whole length field rewritten (taint "len" of the model)
                out = [a['setlen'].to_bytes(4, 'big') + data[4:]] + out[1:]
            elif op == 'flip':
                out = [self._flip(data, a['region'], a.get('bit', 0))] + out[1:]
            elif op == 'trunc':
                out = [data[:max(1, len(data) - 1 - a.get('cut', 0))]] + out[1:]
            elif op == 'drop':
                out = out[1:]
            elif op == 'fin':
                # end of stream in front of this packet: whatever was to be
                # forwarded before it goes out, then the receiver sees EOF
                for o in out[1:]:
                    transport._send(o)
                self.fwd[d] += out[1:]
                self.finned.add(d)
                transport._send_eof()
                return []
            elif op == 'dup':
                out = [data] + out
            elif op == 'swap':
                self.held[d] = data
                out = out[1:]
            elif op == 'splice':
                w = a['what']
                if w == 'replay':
                    ins = self.seen[d][0] if len(self.seen[d]) > 1 else data
                elif w == 'back':
                    # the packet written a['back'] packets earlier
                    ins = self.seen[d][n - 1 - a['back']]
                elif w == 'foreign':
                    # a packet of the OTHER direction - the one with the same
                    # sequence number if that direction has got that far (so
                    # that only the per-direction keys tell them apart)
                    o = 'sc' if d == 'cs' else 'cs'
                    ins = self.seen[o][n - 1] if len(self.seen[o]) >= n else \
                        self.seen[o][0] if self.seen[o] else bytes(48)
                else:
                    ins = bytes((7 * i + 3) % 256 for i in range(len(data)))
                out = [ins] + out
        self.fwd[d] += out
        return out

    def _flip(self, data, region, bit):
        b = bytearray(data)
        ms = self.macsize
        if region == 'len':
            pos = bit % 4
        elif region == 'tag':
            pos = len(b) - 1 - (bit % ms)
        elif region == 'pad':
            pos = len(b) - ms - 1 - (bit % 4)
        else:
            body = len(b) - ms - 5 - 4
            pos = 5 + (bit * 7) % max(1, body)
        b[pos] ^= 1 << (bit % 8)
        return bytes(b)

    def changed(self, d):
        return b''.join(self.seen[d]) != b''.join(self.fwd[d])


def burst_after_drop(enc, drop_packets=1, calls=3):
    """F6 regression: the adversary removes the first `drop_packets` packets
    of a burst of three channel writes and the rest reaches the receiver in
    several data_received() calls within ONE loop iteration (what an SSH
    tunnel does).  Returns (data the receiving application got, lost)."""
    from harness.sshpair import Pair, NoAuthServer
    got = []

    class SS(asyncssh.SSHServerSession):
        def exec_requested(self, command):
            return True

        def data_received(self, data, datatype):
            got.append(data)

    class Srv(NoAuthServer):
        def session_requested(self):
            return SS()

    kw = dict(encryption_algs=[enc])
    p = Pair(server_cls=Srv, server_kw=dict(encoding=None, **kw),
             client_kw=kw).start()
    try:
        async def go():
            chan, _ = await p.conn.create_session(asyncssh.SSHClientSession,
                                                  command='x', encoding=None)
            return chan
        chan = p.run(go())
        p.manual()
        for i in range(3):
            p.call(chan.write, b'line%d\n' % (i + 1))
        sizes = [x[1] for x in p.queue['c']]
        st = p.st
        drop = sum(sizes[:drop_packets])

        def deliver():
            buf = b''.join(x for x in st.inq if isinstance(x, bytes))
            st.inq.clear()
            st.inq.append(buf[drop:])
            st.in_bytes = len(buf) - drop
            rest = sizes[drop_packets:]
            per = max(1, len(rest) // calls)
            while rest:
                st.deliver(sum(rest[:per]))
                rest = rest[per:]

        p.loop.run_callback(deliver)
        return b''.join(got), {k: type(v).__name__ for k, v in p.lost.items()}
    finally:
        p.stop()


def run_asym_session(role, asym, payloads, kw=None, raw_kw=None):
    """A session between a real endpoint (`role` = the side under test) and a
    raw peer that negotiates DIFFERENT algorithms per direction (asym: see
    rawpeer._RawMixin.asym).  The raw peer authenticates with "none", opens
    a session, execs, sends each payload and reads the echo.  Returns the
    same dict as run_session."""
    from asyncssh.packet import Boolean, String, UInt32
    from harness import rawpeer
    loop = new_loop()
    rec = Recorder()
    _verif.set_sink(rec.sink)
    out = {'rec': rec, 'outcome': None, 'echoed': [], 'lost': {}}
    del SRV_RX[:]
    del NoAuth.lost[:]
    del _Cli.lost[:]
    allcmp = ['none', 'zlib', 'zlib@openssh.com']

    def on_connect(tr, peer):
        tr.filter = rec.tap
        peer.filter = rec.tap

    loop.net.on_connect = on_connect
    res = {}
    echoed = bytearray()

    async def go_server_under_test():
        skw = dict(server_factory=NoAuth, server_host_keys=[hostkey()],
                   process_factory=_echo, encoding=None,
                   compression_algs=allcmp)
        skw.update(kw or {})
        res['acc'] = await asyncssh.listen('127.0.0.1', 2222, **skw)
        res['raw'] = await rawpeer.raw_connect('127.0.0.1', 2222, asym=asym,
                                               compression_algs=allcmp,
                                               **(raw_kw or {}), **(kw or {}))

    def script_client():
        raw = res['raw']
        loop.run_until_idle()
        raw.take()

        def send(t, b):
            loop.run_callback(raw.raw_send, t, b)
            return raw.take()
        got = send(50, rawpeer.userauth_request('u', 'none'))
        if 52 not in [t for t, _ in got]:
            return f'no USERAUTH_SUCCESS: {[t for t, _ in got]}'
        got = send(90, rawpeer.session_open(chan=5, window=1 << 24))
        conf = [p for t, p in got if t == 91]
        if not conf:
            return f'no open confirmation: {[t for t, _ in got]}'
        c = int.from_bytes(conf[0][5:9], 'big')
        send(98, UInt32(c) + String(b'exec') + Boolean(True) + String(b'x'))
        for p in payloads:
            data = b''
            for t, pl in send(94, UInt32(c) + String(p)) if p else []:
                if t == 94:
                    n = int.from_bytes(pl[5:9], 'big')
                    data += pl[9:9 + n]
            out['echoed'].append(data)
        send(96, UInt32(c))
        loop.run_until_idle()
        return None

    async def go_client_under_test():
        st = {}

        def on_conn(conn):
            res['raw'] = conn

            def on_packet(t, payload):
                if t == 5:
                    conn.raw_send(6, String(b'ssh-userauth'))
                elif t == 50:
                    conn.raw_send(52, b'')
                elif t == 90:
                    st['c'] = int.from_bytes(payload[12:16], 'big')
                    conn.raw_send(91, UInt32(st['c']) + UInt32(3) +
                                  UInt32(1 << 24) + UInt32(1 << 15))
                elif t == 98:
                    conn.raw_send(99, UInt32(st['c']))
                elif t == 94:
                    n = int.from_bytes(payload[5:9], 'big')
                    conn.raw_send(94, UInt32(st['c']) +
                                  String(payload[9:9 + n]))
                elif t == 96:
                    conn.raw_send(96, UInt32(st['c']))
                    conn.raw_send(98, UInt32(st['c']) + String(b'exit-status')
                                  + Boolean(False) + UInt32(0))
                    conn.raw_send(97, UInt32(st['c']))
            conn.on_packet = on_packet

        res['acc'] = await rawpeer.raw_listen(
            '127.0.0.1', 2222, on_conn, asym=asym,
            server_host_keys=[hostkey()], compression_algs=allcmp,
            **(raw_kw or {}), **(kw or {}))
        ckw = dict(known_hosts=None, config=None, client_keys=None,
                   username='u', client_factory=_Cli,
                   compression_algs=allcmp)
        ckw.update(kw or {})
        conn = await asyncssh.connect('127.0.0.1', 2222, **ckw)
        res['conn'] = conn
        proc = await conn.create_process('x', encoding=None)
        for p in payloads:
            proc.stdin.write(p)
            got = await proc.stdout.readexactly(len(p)) if p else b''
            out['echoed'].append(got)
        proc.stdin.write_eof()
        await proc.wait()
        conn.close()
        await conn.wait_closed()

    try:
        if role == 's':
            loop.run_until_complete(go_server_under_test())
            err = script_client()
            out['outcome'] = 'ok' if err is None else 'error:' + err
        else:
            loop.run_until_complete(go_client_under_test())
            out['outcome'] = 'ok'
    except Deadlock:
        out['outcome'] = 'stall'
    except (asyncssh.Error, OSError) as exc:
        out['outcome'] = 'error:' + type(exc).__name__
        out['exc'] = exc
    try:
        loop.run_until_idle()
    except BaseException:               # pylint: disable=broad-except
        pass
    out['srv_rx'] = b''.join(SRV_RX)
    out['lost'] = {'s': list(NoAuth.lost), 'c': list(_Cli.lost)}
    out['loop_exceptions'] = [str(c.get('exception') or c.get('message'))
                              for c in loop.exceptions]
    try:
        if 'conn' in res:
            res['conn'].abort()
        if 'raw' in res:
            res['raw'].abort()
        if 'acc' in res:
            res['acc'].close()
        loop.run_until_idle()
    except BaseException:               # pylint: disable=broad-except
        pass
    _verif.set_sink(None)
    close_loop(loop)
    return out


# ---------------------------------------------------------------------------
# chosen ephemeral keys: the shared secret of a curve25519 exchange is made
# to start with a zero octet, a set high bit, ... and the exchange hash is
# recomputed from the bytes on the wire by the harness (RFC 8731 / RFC 4253:
# K is the 32 octets read as an unsigned integer, encoded as an mpint)
# ---------------------------------------------------------------------------

def _find_x25519_pair(cls, rnd):
    from cryptography.hazmat.primitives.asymmetric import x25519
    from cryptography.hazmat.primitives.serialization import (
        Encoding, PublicFormat)
    a = x25519.X25519PrivateKey.from_private_bytes(
        bytes(rnd.randrange(256) for _ in range(32)))
    for _ in range(200000):
        b = x25519.X25519PrivateKey.from_private_bytes(
            bytes(rnd.randrange(256) for _ in range(32)))
        sh = a.exchange(b.public_key())
        ok = {'plain': 1 <= sh[0] < 0x80,
              'highbit': sh[0] >= 0x80,
              'zero_low': sh[0] == 0 and 1 <= sh[1] < 0x80,
              'zero_high': sh[0] == 0 and sh[1] >= 0x80}[cls]
        if ok:
            return a, b, sh
    raise RuntimeError('no key pair found for ' + cls)


def _mpint(n):
    if n == 0:
        return (0).to_bytes(4, 'big')
    b = n.to_bytes((n.bit_length() + 8) // 8, 'big')
    return len(b).to_bytes(4, 'big') + b


def _s(b):
    return len(b).to_bytes(4, 'big') + b


def chosen_ecdh_session(cls, seed, payloads=(b'abc', b'defgh')):
    """A session with kex curve25519-sha256 whose two ephemeral keys are
    chosen by the harness so that the shared secret is of class `cls`.
    Returns (run_session result, findings)."""
    import hashlib
    import random
    from cryptography.hazmat.primitives.asymmetric import x25519
    rnd = random.Random(seed)
    a, b, shared = _find_x25519_pair(cls, rnd)
    queue = [a, b]
    orig = x25519.X25519PrivateKey.generate

    def fake():
        return queue.pop(0) if queue else orig()

    x25519.X25519PrivateKey.generate = staticmethod(fake)
    try:
        kw = dict(kex_algs=['curve25519-sha256'],
                  encryption_algs=['aes128-ctr'], mac_algs=['hmac-sha2-256'],
                  compression_algs=['none'])
        r = run_session(list(payloads), client_kw=kw, server_kw=kw)
    finally:
        x25519.X25519PrivateKey.generate = orig
    bad = []
    if queue:
        bad.append('machinery: chosen keys were not used')
        return r, bad
    # cleartext part of both directions
    raw = {'cs': b'', 'sc': b''}
    for ev in r['rec'].events:
        if ev[0] == 'w':
            raw[ev[1]] += ev[2]
    ver, pkts = {}, {}
    for d in raw:
        line, _, rest = raw[d].partition(b'\r\n')
        ver[d] = line
        out = []
        while len(rest) >= 5:
            n = int.from_bytes(rest[:4], 'big')
            pad = rest[4]
            pl = rest[5:4 + n - pad]
            out.append(pl)
            rest = rest[4 + n:]
            if pl[:1] == b'\x15':          # NEWKEYS: ciphertext follows
                break
        pkts[d] = out
    try:
        i_c = next(p for p in pkts['cs'] if p[0] == 20)
        i_s = next(p for p in pkts['sc'] if p[0] == 20)
        init = next(p for p in pkts['cs'] if p[0] == 30)
        reply = next(p for p in pkts['sc'] if p[0] == 31)
    except StopIteration:
        bad.append(f'handshake did not get as far as the key exchange reply '
                   f'(outcome {r["outcome"]})')
        return r, bad
    q_c = init[5:5 + int.from_bytes(init[1:5], 'big')]
    n = int.from_bytes(reply[1:5], 'big')
    k_s = reply[5:5 + n]
    m = int.from_bytes(reply[5 + n:9 + n], 'big')
    q_s = reply[9 + n:9 + n + m]
    k = _mpint(int.from_bytes(shared, 'big'))
    h = hashlib.sha256(_s(ver['cs']) + _s(ver['sc']) + _s(i_c) + _s(i_s) +
                       _s(k_s) + _s(q_c) + _s(q_s) + k).digest()
    logs = [ev[1] for ev in r['rec'].events if ev[0] == 'k']
    if not logs:
        bad.append(f'no keys were derived (outcome {r["outcome"]})')
    for rec in logs[:2]:
        if rec['k'] != k:
            bad.append(f'side {rec["side"]}: K is encoded as '
                       f'{rec["k"][:8].hex()}... ({len(rec["k"])} bytes); '
                       f'RFC 4251 mpint of the shared secret '
                       f'{shared[:3].hex()}... is {k[:8].hex()}... '
                       f'({len(k)} bytes)')
        if rec['h'] != h:
            bad.append(f'side {rec["side"]}: exchange hash differs from the '
                       f'hash of the bytes on the wire and the RFC encoding '
                       f'of K (shared secret {shared[:3].hex()}...)')
    return r, bad
