"""Driver for specs/Config: pretty-prints the abstract programs enumerated by
TLC into real configuration files (main file, include file, include glob
directory), loads them with asyncssh (SSHClientConfig.load,
SSHClientConnectionOptions + the update() that connect() performs for the
canonical/final pass, SSHServerConfig.load, SSHServerConnectionOptions with
reload=True) and reports the resolved option values in the vocabulary of the
specification.  `ssh -G` / a ProxyCommand echo give the second opinion.

Nothing here decides a verdict (checks/c18.py does).
"""

import ntpath
import os
import posixpath
import pwd
import re
import subprocess
import sys

import asyncssh
from asyncssh.config import SSHClientConfig, SSHServerConfig

from harness.drivers.trust_files import records, S          # noqa: F401

LOCAL_USER = pwd.getpwuid(os.getuid()).pw_name
ENV = {'CFGV': 'ev'}


def setup_env():
    """Local user as ssh sees it, and the variable ${CFGV} used by menu 42."""
    os.environ['LOGNAME'] = LOCAL_USER
    os.environ.update(ENV)


class Menu:
    def __init__(self, rec):
        assert rec[0] == 'menu'
        self.text = [''.join(x) for x in rec[1]]
        self.targets = [(S(h), S(u), m) for h, u, m in rec[2]]
        self.srv_users = [S(u) for u in rec[3]]
        self.kinds = [(k, n, list(crs)) for k, n, crs in rec[4]]

    def line(self, i, world):
        t = self.text[i - 1]
        return (t.replace('@LU@', LOCAL_USER)
                .replace('@INCA@', world.inc_a)
                .replace('@INCG@', os.path.join(world.globdir, '*.conf'))
                .replace('@BASE@', world.base))

    def crits(self, prog):
        out = set()
        for part in prog:
            for i in part:
                out.update(self.kinds[i - 1][2])
        return out

    def names(self, prog):
        return {self.kinds[i - 1][1] for part in prog for i in part}


def val(chars, world=None):
    s = ''.join(chars).replace('@LU@', LOCAL_USER)
    if world is not None:
        s = s.replace('@BASE@', world.base)
    return s


class World:
    """Files of one program under a scratch directory."""

    def __init__(self, root):
        self.root = root
        self.main = os.path.join(root, 'config')
        self.inc_a = os.path.join(root, 'incA')
        self.globdir = os.path.join(root, 'g')
        self.base = os.path.join(root, 'base')
        os.makedirs(self.globdir, exist_ok=True)
        os.makedirs(self.base, exist_ok=True)
        self.current = None
        self._content = {}
        self._glob_reversed = None

    def write(self, menu, main, a, b):
        key = (tuple(main), tuple(a), tuple(b))
        if key == self.current:
            return
        self.current = key

        def body(idx):
            out = []
            for i in idx:
                line = menu.line(i, self)
                kind = menu.kinds[i - 1][0]
                out.append(line if kind in ('host', 'match') else '  ' + line)
            return '\n'.join(out) + ('\n' if out else '')
        self._put(self.main, body(main))
        ta, tb = body(a), body(b)
        self._put(self.inc_a, ta)
        self._put(os.path.join(self.globdir, 'a.conf'), ta)
        self._put(os.path.join(self.globdir, 'b.conf'), tb)

    def _put(self, path, text):
        """(Re)write a file only when its content changes."""
        if self._content.get(path) != text:
            # O_TRUNC on a non-empty ext4 file costs milliseconds here;
            # overwrite in place and cut to length instead
            data = text.encode()
            fd = os.open(path, os.O_WRONLY | os.O_CREAT, 0o600)
            try:
                os.pwrite(fd, data, 0)
                os.ftruncate(fd, len(data))
            finally:
                os.close(fd)
            self._content[path] = text

    def texts(self):
        out = {}
        for name, p in (('config', self.main), ('incA / g/a.conf', self.inc_a),
                        ('g/b.conf', os.path.join(self.globdir, 'b.conf'))):
            t = self._content.get(p, '')
            if t or name == 'config':
                out[name] = t.splitlines()
        return out

    def glob_reversed(self):
        """Does the directory enumeration asyncssh uses (Path.glob) return
        b.conf before a.conf on this file system?"""
        if self._glob_reversed is None:
            from pathlib import Path
            names = [p.name for p in Path(self.globdir).glob('*.conf')]
            self._glob_reversed = names == ['b.conf', 'a.conf']
        return self._glob_reversed


# --------------------------------------------------------------------------
# client side
# --------------------------------------------------------------------------

def _cfg_out(cfg, host):
    port = cfg.get('Port')
    ukh = cfg.get('UserKnownHostsFile')
    return [str(cfg.get('Hostname', host)), str(22 if port is None else port),
            str(cfg.get('User') or LOCAL_USER),
            list(cfg.get('IdentityFile', []) or []),
            list(cfg.get('SendEnv', []) or []),
            ['-'] if ukh is None else list(ukh),
            cfg.get('Tag') or '']


def cli_first(world, target):
    """First pass alone: what SSHClientConfig.load returns."""
    host, user, mode = target
    try:
        c1 = SSHClientConfig.load(None, [world.main], False, False, False,
                                  LOCAL_USER, user if user else (), host, ())
        return _cfg_out(c1, host)
    except Exception as exc:            # pylint: disable=broad-except
        return ('exc', type(exc).__name__, str(exc)[:160])


class _Refused(OSError):
    pass


class Connector:
    """Runs the real asyncssh.connect() up to the point where it would open
    the TCP connection: option construction, host name canonicalisation
    (resolver answers for every name) and the canonical/final re-read are the
    library's own code.  The connection object handed to create_connection
    carries the fully resolved options."""

    def __init__(self):
        import asyncio
        import socket
        self.asyncio = asyncio
        self.loop = asyncio.new_event_loop()
        self.conn = None

        async def create_connection(factory, *args, **kwargs):
            self.conn = factory()
            raise _Refused('not connecting')

        async def getaddrinfo(host, port, **kwargs):
            return [(socket.AF_INET, socket.SOCK_STREAM, 6, host,
                     ('10.0.0.9', port or 0))]
        self.loop.create_connection = create_connection
        self.loop.getaddrinfo = getaddrinfo

    def close(self):
        self.loop.close()

    def resolve(self, world, target):
        host, user, mode = target
        kw = dict(config=[world.main], client_keys=None, known_hosts=None)
        if user:
            kw['username'] = user
        if mode == 'canon':
            kw.update(canonicalize_hostname=True, canonical_domains=['c'])
        self.conn = None
        self.asyncio.set_event_loop(self.loop)
        try:
            self.loop.run_until_complete(asyncssh.connect(host, **kw))
            return ('exc', 'connected?', '')
        except _Refused:
            pass
        except Exception as exc:        # pylint: disable=broad-except
            return ('exc', type(exc).__name__, str(exc)[:160])
        finally:
            self.asyncio.set_event_loop(None)
        o = self.conn._options          # pylint: disable=protected-access
        self.conn = None
        c = o.config
        ukh = c.get('UserKnownHostsFile')
        return [str(o.host), str(o.port), str(o.username),
                list(c.get('IdentityFile', []) or []),
                list(c.get('SendEnv', []) or []),
                ['-'] if ukh is None else list(ukh), c.get('Tag') or '']


def pred_out(pred):
    host, port, user, idf, env, ukh, tag = pred
    return [val(host), val(port), val(user), [val(x) for x in idf],
            [val(x) for x in env], [val(x) for x in ukh] or ['-'], val(tag)]


def dedup(seq):
    out = []
    for x in seq:
        if x not in out:
            out.append(x)
    return out


def norm(out):
    """List options are compared up to repetition (ssh drops repeated
    IdentityFile entries, and repeats SendEnv in its second pass)."""
    if not isinstance(out, list):
        return out
    return [out[0], out[1], out[2], dedup(out[3]), dedup(out[4]), out[5],
            out[6]]


# ---- second opinion ----

_tok = re.compile(r'%(.)')
_env = re.compile(r'\$\{(.*?)\}')


def ssh_G(world, target, tag):
    """Resolved values according to `ssh -G` (None if ssh failed)."""
    host, user, mode = target
    cmd = ['ssh', '-G', '-F', world.main]
    if user:
        cmd += ['-l', user]
    cmd.append(host)
    try:
        p = subprocess.run(cmd, stdout=subprocess.PIPE, stderr=subprocess.PIPE,
                           timeout=20, env=dict(os.environ, **ENV))
    except (OSError, subprocess.TimeoutExpired):
        return None
    if p.returncode != 0:
        return ('fail', p.stderr.decode()[:200])
    d = {'identityfile': [], 'sendenv': []}
    for line in p.stdout.decode().splitlines():
        k, _, v = line.partition(' ')
        if k in ('identityfile', 'sendenv'):
            d[k].append(v)
        elif k in ('hostname', 'user', 'port', 'userknownhostsfile'):
            d[k] = v
    tokens = {'h': d.get('hostname', host), 'p': d.get('port', '22'),
              'r': d.get('user', LOCAL_USER), 'n': host, 'u': LOCAL_USER,
              '%': '%'}

    def expand(v):
        v = re.sub(r'%(.)|\$\{(.*?)\}',
                   lambda m: tokens.get(m.group(1), '?') if m.group(1)
                   else ENV.get(m.group(2), '?'), v)
        return v
    idf = [expand(v) for v in d['identityfile']
           if not v.startswith('~/.ssh/id_')]
    return [d.get('hostname', host), d.get('port', '22'),
            d.get('user', LOCAL_USER), dedup(idf), dedup(d['sendenv']),
            d.get('userknownhostsfile', '').split(), '']


def ssh_applicable(menu, prog, target):
    crits = menu.crits(prog)
    names = menu.names(prog)
    if target[2] != 'plain':
        return False                 # canonicalisation needs a resolver
    if 'tagged' in crits or 'Tag' in names:
        return False                 # OpenSSH 9.2 has no Tag / Match tagged
    if 'final' in crits and 'canonical' in crits:
        return False                 # ssh treats "canonical" as "final pass"
    return True


def ssh_agrees(sshout, expected, ukh_set):
    """Compare what ssh -G can tell with the specification's prediction."""
    e = norm(expected)
    ok = sshout[0] == e[0] and sshout[1] == e[1] and sshout[2] == e[2] and \
        sshout[3] == e[3] and sshout[4] == e[4]
    if ukh_set:
        ok = ok and sshout[5] == e[5]
    return ok


# --------------------------------------------------------------------------
# server side
# --------------------------------------------------------------------------

_BENIGN = ('/usr/', '/venv/', '/proc/', '/sys/', '/dev/', '/etc/ssl',
           os.path.dirname(os.path.dirname(asyncssh.__file__)) + '/',
           sys.prefix + '/')
_opened = []
_hook = {'on': False, 'installed': False}


def _audit(event, args):
    if _hook['on'] and event == 'open':
        _opened.append(str(args[0]))


def srv_load(world, user):
    try:
        c = SSHServerConfig.load(None, [world.main], False, False, False,
                                 '127.0.0.1', 22, user, 'ha', '10.0.0.4')
    except asyncssh.IllegalUserName as exc:
        return ['reject']
    except Exception as exc:            # pylint: disable=broad-except
        return ['exc', type(exc).__name__, str(exc)[:160]]
    v = c.get('AuthorizedKeysFile')
    return ['-'] if v is None else list(v)


_host_key = []


def srv_reload(world, user):
    """What connection.reload_config() does once the client has named a
    user: returns (outcome, files opened below the scratch root)."""
    if not _hook['installed']:
        sys.addaudithook(_audit)
        _hook['installed'] = True
    if not _host_key:
        _host_key.append(asyncssh.generate_private_key('ssh-ed25519'))
    try:
        base = asyncssh.SSHServerConnectionOptions(
            config=[world.main], server_host_keys=_host_key)
    except Exception as exc:            # pylint: disable=broad-except
        return ['base-exc', type(exc).__name__, str(exc)[:160]], []
    del _opened[:]
    _hook['on'] = True
    try:
        asyncssh.SSHServerConnectionOptions(
            options=base, reload=True, accept_addr='127.0.0.1',
            accept_port=22, username=user, client_host='ha',
            client_addr='10.0.0.4')
        out = ['ok']
    except asyncssh.IllegalUserName:
        out = ['reject']
    except Exception as exc:            # pylint: disable=broad-except
        out = ['exc', type(exc).__name__, str(exc)[:160]]
    finally:
        _hook['on'] = False
    cfgfiles = {world.main, world.inc_a}
    seen = [p for p in _opened
            if p not in cfgfiles and not p.startswith(world.globdir) and
            not p.startswith(_BENIGN) and not p.endswith(('.py', '.pyc'))]
    return out, seen


def inside(base, path):
    """The path stays below `base` under POSIX and Windows reading, with
    ~ and ${} given their meaning."""
    if path.startswith('~') or _env.search(path):
        return False
    for mod, b in ((posixpath, base), (ntpath, base)):
        n = mod.normpath(path)
        nb = mod.normpath(b)
        if not (n == nb or n.startswith(nb + mod.sep)):
            return False
    return True
