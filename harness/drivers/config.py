"""Driver for specs/Config: pretty-prints the abstract programs enumerated by
TLC into real configuration files (main file, include file, include glob
directory), loads them with asyncssh (SSHClientConfig.load,
SSHClientConnectionOptions + the update() that connect() performs for the
canonical/final pass, SSHServerConfig.load, SSHServerConnectionOptions with
reload=True) and reports the resolved option values in the vocabulary of the
specification.  `ssh -G` / a ProxyCommand echo give the second opinion.

Nothing here decides a verdict (checks/c18.py does).
"""

import ntpath
import os
import posixpath
import pwd
import re
import socket
import subprocess
import sys

import asyncssh
from asyncssh.config import SSHClientConfig, SSHServerConfig, ConfigParseError

from harness.drivers.trust_files import records, S          # noqa: F401

LOCAL_USER = pwd.getpwuid(os.getuid()).pw_name
ENV = {'CFGV': 'ev', 'KEYP': '/v/%h', 'PCT': '100%/t', 'DBL': 'a%%b',
       'NEST': '${CFGV}', 'DOL': 'a$b'}


def setup_env():
    """Local user as ssh sees it, and the variable ${CFGV} used by menu 42."""
    os.environ['LOGNAME'] = LOCAL_USER
    os.environ.update(ENV)


class Menu:
    def __init__(self, rec):
        assert rec[0] == 'menu'
        self.text = [''.join(x) for x in rec[1]]
        self.targets = [(S(h), S(u), m) for h, u, m in rec[2]]
        self.srv_users = [S(u) for u in rec[3]]
        self.kinds = [(k, n, list(crs)) for k, n, crs in rec[4]]
        self.parts = [(kw, ''.join(v)) for kw, v in rec[5]] \
            if len(rec) > 5 else []

    def spelt(self, i, sp, world):
        """Directive i written in spelling sp (1 = canonical)."""
        kw, val = self.parts[i - 1]
        if not kw or sp == 1:
            return self.line(i, world)
        val = val.replace('@LU@', LOCAL_USER)
        if sp == 10:
            val = ' '.join('"' + w + '"' for w in val.split(' '))
        seps = {2: '=', 3: ' = ', 4: '= ', 5: ' =', 6: '\t', 7: '   ',
                8: ' ', 9: ' ', 10: ' '}
        if sp == 8:
            kw = kw.lower()
        elif sp == 9:
            kw = kw.upper()
        return kw + seps[sp] + val

    def line(self, i, world):
        t = self.text[i - 1]
        return (t.replace('@LU@', LOCAL_USER)
                .replace('@INCA@', world.inc_a)
                .replace('@INCG@', os.path.join(world.globdir, '*.conf'))
                .replace('@BASE@', world.base)
                .replace('@XLOG@', world.xlog))

    def crits(self, prog):
        out = set()
        for part in prog:
            for i in part:
                out.update(self.kinds[i - 1][2])
        return out

    def names(self, prog):
        return {self.kinds[i - 1][1] for part in prog for i in part}


def val(chars, world=None):
    s = ''.join(chars).replace('@LU@', LOCAL_USER)
    if world is not None:
        s = s.replace('@BASE@', world.base)
    return s


class World:
    """Files of one program under a scratch directory."""

    def __init__(self, root):
        self.root = root
        self.main = os.path.join(root, 'config')
        self.inc_a = os.path.join(root, 'incA')
        self.second = os.path.join(root, 'config2')
        self.both = os.path.join(root, 'config_both')
        self.xlog = os.path.join(root, 'xlog')
        self.x = ''
        self.globdir = os.path.join(root, 'g')
        self.base = os.path.join(root, 'base')
        os.makedirs(self.globdir, exist_ok=True)
        os.makedirs(self.base, exist_ok=True)
        self.current = None
        self._content = {}
        self._glob_reversed = None

    def write(self, menu, main, a, b, x='', ms=(), variant=0):
        """x = 'list' / 'chain': b is a second configuration file.
        ms: spelling of each line of the main file; with it the file-level
        lexical variant (leading blanks, trailing blanks, CR LF, comment and
        empty lines in between, last line without newline) is drawn from
        `variant`."""
        key = (tuple(main), tuple(a), tuple(b), x, tuple(ms), variant)
        if key == self.current:
            return
        self.current = key
        self.x = x
        if ms:
            lead = ('', '  ', '\t', ' \t ')[variant % 4]
            trail = ('', ' ', ' \t')[(variant // 4) % 3]
            eol = ('\n', '\r\n')[(variant // 12) % 2]
            between = ((), ('# a comment',), ('',), ('  # indented', ''))[
                (variant // 24) % 4]
            last_nl = (variant // 96) % 2 == 0
            out = []
            for n, (i, sp) in enumerate(zip(main, ms)):
                if menu.kinds[i - 1][0] in ('host', 'match'):
                    out.extend(between)
                out.append(lead + menu.spelt(i, sp, self) + trail)
            text = eol.join(out) + (eol if last_nl else '')
            self._put(self.main, text)
            ta, tb = '', ''
            if a:
                ta = '\n'.join(menu.line(i, self) for i in a) + '\n'
            self._put(self.inc_a, ta)
            self._put(os.path.join(self.globdir, 'a.conf'), ta)
            self._put(os.path.join(self.globdir, 'b.conf'), tb)
            self._put(self.second, '')
            return

        def body(idx):
            out = []
            for i in idx:
                line = menu.line(i, self)
                kind = menu.kinds[i - 1][0]
                out.append(line if kind in ('host', 'match') else '  ' + line)
            return '\n'.join(out) + ('\n' if out else '')
        self._put(self.main, body(main))
        ta, tb = body(a), body(b)
        self._put(self.inc_a, ta)
        self._put(os.path.join(self.globdir, 'a.conf'), ta)
        self._put(os.path.join(self.globdir, 'b.conf'), tb)
        self._put(self.second, tb if x else '')
        if x:
            # for ssh -G: the rule reads the second file as if it followed
            # the first one
            self._put(self.both, f'Include {self.main}\nInclude {self.second}\n')

    def exec_reset(self):
        try:
            os.remove(self.xlog)
        except OSError:
            pass

    def exec_log(self):
        """The "Match exec" commands that were run, in order."""
        try:
            with open(self.xlog) as f:
                return ['exec' + x for x in f.read().split()]
        except OSError:
            return []

    def paths(self):
        return [self.main, self.second] if self.x == 'list' else [self.main]

    def _put(self, path, text):
        """(Re)write a file only when its content changes."""
        if self._content.get(path) != text:
            # O_TRUNC on a non-empty ext4 file costs milliseconds here;
            # overwrite in place and cut to length instead
            data = text.encode()
            fd = os.open(path, os.O_WRONLY | os.O_CREAT, 0o600)
            try:
                os.pwrite(fd, data, 0)
                os.ftruncate(fd, len(data))
            finally:
                os.close(fd)
            self._content[path] = text

    def texts(self):
        out = {}
        for name, p in (('config', self.main), ('incA / g/a.conf', self.inc_a),
                        ('g/b.conf', os.path.join(self.globdir, 'b.conf'))):
            t = self._content.get(p, '')
            if name == 'g/b.conf' and self.x:
                name = {'list': 'second config file (config=[config, this])',
                        'chain': 'config of an options object chained on '
                                 'the one built from config'}[self.x]
            if t or name == 'config':
                out[name] = t.splitlines()
        return out

    def glob_reversed(self):
        """Does the directory enumeration asyncssh uses (Path.glob) return
        b.conf before a.conf on this file system?"""
        if self._glob_reversed is None:
            from pathlib import Path
            names = [p.name for p in Path(self.globdir).glob('*.conf')]
            self._glob_reversed = names == ['b.conf', 'a.conf']
        return self._glob_reversed


# --------------------------------------------------------------------------
# client side
# --------------------------------------------------------------------------

TYPED = ('ProxyJump', 'HostKeyAlias', 'BindAddress', 'IdentityAgent', 'Ciphers',
         'KexAlgorithms', 'Compression', 'PasswordAuthentication',
         'ForwardAgent', 'AddressFamily', 'RequestTTY', 'CanonicalizeHostname',
         'ConnectTimeout', 'ServerAliveInterval', 'ServerAliveCountMax',
         'RekeyLimit', 'SetEnv', 'GlobalKnownHostsFile', 'CertificateFile',
         'CanonicalDomains', 'CanonicalizeMaxDots', 'CanonicalizeFallbackLocal',
         'PermitTTY', 'LoginGraceTime', 'MACs', 'HostKey')
_FAMILY = {socket.AF_UNSPEC: 'any', socket.AF_INET: 'inet',
           socket.AF_INET6: 'inet6'}


def canon(name, v):
    """A stored option value in the vocabulary of the specification."""
    if name == 'AddressFamily':
        return ['e', _FAMILY.get(v, str(v))]
    if isinstance(v, bool):
        return ['b', '1' if v else '0']
    if isinstance(v, int):
        return ['i', str(v)]
    if isinstance(v, str):
        return ['s', v]
    if isinstance(v, list):
        return ['l'] + [str(x) for x in v]
    if isinstance(v, tuple):
        return ['r'] + ['()' if x == () else str(x) for x in v]
    return ['?', repr(v)]


def typed_out(cfg):
    """Typed options that have a value (an option set to "none" has none)."""
    out = {}
    for name in TYPED:
        v = cfg.get(name)
        if v is not None:
            out[name] = canon(name, v)
    return out


XNAMES = ('CertificateFile', 'IdentityAgent', 'ForwardAgent', 'RemoteCommand',
          'ProxyCommand')


def tx_out(cfg):
    """The expanded options (besides IdentityFile) as name -> list of values."""
    out = {}
    for name in XNAMES:
        v = cfg.get(name)
        if isinstance(v, str):
            out[name] = [v]
        elif isinstance(v, list):
            out[name] = list(v)
    return out


def _ukh(cfg):
    ukh = cfg.get('UserKnownHostsFile')
    return ['-'] if ukh is None else (list(ukh) or ['@EMPTY@'])


def _cfg_out(cfg, host):
    port = cfg.get('Port')
    return [str(cfg.get('Hostname', host)), str(22 if port is None else port),
            str(cfg.get('User') or LOCAL_USER),
            list(cfg.get('IdentityFile', []) or []),
            list(cfg.get('SendEnv', []) or []),
            _ukh(cfg), cfg.get('Tag') or '', typed_out(cfg), [], tx_out(cfg)]


def cli_first(world, target):
    """First pass alone: what SSHClientConfig.load returns (for a chain: the
    configuration of the derived options object)."""
    host, user, mode = target
    world.exec_reset()
    try:
        if world.x == 'chain':
            return _cfg_out(chain(world, target)[1].config, host)
        c1 = SSHClientConfig.load(None, world.paths(), False, False, False,
                                  LOCAL_USER, user if user else (), host, ())
        out = _cfg_out(c1, host)
        out[8] = world.exec_log()
        return out
    except Exception as exc:            # pylint: disable=broad-except
        return ('exc', type(exc).__name__, str(exc)[:160])


def chain(world, target):
    """An options object built from the first file, and one derived from it
    with the second file."""
    host, user, mode = target
    kw = dict(host=host, client_keys=None, known_hosts=None)
    if user:
        kw['username'] = user
    base = asyncssh.SSHClientConnectionOptions(config=[world.main], **kw)
    child = asyncssh.SSHClientConnectionOptions(options=base,
                                                config=[world.second], **kw)
    return base, child


def chain_parent_changed(world, target):
    """Deriving an options object must leave the parent as it was: returns
    None, or (parent before, parent after)."""
    host = target[0]
    try:
        alone = asyncssh.SSHClientConnectionOptions(
            config=[world.main], host=host, client_keys=None,
            known_hosts=None, **({'username': target[1]} if target[1] else {}))
        before = _cfg_out(alone.config, host)
        base, _child = chain(world, target)
        after = _cfg_out(base.config, host)
    except Exception:                   # pylint: disable=broad-except
        return None
    return None if before == after else (before, after)


class _Refused(OSError):
    pass


class Connector:
    """Runs the real asyncssh.connect() up to the point where it would open
    the TCP connection: option construction, host name canonicalisation
    (resolver answers for every name) and the canonical/final re-read are the
    library's own code.  The connection object handed to create_connection
    carries the fully resolved options."""

    def __init__(self):
        import asyncio
        import socket
        self.asyncio = asyncio
        self.loop = asyncio.new_event_loop()
        self.conn = None

        async def create_connection(factory, *args, **kwargs):
            self.conn = factory()
            raise _Refused('not connecting')

        async def getaddrinfo(host, port, **kwargs):
            # the resolver knows <name>.c and nothing else
            if not host.endswith('.c'):
                raise socket.gaierror(socket.EAI_NONAME, 'unknown name')
            return [(socket.AF_INET, socket.SOCK_STREAM, 6, host,
                     ('10.0.0.9', port or 0))]
        self.loop.create_connection = create_connection
        self.loop.getaddrinfo = getaddrinfo

    def close(self):
        self.loop.close()

    def resolve(self, world, target):
        host, user, mode = target
        kw = dict(config=world.paths(), client_keys=None, known_hosts=None)
        if user:
            kw['username'] = user
        if world.x == 'chain':
            try:
                kw['options'] = asyncssh.SSHClientConnectionOptions(
                    config=[world.main], host=host, client_keys=None,
                    known_hosts=None, **({'username': user} if user else {}))
            except Exception as exc:    # pylint: disable=broad-except
                return ('exc', type(exc).__name__, str(exc)[:160])
            kw['config'] = [world.second]
        if mode == 'canon':
            kw.update(canonicalize_hostname=True, canonical_domains=['c'])
        self.conn = None
        world.exec_reset()
        self.asyncio.set_event_loop(self.loop)
        try:
            self.loop.run_until_complete(asyncssh.connect(host, **kw))
            return ('exc', 'connected?', '')
        except _Refused:
            pass
        except OSError as exc:
            if 'canonicalize' in str(exc):
                return ['@CANONERR@']
            return ('exc', type(exc).__name__, str(exc)[:160])
        except Exception as exc:        # pylint: disable=broad-except
            return ('exc', type(exc).__name__, str(exc)[:160])
        finally:
            self.asyncio.set_event_loop(None)
        o = self.conn._options          # pylint: disable=protected-access
        self.conn = None
        c = o.config
        return [str(o.host), str(o.port), str(o.username),
                list(c.get('IdentityFile', []) or []),
                list(c.get('SendEnv', []) or []),
                _ukh(c), c.get('Tag') or '', typed_out(c), world.exec_log(),
                tx_out(c)]


def pred_typed(t):
    return {n: list(den) for n, den in t if list(den) != ['none']}


def pred_out(pred):
    host, port, user, idf, env, ukh, tag, typed, ex, tx = pred
    if val(host) == '@CANONERR@':
        return ['@CANONERR@']
    return [val(host), val(port), val(user), [val(x) for x in idf],
            [val(x) for x in env], [val(x) for x in ukh] or ['-'], val(tag),
            pred_typed(typed), list(ex),
            {n: [val(x) for x in vals] for n, vals in tx if vals}]


CONFIGERR = ['@CONFIGERR@']


def pred_final(pred, is_exp):
    """A prediction in comparable form; a value that cannot be expanded
    (unknown token / variable) stands for "loading fails"."""
    out = for_exp(norm(pred_out(pred)), is_exp)
    if len(out) >= 10 and ('@ERR@' in ''.join(out[3]) or
                           any('@ERR@' in ''.join(v) for v in out[9].values())):
        return CONFIGERR
    return out


def obs_final(out, is_exp):
    if isinstance(out, tuple) and out[1] == 'ConfigParseError':
        return CONFIGERR
    return for_exp(norm(out), is_exp) if isinstance(out, list) else out


def for_exp(out, is_exp):
    """In expansion programs CertificateFile / IdentityAgent / ForwardAgent
    are judged as expanded text (last element), otherwise as typed values."""
    if not isinstance(out, list) or len(out) < 10:
        return out
    out = list(out)
    if is_exp:
        out[7] = {n: v for n, v in out[7].items() if n not in XNAMES}
        out[9] = {n: v for n, v in out[9].items() if v}
    else:
        out[9] = {}
    return out


def dedup(seq):
    out = []
    for x in seq:
        if x not in out:
            out.append(x)
    return out


def norm(out):
    """List options are compared up to repetition (ssh drops repeated
    IdentityFile entries, and repeats SendEnv in its second pass)."""
    if not isinstance(out, list) or len(out) < 10:
        return out
    typed = {n: (['l'] + dedup(v[1:]) if v and v[0] == 'l' else v)
             for n, v in out[7].items()}
    return [out[0], out[1], out[2], dedup(out[3]), dedup(out[4]), out[5],
            out[6], typed, out[8], out[9]]


# ---- second opinion ----

_tok = re.compile(r'%(.)')
_env = re.compile(r'\$\{(.*?)\}')


def ssh_G(world, target, tag):
    """Resolved values according to `ssh -G` (None if ssh failed)."""
    host, user, mode = target
    world.exec_reset()
    cmd = ['ssh', '-G', '-F', world.both if world.x else world.main]
    if user:
        cmd += ['-l', user]
    cmd.append(host)
    try:
        p = subprocess.run(cmd, stdout=subprocess.PIPE, stderr=subprocess.PIPE,
                           timeout=20, env=dict(os.environ, **ENV))
    except (OSError, subprocess.TimeoutExpired):
        return None
    if p.returncode != 0:
        return ('fail', p.stderr.decode()[:200])
    d = {'identityfile': [], 'sendenv': []}
    raw = {}
    for line in p.stdout.decode().splitlines():
        k, _, v = line.partition(' ')
        raw.setdefault(k, []).append(v)
        if k in ('identityfile', 'sendenv'):
            d[k].append(v)
        elif k in ('hostname', 'user', 'port', 'userknownhostsfile'):
            d[k] = v
    tokens = {'h': d.get('hostname', host), 'p': d.get('port', '22'),
              'r': d.get('user', LOCAL_USER), 'n': host, 'u': LOCAL_USER,
              '%': '%'}

    def expand(v):
        v = re.sub(r'%(.)|\$\{(.*?)\}',
                   lambda m: tokens.get(m.group(1), '?') if m.group(1)
                   else ENV.get(m.group(2), '?'), v)
        return v
    idf = [expand(v) for v in d['identityfile']
           if not v.startswith('~/.ssh/id_') and v.lower() != 'none']
    ukh = d.get('userknownhostsfile', '').split()
    tx = {}
    certs = [expand(c) for c in raw.get('certificatefile', [])
             if c.lower() != 'none']
    if certs:
        tx['CertificateFile'] = dedup(certs)
    # ssh -G prints these two already expanded (by ssh's own single pass)
    if raw.get('identityagent', ['none'])[0] != 'none':
        tx['IdentityAgent'] = [raw['identityagent'][0]]
    if raw.get('forwardagent', ['no'])[0] not in ('yes', 'no'):
        tx['ForwardAgent'] = [raw['forwardagent'][0]]
    return [d.get('hostname', host), d.get('port', '22'),
            d.get('user', LOCAL_USER), dedup(idf), dedup(d['sendenv']),
            ['@EMPTY@'] if ukh == ['none'] else ukh, '', ssh_typed(raw),
            world.exec_log(), tx]


_UNITS = {'k': 1024, 'm': 1024 ** 2, 'g': 1024 ** 3,
          's': 1, 'h': 3600, 'd': 86400, 'w': 604800}


def _num(text, time=False):
    if text in ('()', 'None', 'none', 'default'):
        return '0'
    t = text.lower()
    if t[-1] in _UNITS and not (time and t[-1] in 'kg'):
        mult = 60 if (time and t[-1] == 'm') else _UNITS[t[-1]]
        return str(int(t[:-1]) * mult)
    return str(int(t))


def ssh_typed(raw):
    """What `ssh -G` says about the typed options, as name -> value in the
    specification's vocabulary; only options it prints comparably."""
    out = {}

    def one(key):
        return raw[key][0] if key in raw else None
    for key, name in (('proxyjump', 'ProxyJump'), ('hostkeyalias', 'HostKeyAlias'),
                      ('bindaddress', 'BindAddress'),
                      ('identityagent', 'IdentityAgent')):
        v = one(key)
        out[name] = None if v is None or v == 'none' else \
            ['s', '' if v == '""' else v]
    for key, name in (('compression', 'Compression'),
                      ('passwordauthentication', 'PasswordAuthentication'),
                      ('forwardagent', 'ForwardAgent'),
                      ('requesttty', 'RequestTTY'),
                      ('canonicalizehostname', 'CanonicalizeHostname')):
        v = one(key)
        if v is not None:
            out[name] = ['b', '1'] if v in ('yes', 'true') else \
                ['b', '0'] if v in ('no', 'false') else ['s', v]
    v = one('addressfamily')
    if v is not None:
        out['AddressFamily'] = ['e', v]
    for key, name in (('connecttimeout', 'ConnectTimeout'),
                      ('serveraliveinterval', 'ServerAliveInterval'),
                      ('serveralivecountmax', 'ServerAliveCountMax')):
        v = one(key)
        out[name] = None if v in (None, 'none') else ['i', v]
    v = one('rekeylimit')
    if v is not None:
        out['RekeyLimit'] = ['r'] + v.split()
    out['SetEnv'] = (['l'] + raw['setenv']) if 'setenv' in raw else None
    v = one('globalknownhostsfile')
    if v is not None:
        out['GlobalKnownHostsFile'] = ['l'] + ([] if v == 'none' else v.split())
    certs = [c for c in raw.get('certificatefile', []) if c.lower() != 'none']
    out['CertificateFile'] = ['l'] + dedup(certs)
    return out


def typed_for_ssh(name, v):
    """The specification's value as ssh -G would print it."""
    if v is None:
        return None
    if name == 'RekeyLimit':
        return ['r', _num(v[1]), _num(v[2], time=True)]
    if name == 'CertificateFile':
        return ['l'] + dedup(v[1:])
    return v


def ssh_applicable(menu, prog, target, is_exp=False):
    crits = menu.crits(prog)
    names = menu.names(prog)
    if target[2] != 'plain':
        return False                 # canonicalisation needs a resolver
    if 'tagged' in crits or 'Tag' in names:
        return False                 # OpenSSH 9.2 has no Tag / Match tagged
    if 'CanonicalDomains' in names:
        return False                 # ssh -G cannot resolve names here
    if is_exp and names & {'RemoteCommand', 'ProxyCommand'}:
        return False                 # ssh expands no ${} in them
    if 'final' in crits and 'canonical' in crits:
        return False                 # ssh treats "canonical" as "final pass"
    return True


def ssh_agrees(sshout, expected, ukh_set, names=()):
    """Compare what ssh -G can tell with the specification's prediction;
    typed options: only those the program mentions and ssh prints."""
    e = norm(expected)
    ok = sshout[0] == e[0] and sshout[1] == e[1] and sshout[2] == e[2] and \
        sshout[3] == e[3] and sshout[4] == e[4]
    if ukh_set:
        ok = ok and sshout[5] == e[5]
    ok = ok and sshout[8] == e[8]       # "Match exec" commands run
    for name in ('CertificateFile', 'IdentityAgent', 'ForwardAgent'):
        if name in e[9]:                # judged as expanded text
            ok = ok and sshout[9].get(name) == dedup(e[9][name])
    for name in names:
        if name in e[9]:
            continue                    # judged above, as expanded text
        if name in sshout[7]:
            want = typed_for_ssh(name, e[7].get(name))
            got = sshout[7][name]
            if name == 'CertificateFile' and want is None:
                want = ['l']
            if name == 'RekeyLimit' and want is not None and \
                    e[7][name][2] in ('()', 'None'):
                # ssh keeps size and time as two first-value-wins fields: a
                # line without a time leaves the time to a later line
                want, got = want[:2], got[:2]
            if name == 'ForwardAgent' and got and got[0] == 's' and \
                    want and want[0] == 'b':
                # ssh stores the flag and the socket path separately and -G
                # prints the path whenever one was given (also after "no")
                continue
            ok = ok and got == want
    return ok


# --------------------------------------------------------------------------
# lexical layer
# --------------------------------------------------------------------------

LEX_KW = {'one': 'HostKeyAlias', 'list': 'SendEnv', 'rest': 'RemoteCommand',
          'host': 'Host'}
LEX_TARGETS = ('x', 'x#x')


def lex_text(kind, chars, variant):
    """The file for one lexical case: leading blanks / tabs, LF or CRLF line
    ends and trailing blanks vary with `variant` (none of them matters)."""
    lead = ('', '  ', '\t')[variant % 3]
    trail = ('', ' ', '\t ')[(variant // 3) % 3]
    eol = ('\n', '\r\n')[(variant // 9) % 2]
    arg = ''.join(chars)
    text = lead + LEX_KW[kind] + arg + trail + eol
    if kind == 'host':
        text += '  Port 2201' + eol
    return text


def lex_load(world, kind, text, target='x'):
    """-> ('err',) | ('ok', value) ; value: str, list, or matched flag"""
    world._put(world.main, text)            # pylint: disable=protected-access
    world.current = None
    world.x = ''
    try:
        c = SSHClientConfig.load(None, [world.main], False, False, False,
                                 LOCAL_USER, (), target, ())
    except ConfigParseError:
        return ('err',)
    except Exception as exc:            # pylint: disable=broad-except
        return ('exc', type(exc).__name__, str(exc)[:120])
    if kind == 'host':
        return ('ok', c.get('Port') == 2201)
    return ('ok', c.get(LEX_KW[kind]))


def lex_ssh(world, kind, text, target='x'):
    """The same line according to ssh -G (None: no answer)."""
    world._put(world.main, text)            # pylint: disable=protected-access
    world.current = None
    try:
        p = subprocess.run(['ssh', '-G', '-F', world.main, target],
                           stdout=subprocess.PIPE, stderr=subprocess.PIPE,
                           timeout=20, env=dict(os.environ, **ENV))
    except (OSError, subprocess.TimeoutExpired):
        return None
    if p.returncode != 0:
        return ('err',)
    vals = {}
    for line in p.stdout.decode().splitlines():
        k, _, v = line.partition(' ')
        vals.setdefault(k, []).append(v)
    if kind == 'host':
        return ('ok', vals.get('port') == ['2201'])
    if kind == 'one':
        return ('ok', vals.get('hostkeyalias', [None])[0])
    if kind == 'list':
        return ('ok', vals.get('sendenv'))
    return ('ok', vals.get('remotecommand', [None])[0])


# --------------------------------------------------------------------------
# server side
# --------------------------------------------------------------------------

_BENIGN = ('/usr/', '/venv/', '/proc/', '/sys/', '/dev/', '/etc/ssl',
           os.path.dirname(os.path.dirname(asyncssh.__file__)) + '/',
           sys.prefix + '/')
_opened = []
_hook = {'on': False, 'installed': False}


def _audit(event, args):
    if _hook['on'] and event == 'open':
        _opened.append(str(args[0]))


def srv_load(world, user):
    """-> (AuthorizedKeysFile outcome, typed option values or None)"""
    try:
        c = SSHServerConfig.load(None, world.paths(), False, False, False,
                                 '127.0.0.1', 22, user, 'ha', '10.0.0.4')
    except asyncssh.IllegalUserName as exc:
        return ['reject'], None
    except Exception as exc:            # pylint: disable=broad-except
        return ['exc', type(exc).__name__, str(exc)[:160]], None
    v = c.get('AuthorizedKeysFile')
    return (['-'] if v is None else (list(v) or ['@EMPTY@'])), typed_out(c)


_host_key = []


def srv_reload(world, user):
    """What connection.reload_config() does once the client has named a
    user: returns (outcome, files opened below the scratch root)."""
    if not _hook['installed']:
        sys.addaudithook(_audit)
        _hook['installed'] = True
    if not _host_key:
        _host_key.append(asyncssh.generate_private_key('ssh-ed25519'))
    try:
        base = asyncssh.SSHServerConnectionOptions(
            config=world.paths(), server_host_keys=_host_key)
    except Exception as exc:            # pylint: disable=broad-except
        return ['base-exc', type(exc).__name__, str(exc)[:160]], []
    del _opened[:]
    _hook['on'] = True
    try:
        asyncssh.SSHServerConnectionOptions(
            options=base, reload=True, accept_addr='127.0.0.1',
            accept_port=22, username=user, client_host='ha',
            client_addr='10.0.0.4')
        out = ['ok']
    except asyncssh.IllegalUserName:
        out = ['reject']
    except Exception as exc:            # pylint: disable=broad-except
        out = ['exc', type(exc).__name__, str(exc)[:160]]
    finally:
        _hook['on'] = False
    cfgfiles = {world.main, world.inc_a, world.second}
    seen = [p for p in _opened
            if p not in cfgfiles and not p.startswith(world.globdir) and
            not p.startswith(_BENIGN) and not p.endswith(('.py', '.pyc'))]
    return out, seen


def inside(base, path):
    """The path stays below `base` under POSIX and Windows reading, with ~
    given its meaning (a literal ${...} left in a value is not expanded by
    anything that opens the file)."""
    if path.startswith('~'):
        return False
    for mod, b in ((posixpath, base), (ntpath, base)):
        n = mod.normpath(path)
        nb = mod.normpath(b)
        if not (n == nb or n.startswith(nb + mod.sep)):
            return False
    return True
