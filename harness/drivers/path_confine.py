"""Driver for the PathConfine specifications (property C13).

Binds the three specifications under specs/PathConfine to the real code:

  part (i)   map table      -> real SFTPServer.map_path and real SFTP requests
  part (ii)  PathConfineFS  -> request sequences through a real SFTPClient
                               against a real SFTPServer(chroot=...)
  part (iii) PathConfineDL  -> the real SCP sink (asyncssh.scp) fed by a
                               hand-written hostile SCP source, and the real
                               SFTPClient.get(recurse=True) against an SFTP
                               server whose directory listings are hostile

Oracle (L1, independent of asyncssh internals): `Monitor` records every
path-taking system call the interpreter makes while the code under test runs
(sys.addaudithook for the audited ones: open, os.mkdir, os.rename, os.remove,
os.rmdir, os.symlink, os.link, os.chmod, os.chown, os.utime, os.truncate,
os.scandir, os.listdir; thin wrappers in the `os` module for the unaudited
os.stat, os.lstat, os.readlink, os.statvfs).  Every path argument is resolved
by the harness's own kernel-walk (`kwalk`: component by component, following
symbolic links as that call would, stopping at the first error) and must lie
under the root (server) / under the destination (download).  Calls made
inside os.path.realpath() are not judged.  Mutating calls whose target lies
outside the run's temporary area are *blocked* (the hook raises
PermissionError) so that a broken build cannot damage the machine; they are
still recorded.  A second, file-system level oracle compares decoys and the
area outside the root / destination before and after.
"""

import asyncio
import contextlib
import errno
import os
import posixpath
import shutil
import stat as statmod
import sys
import tempfile

import asyncssh

from harness import tlc
from harness.vloop import new_loop, close_loop, Deadlock

# originals, captured before anything is wrapped
_o_stat, _o_lstat, _o_readlink = os.stat, os.lstat, os.readlink
_o_statvfs = os.statvfs
_o_realpath = posixpath.realpath
_o_chmod, _o_chown, _o_utime = os.chmod, os.chown, os.utime
_o_listdir = os.listdir

WRITE_FLAGS = os.O_WRONLY | os.O_RDWR | os.O_CREAT | os.O_TRUNC | os.O_APPEND


def _s(path):
    return os.fsdecode(path) if isinstance(path, (bytes, str, os.PathLike)) \
        else None


def kwalk(path, follow, cwd='/', root=None, blame=None):
    """The kernel's path walk done by hand: returns (location, err) where
    location is the last place examined ('' components, '.', '..' and
    symbolic links resolved) and err is None / 'ENOENT' / 'ENOTDIR' / 'ELOOP'.
    With follow=False a symbolic link in the final component is not
    followed.

    If `root` and a list `blame` are given, blame receives one element: the
    symbolic link (path, inode) whose target contributed the component with
    which the walk last left `root` (None: a component of `path` itself)."""
    if not path.startswith('/'):
        path = cwd.rstrip('/') + '/' + path
    comps = [(c, None) for c in path.split('/')]
    cur = []
    fuel = 40
    i = 0
    inside = False
    culprit = None

    def track(loc, origin):
        nonlocal inside, culprit
        if root is None:
            return
        now = under(root, loc)
        if inside and not now:
            culprit = origin
        elif now:
            culprit = None
        inside = now

    def done(loc, err):
        if blame is not None:
            track(loc, comps[i - 1][1] if 0 < i <= len(comps) else None)
            blame.append(culprit)
        return loc, err
    while i < len(comps):
        c, origin = comps[i]
        i += 1
        if c in ('', '.'):
            continue
        if c == '..':
            if cur:
                cur.pop()
            track('/' + '/'.join(cur), origin)
            continue
        new = '/' + '/'.join(cur + [c])
        rest = comps[i:]
        try:
            st = _o_lstat(new)
        except OSError:
            return done(new, None if not rest else 'ENOENT')
        if statmod.S_ISLNK(st.st_mode) and (rest or follow):
            if fuel == 0:
                return done(new, 'ELOOP')
            fuel -= 1
            target = _o_readlink(new)
            if target == '':
                return done(new, 'ENOENT')
            me = (new, st.st_ino)
            if target.startswith('/'):
                cur = []
                track('/', me)
            comps = [(x, me) for x in target.split('/')] + rest
            i = 0
            continue
        if not rest:
            return done(new, None)
        if statmod.S_ISDIR(st.st_mode):
            cur.append(c)
            track(new, origin)
            continue
        return done(new, 'ENOTDIR')
    return done('/' + '/'.join(cur), None)


def would_take_effect(name, flags, loc, err):
    """Does this mutating call create or modify something, given the state
    of the file system just before it (the process runs as root, so only
    structural reasons make it fail)?"""
    if err is not None:
        return False
    try:
        st = _o_lstat(loc)
    except OSError:
        st = None
    isdir = st is not None and statmod.S_ISDIR(st.st_mode)
    islnk = st is not None and statmod.S_ISLNK(st.st_mode)
    if name == 'open':
        if st is None:
            return bool(flags & os.O_CREAT)
        if isdir or islnk:
            return False
        return not (flags & os.O_CREAT and flags & os.O_EXCL)
    if name in ('os.mkdir', 'os.symlink'):
        return st is None
    if name == 'os.truncate':
        return st is not None and not isdir
    if name in ('os.chmod', 'os.chown', 'os.utime'):
        return st is not None
    if name == 'os.remove':
        return st is not None and not isdir
    if name == 'os.rmdir':
        return isdir
    return True


def under(root, loc):
    return loc == root or loc.startswith(root.rstrip('/') + '/')


class Event:
    __slots__ = ('name', 'path', 'follow', 'loc', 'err', 'mutating', 'req',
                 'blocked', 'effective', 'culprit')

    def __init__(self, name, path, follow, loc, err, mutating, req):
        self.name, self.path, self.follow = name, path, follow
        self.loc, self.err, self.mutating, self.req = loc, err, mutating, req
        self.blocked = False
        self.effective = False  # the call would create / modify something
        self.culprit = None     # link blamed for leaving the judged root

    def as_list(self):
        return [self.name, self.path, self.loc]


class Monitor:
    """Process-wide system-call monitor (installed once)."""

    _inst = None

    @classmethod
    def get(cls):
        if cls._inst is None:
            cls._inst = cls()
            cls._inst._install()
        return cls._inst

    def __init__(self):
        self.active = False
        self.quiet_depth = 0
        self.realpath_depth = 0
        self.follow_hint = None
        self.area = None          # temp area; mutations outside it are blocked
        self.root = None          # judged root (blame tracking only)
        self.events = []
        self.req = None
        self.noise = []
        self.noise_prefixes = ()

    # ---- installation ----
    def _install(self):
        mon = self
        sys.addaudithook(self._hook)

        def wrap(name, orig, follow_default, kw_follow=True):
            def f(path, *a, **kw):
                if mon.active and not mon.quiet_depth and \
                        not mon.realpath_depth and \
                        isinstance(path, (bytes, str, os.PathLike)):
                    fl = kw.get('follow_symlinks', follow_default) \
                        if kw_follow else follow_default
                    if kw.get('dir_fd') is None:
                        mon._record(name, path, fl, False)
                return orig(path, *a, **kw)
            f.__name__ = orig.__name__
            f.__wrapped__ = orig
            return f

        os.stat = wrap('os.stat', _o_stat, True)
        os.lstat = wrap('os.lstat', _o_lstat, False, kw_follow=False)
        os.readlink = wrap('os.readlink', _o_readlink, False, kw_follow=False)
        os.statvfs = wrap('os.statvfs', _o_statvfs, True, kw_follow=False)

        def hinted(orig):
            def f(path, *a, **kw):
                mon.follow_hint = kw.get('follow_symlinks', True)
                try:
                    return orig(path, *a, **kw)
                finally:
                    mon.follow_hint = None
            f.__name__ = orig.__name__
            f.__wrapped__ = orig
            return f

        os.chmod = hinted(_o_chmod)
        os.chown = hinted(_o_chown)
        os.utime = hinted(_o_utime)

        def realpath(path, **kw):
            mon.realpath_depth += 1
            try:
                return _o_realpath(path, **kw)
            finally:
                mon.realpath_depth -= 1
        realpath.__wrapped__ = _o_realpath
        posixpath.realpath = realpath
        if os.path is not posixpath:        # pragma: no cover
            os.path.realpath = realpath

    # ---- recording ----
    @contextlib.contextmanager
    def quiet(self):
        self.quiet_depth += 1
        try:
            yield
        finally:
            self.quiet_depth -= 1

    def start(self, area, noise_prefixes=(), root=None):
        self.area = area
        self.root = root
        self.events = []
        self.noise = []
        self.noise_prefixes = tuple(noise_prefixes)
        self.req = None
        self.active = True

    def stop(self):
        self.active = False
        self.area = None

    def take(self):
        ev, self.events = self.events, []
        return ev

    def _record(self, name, path, follow, mutating, flags=0):
        p = _s(path)
        if p is None:
            return None
        self.quiet_depth += 1
        blame = []
        try:
            loc, err = kwalk(p, follow, os.getcwd(), self.root, blame)
            eff = mutating and would_take_effect(name, flags, loc, err)
        finally:
            self.quiet_depth -= 1
        if not mutating and loc.startswith(self.noise_prefixes) and \
                self.noise_prefixes:
            self.noise.append((name, p))
            return None
        ev = Event(name, p, follow, loc, err, mutating, self.req)
        ev.effective = eff
        ev.culprit = blame[0] if blame else None
        self.events.append(ev)
        return ev

    def _hook(self, event, args):
        if not self.active or self.quiet_depth:
            return
        evs = []
        if event == 'open':
            path, _mode, flags = args
            if isinstance(path, int):
                return
            flags = flags or 0
            mut = bool(flags & WRITE_FLAGS)
            fl = not (flags & os.O_NOFOLLOW or
                      (flags & os.O_CREAT and flags & os.O_EXCL))
            evs.append(self._record('open', path, fl, mut, flags))
        elif event in ('os.mkdir', 'os.remove', 'os.rmdir'):
            if isinstance(args[0], int) or args[-1] not in (None, -1):
                return
            evs.append(self._record(event, args[0], False, True))
        elif event == 'os.rename':      # also os.replace
            evs.append(self._record(event, args[0], False, True))
            evs.append(self._record(event, args[1], False, True))
        elif event == 'os.link':
            evs.append(self._record(event, args[0], False, True))
            evs.append(self._record(event, args[1], False, True))
        elif event == 'os.symlink':
            evs.append(self._record(event, args[1], False, True))
        elif event in ('os.chmod', 'os.chown', 'os.utime'):
            if isinstance(args[0], int):
                return
            fl = True if self.follow_hint is None else self.follow_hint
            evs.append(self._record(event, args[0], fl, True))
        elif event == 'os.truncate':
            if isinstance(args[0], int):
                return
            evs.append(self._record(event, args[0], True, True))
        elif event in ('os.scandir', 'os.listdir'):
            if isinstance(args[0], int) or args[0] is None:
                return
            evs.append(self._record(event, args[0], True, False))
        else:
            return
        for ev in evs:
            if ev is not None and ev.mutating and self.area and \
                    not under(self.area, ev.loc):
                ev.blocked = True
        if any(ev is not None and ev.blocked for ev in evs):
            raise PermissionError(errno.EPERM, 'blocked by C13 monitor',
                                  evs[0].path if evs[0] else None)


# --------------------------------------------------------------------------
# temporary area
# --------------------------------------------------------------------------

ROOTNAME = 'RR'         # real name of the served root (model name: "R")
# The names AROUND the root / destination are a dimension of the world: next
# to them live siblings whose names share a prefix with theirs (the model's
# outside node "Rx" / "Dx" stands for this class: every case is materialised
# towards each member) and an unrelated one ("U"); each holds a decoy.
ROOT_SIBLINGS = ['RRx', 'RR-old', 'R']      # R+'x', R+'-old', R[:-1]
DEST_SIBLINGS = ['Dx', 'D-old']
UNRELATED = 'U'
SIBLINGS = ROOT_SIBLINGS + DEST_SIBLINGS + [UNRELATED]
# real top-level name -> name in model locations (the sibling "R" must not be
# confused with the model's name "R" for the root)
REAL2MODEL = {ROOTNAME: 'R', 'R': 'R~'}


class Area:
    """<work>/c13_xxx/ = T ; T/RR = served root (model: T/R) ; T/D = download
    destination ; T/secret, T/sdir/inner and T/<sibling>/decoy = decoys ;
    T/cwd = working directory."""

    SKELETON = (ROOTNAME, 'D', 'secret', 'sdir', 'cwd', 'src')

    def __init__(self, prefix='c13_'):
        os.makedirs(tlc.WORK, exist_ok=True)
        self.top = _o_realpath(tempfile.mkdtemp(prefix=prefix, dir=tlc.WORK))
        self.root = os.path.join(self.top, ROOTNAME)
        self.dest = os.path.join(self.top, 'D')
        self.cwd = os.path.join(self.top, 'cwd')
        self.oldcwd = os.getcwd()
        self.reset()
        os.chdir(self.cwd)

    def _rm(self, p):
        if os.path.islink(p) or not os.path.isdir(p):
            os.remove(p)
        else:
            shutil.rmtree(p)

    def _intact(self, rel, content):
        p = os.path.join(self.top, rel)
        try:
            st = _o_lstat(p)
            if not statmod.S_ISREG(st.st_mode) or st.st_size != len(content) \
                    or st.st_nlink != 1 or statmod.S_IMODE(st.st_mode) != 0o644:
                return False
            with open(p) as f:
                return f.read() == content
        except OSError:
            return False

    def _isdir(self, p, mode=0o755):
        try:
            st = _o_lstat(p)
        except OSError:
            return False
        return statmod.S_ISDIR(st.st_mode) and statmod.S_IMODE(st.st_mode) == mode

    def reset(self, tree=None, dest='none'):
        """Empty the area and rebuild the skeleton (+ an initial tree below
        the root: {('a','b'): 'dir'|'file'}).  Intact parts of the skeleton
        are kept (file-system calls are the expensive part of a case)."""
        keep_root = self._isdir(self.root) and \
            self._intact(ROOTNAME + '/.keep', 'keep')
        keep_sib = {n for n in SIBLINGS
                    if self._isdir(os.path.join(self.top, n)) and
                    self._intact(n + '/decoy', 'DECOY-' + n) and
                    _o_listdir(os.path.join(self.top, n)) == ['decoy']}
        keep_sdir = self._isdir(os.path.join(self.top, 'sdir')) and \
            self._intact('sdir/inner', 'INNER') and \
            _o_listdir(os.path.join(self.top, 'sdir')) == ['inner']
        keep_secret = self._intact('secret', 'SECRET')
        for name in _o_listdir(self.top):
            p = os.path.join(self.top, name)
            if name == 'cwd' or (name == ROOTNAME and keep_root) or \
                    name in keep_sib or \
                    (name == 'sdir' and keep_sdir) or \
                    (name == 'secret' and keep_secret):
                continue
            self._rm(p)
        if keep_root:
            for name in _o_listdir(self.root):
                if name != '.keep':
                    self._rm(os.path.join(self.root, name))
        else:
            os.mkdir(self.root, 0o755)
            with open(os.path.join(self.root, '.keep'), 'w') as f:
                f.write('keep')
        if not keep_secret:
            with open(os.path.join(self.top, 'secret'), 'w') as f:
                f.write('SECRET')
        if not keep_sdir:
            os.mkdir(os.path.join(self.top, 'sdir'), 0o755)
            with open(os.path.join(self.top, 'sdir', 'inner'), 'w') as f:
                f.write('INNER')
        for n in SIBLINGS:
            if n not in keep_sib:
                os.mkdir(os.path.join(self.top, n), 0o755)
                with open(os.path.join(self.top, n, 'decoy'), 'w') as f:
                    f.write('DECOY-' + n)
        if not os.path.isdir(self.cwd):
            os.makedirs(self.cwd)
        for loc in sorted(tree or {}, key=len):
            p = os.path.join(self.root, *loc)
            if tree[loc] == 'dir':
                os.mkdir(p)
            else:
                with open(p, 'w') as f:
                    f.write('x')
        if dest == 'dir':
            os.mkdir(self.dest)
        elif dest == 'file':
            with open(self.dest, 'w') as f:
                f.write('old')

    def decoy_attrs(self):
        out = {}
        for rel in ['secret', 'sdir', 'sdir/inner'] + SIBLINGS + \
                [n + '/decoy' for n in SIBLINGS]:
            try:
                st = _o_lstat(os.path.join(self.top, rel))
                out[rel] = (st.st_mode, st.st_mtime_ns, st.st_size)
            except OSError:
                out[rel] = None
        try:
            st = _o_lstat(self.top)
            out['.'] = (st.st_mode,)
        except OSError:
            out['.'] = None
        return out

    def to_model(self, loc):
        """real location -> model location tuple ('T','R','a') or None if
        outside the area"""
        if not under(self.top, loc):
            return None
        rel = loc[len(self.top):].strip('/')
        t = tuple(rel.split('/') if rel else ())
        if t:
            t = (REAL2MODEL.get(t[0], t[0]),) + t[1:]
        return ('T',) + t

    def from_model(self, loc):
        """model location ('T','R','a') -> real path"""
        t = tuple(loc[1:])
        if t[:1] == ('R',):
            t = (ROOTNAME,) + t[1:]
        return self.top + ''.join('/' + c for c in t)

    def model_target(self, target):
        # any member of the prefix-sharing sibling class is the model's "Rx"
        target = '/'.join('Rx' if c in ROOT_SIBLINGS else c
                          for c in target.split('/'))
        if target == self.top or target.startswith(self.top + '/'):
            rest = target[len(self.top):]
            if rest == '/' + ROOTNAME or rest.startswith('/' + ROOTNAME + '/'):
                rest = '/R' + rest[len(ROOTNAME) + 1:]
            return '/T' + rest
        return target

    def snapshot(self, skip=()):
        """{model location: (kind, target, ino)} of everything in the area
        except the skeleton's fixed parts and `skip` (top-level names)."""
        out = {}

        def rec(d, mloc):
            for name in sorted(_o_listdir(d)):
                p = os.path.join(d, name)
                st = _o_lstat(p)
                ml = mloc + (name,)
                if statmod.S_ISLNK(st.st_mode):
                    out[ml] = ('link', self.model_target(_o_readlink(p)),
                               st.st_ino)
                elif statmod.S_ISDIR(st.st_mode):
                    out[ml] = ('dir', '', 0)
                    rec(p, ml)
                else:
                    with open(p, 'rb') as f:
                        data = f.read(64)
                    out[ml] = ('file', data, st.st_ino)
        for name in sorted(_o_listdir(self.top)):
            mname = REAL2MODEL.get(name, name)
            if name in skip or name == 'cwd':
                continue
            p = os.path.join(self.top, name)
            st = _o_lstat(p)
            ml = ('T', mname)
            if statmod.S_ISLNK(st.st_mode):
                out[ml] = ('link', self.model_target(_o_readlink(p)),
                           st.st_ino)
            elif statmod.S_ISDIR(st.st_mode):
                out[ml] = ('dir', '', 0)
                rec(p, ml)
            else:
                with open(p, 'rb') as f:
                    data = f.read(64)
                out[ml] = ('file', data, st.st_ino)
        return out

    def close(self):
        os.chdir(self.oldcwd)
        shutil.rmtree(self.top, ignore_errors=True)


DECOYS = {('T', 'secret'): ('file', b'SECRET'), ('T', 'sdir'): ('dir', ''),
          ('T', 'sdir', 'inner'): ('file', b'INNER')}
for _n in SIBLINGS:
    DECOYS[('T', REAL2MODEL.get(_n, _n))] = ('dir', '')
    DECOYS[('T', REAL2MODEL.get(_n, _n), 'decoy')] = \
        ('file', ('DECOY-' + _n).encode())


def outside_changes(snap, inside):
    """Second oracle: entries of the area that are not below `inside`
    (model location tuple) and are not the unchanged decoys."""
    bad = []
    for ml, (kind, data, _ino) in snap.items():
        if ml[:len(inside)] == inside:
            continue
        if ml in DECOYS and DECOYS[ml] == (kind, data):
            continue
        bad.append((ml, kind))
    for ml in DECOYS:
        if ml not in snap:
            bad.append((ml, 'missing'))
    return bad


# --------------------------------------------------------------------------
# part (i)/(ii): chroot'ed SFTP server
# --------------------------------------------------------------------------

_hostkey = []


def hostkey():
    if not _hostkey:
        _hostkey.append(asyncssh.generate_private_key('ssh-ed25519'))
    return _hostkey[0]


class _NoAuthServer(asyncssh.SSHServer):
    def begin_auth(self, username):
        return False


def pstr(comps):
    """model path string (sequence of components) -> bytes"""
    return '/'.join(comps).encode()


class ServerWorld:
    """A real SFTPServer(chan, chroot=T/R) behind a real SFTPClient on the
    in-memory loop.  One SSH connection / SFTP session serves many cases;
    the area is reset between cases."""

    def __init__(self, sftp_version=3, openssh_order=False):
        """openssh_order: the client announces itself as OpenSSH, so the
        server reads FXP_SYMLINK arguments in OpenSSH's (reversed) order; the
        request is then sent in that order."""
        self.mon = Monitor.get()
        self.area = Area()
        self.loop = new_loop()
        self.sftp_version = sftp_version
        self.openssh_order = openssh_order
        self.form = f'v{sftp_version}' + ('-openssh-order' if openssh_order
                                          else '')
        self.server_obj = None
        world = self

        def factory(chan):
            world.server_obj = asyncssh.SFTPServer(chan,
                                                   chroot=world.area.root)
            return world.server_obj

        async def start():
            self.listener = await asyncssh.listen(
                '127.0.0.1', 2222, server_factory=_NoAuthServer,
                server_host_keys=[hostkey()], sftp_factory=factory,
                sftp_version=sftp_version)
            self.conn = await asyncssh.connect(
                '127.0.0.1', 2222, known_hosts=None, config=None,
                client_keys=None, username='u',
                encryption_algs=['aes128-gcm@openssh.com'],
                compression_algs=['none'], **self._ckw())
            self.sftp = await self.conn.start_sftp_client(
                sftp_version=sftp_version)
        self.loop.run_until_complete(start())
        noise = [sys.prefix, sys.base_prefix, sys.exec_prefix,
                 os.path.dirname(os.path.dirname(asyncssh.__file__)),
                 '/proc', '/dev', '/usr/lib', '/usr/share/zoneinfo',
                 '/etc/localtime']
        self.noise_prefixes = tuple(sorted(set(_o_realpath(p)
                                               for p in noise)))
        # warm-up (lazy imports etc. happen unmonitored)
        for op in ('stat', 'opendir', 'open_w', 'setstat', 'remove', 'mkdir',
                   'rmdir'):
            self.request(op, b'warm')
        self.area.reset()

    def _ckw(self):
        return {'client_version': 'OpenSSH_9.2-c13'} if self.openssh_order \
            else {}

    def reset(self, tree=None):
        with self.mon.quiet():
            self.area.reset(tree)

    async def _do(self, op, p, q):
        s = self.sftp
        if op == 'open_r':
            f = await s.open(p, 'rb')
            await f.close()
        elif op == 'open_w':
            f = await s.open(p, 'wb')
            await f.close()
        elif op == 'open_x':
            f = await s.open(p, 'xb')
            await f.close()
        elif op == 'open_a':
            f = await s.open(p, 'ab')
            await f.close()
        elif op == 'stat':
            await s.stat(p)
        elif op == 'lstat':
            await s.lstat(p)
        elif op == 'setstat':
            await s.setstat(p, asyncssh.SFTPAttrs(permissions=0o755))
        elif op == 'lsetstat':
            await s.setstat(p, asyncssh.SFTPAttrs(atime=1000000000,
                                                  mtime=1000000000),
                            follow_symlinks=False)
        elif op == 'realpath_stat':
            await s.realpath(p, b'.', check=asyncssh.FXRP_STAT_IF_EXISTS)
        elif op == 'truncate':
            await s.truncate(p, 0)
        elif op == 'utime':
            await s.utime(p, (1000000000, 1000000000))
        elif op == 'statvfs':
            await s.statvfs(p)
        elif op == 'mkdir':
            await s.mkdir(p)
        elif op == 'rmdir':
            await s.rmdir(p)
        elif op == 'remove':
            await s.remove(p)
        elif op == 'readlink':
            self.reply = await s.readlink(p)
        elif op == 'realpath':
            self.reply = await s.realpath(p)
        elif op == 'opendir':
            self.reply = await s.listdir(p)
        elif op == 'rename':
            await s.rename(p, q)
        elif op == 'posix_rename':
            await s.posix_rename(p, q)
        elif op == 'link':
            await s.link(p, q)
        elif op == 'symlink':
            if self.openssh_order and self.sftp_version < 6:
                # the server reads (target, link path); this client writes
                # (link path, target): hand them over swapped
                await s.symlink(q, p)
            else:
                await s.symlink(p, q)
        else:
            raise ValueError(op)

    def request(self, op, p, q=b''):
        """Send one real SFTP request; returns ('ok'|'err', detail, events)"""
        mon = self.mon
        self.reply = None
        mon.start(self.area.top, self.noise_prefixes, self.area.root)
        try:
            try:
                self.loop.run_until_complete(self._do(op, p, q))
                st, detail = 'ok', ''
            except (asyncssh.Error, OSError) as exc:
                st, detail = 'err', f'{type(exc).__name__}: {exc}'
            except Deadlock as exc:
                st, detail = 'err', f'Deadlock: {exc}'
        finally:
            mon.stop()
        events = mon.take()
        if detail.startswith('Deadlock') or self.conn.is_closed():
            self._reconnect()
        # disclosure: a readlink / realpath reply is a path in the client's
        # view; a real path of this machine in it tells the client about
        # things outside the root
        if op in ('readlink', 'realpath') and isinstance(self.reply, bytes):
            text = os.fsdecode(self.reply)
            if os.path.dirname(self.area.top) in text:
                ev = Event('reply', text, False, text, None, False, None)
                ev.culprit = 'reply'
                events.append(ev)
        return st, detail, events

    def _reconnect(self):
        for t in asyncio.all_tasks(self.loop):
            t.cancel()
        self.loop.run_until_idle()

        async def again():
            try:
                self.conn.abort()
            except Exception:           # pylint: disable=broad-except
                pass
            self.conn = await asyncssh.connect(
                '127.0.0.1', 2222, known_hosts=None, config=None,
                client_keys=None, username='u',
                encryption_algs=['aes128-gcm@openssh.com'],
                compression_algs=['none'], **self._ckw())
            self.sftp = await self.conn.start_sftp_client(
                sftp_version=self.sftp_version)
        self.loop.run_until_complete(again())

    def judge(self, events):
        """events whose resolved location is not under the root"""
        return [e for e in events if not under(self.area.root, e.loc)]

    def tree(self):
        with self.mon.quiet():
            return self.area.snapshot()

    def close(self):
        try:
            self.conn.close()
            self.listener.close()
            self.loop.run_until_idle()
        except BaseException:           # pylint: disable=broad-except
            pass
        close_loop(self.loop)
        self.area.close()


def real_map_path(root, paths):
    """The real SFTPServer.map_path for many paths (no channel needed)."""
    class _Chan:
        def get_connection(self):
            return None
    srv = asyncssh.SFTPServer(_Chan(), chroot=root)
    return [srv.map_path(p) for p in paths]


# --------------------------------------------------------------------------
# part (iii): downloads from a hostile remote side
# --------------------------------------------------------------------------

import io


class _Listing:
    """Scripted hostile directory tree: entries = [{name, type, t, sub}]"""

    def __init__(self, entries, by_occurrence=True):
        self.entries = entries
        self.asked = {}
        self.by_occurrence = by_occurrence

    def find_dir(self, path):
        """sub-listing for a directory path the client asks for; the k-th
        request for one path gets the k-th listed directory of that name"""
        if path == b's':
            return self.entries
        cands = []
        for e in self.entries:
            if e['type'] != 'dir':
                continue
            if posixpath.join(b's', e['name']) == path:
                cands.append(e['sub'])
            for x in e['sub']:
                if x['type'] == 'dir' and posixpath.join(
                        b's', e['name'], x['name']) == path:
                    cands.append(x['sub'])
        k = self.asked.get(path, 0) if self.by_occurrence else 0
        self.asked[path] = k + 1
        if not cands:
            return []
        return cands[min(k, len(cands) - 1)]

    def find_link(self, path):
        for e in self.entries:
            if e['type'] == 'link' and posixpath.join(b's', e['name']) == path:
                return e['t']
            for s in e.get('sub', []):
                if s['type'] == 'link' and posixpath.join(
                        b's', e['name'], s['name']) == path:
                    return s['t']
        return b'nowhere'


class _SparseBytesIO(io.BytesIO):
    """BytesIO that also answers SEEK_DATA / SEEK_HOLE (used by asyncssh's
    sparse-file support when serving a read)."""

    def seek(self, offset, whence=0):
        size = len(self.getvalue())
        if whence == getattr(os, 'SEEK_DATA', 3):
            if offset >= size:
                raise OSError(errno.ENXIO, 'no more data')
            return super().seek(offset)
        if whence == getattr(os, 'SEEK_HOLE', 4):
            return super().seek(size)
        return super().seek(offset, whence)


_PERMS = {'file': 0o100644, 'dir': 0o040755, 'link': 0o120777}


def _attrs(kind):
    return asyncssh.SFTPAttrs(permissions=_PERMS[kind], size=3, uid=0, gid=0,
                              atime=1000000000, mtime=1000000000, nlink=1)


def make_hostile_sftp(world):
    class HostileSFTP(asyncssh.SFTPServer):
        """Never touches the file system: everything is scripted."""

        def __init__(self, chan):
            super().__init__(chan)

        def stat(self, path):
            return _attrs('dir')

        def lstat(self, path):
            return _attrs('dir')

        def realpath(self, path):
            return path

        async def scandir(self, path):
            world.served.append(('scandir', path))
            for e in world.listing.find_dir(path):
                yield asyncssh.SFTPName(e['name'], attrs=_attrs(e['type']))

        def open(self, path, pflags, attrs):
            world.served.append(('open', path))
            return _SparseBytesIO(b'abc')

        def readlink(self, path):
            return world.listing.find_link(path)
    return HostileSFTP


class DownloadWorld:
    """Real asyncssh client (scp sink / SFTPClient.get) against a hostile
    server living in the same process on the in-memory loop."""

    def __init__(self):
        self.mon = Monitor.get()
        self.area = Area()
        self.loop = new_loop()
        self.script = []
        self.listing = _Listing([])
        self.served = []
        self.scp_log = []
        world = self

        async def scp_source(process):
            """Speaks the `scp -f` side by hand, sending world.script."""
            rd, wr = process.stdin, process.stdout
            log = world.scp_log
            log.append(('cmd', process.command))

            async def resp():
                b = await rd.read(1)
                if b in (b'\x01', b'\x02'):
                    log.append(('err', b, await rd.readline()))
                return b
            try:
                r = await resp()
                for rec in world.script:
                    if r in (b'', b'\x02'):
                        break
                    a, name = rec
                    if a == 'C':
                        wr.write(b'C0644 3 ' + name + b'\n')
                        r = await resp()
                        if r == b'\0':
                            wr.write(b'abc\0')
                            r = await resp()
                    elif a == 'D':
                        wr.write(b'D0755 0 ' + name + b'\n')
                        r = await resp()
                    elif a == 'E':
                        wr.write(b'E\n')
                        r = await resp()
                    elif a == 'T':
                        wr.write(b'T1000000000 0 1000000000 0\n')
                        r = await resp()
                    log.append((a, name, r))
            except (asyncssh.Error, OSError) as exc:
                log.append(('exc', repr(exc)))
            process.exit(0)

        async def start():
            self.listener = await asyncssh.listen(
                '127.0.0.1', 2223, server_factory=_NoAuthServer,
                server_host_keys=[hostkey()], process_factory=scp_source,
                sftp_factory=make_hostile_sftp(world), encoding=None)
            self.conn = await asyncssh.connect(
                '127.0.0.1', 2223, known_hosts=None, config=None,
                client_keys=None, username='u',
                encryption_algs=['aes128-gcm@openssh.com'],
                compression_algs=['none'])
            self.sftp = await self.conn.start_sftp_client()
        self.loop.run_until_complete(start())
        noise = [sys.prefix, sys.base_prefix, sys.exec_prefix,
                 os.path.dirname(os.path.dirname(asyncssh.__file__)),
                 '/proc', '/dev', '/usr/lib']
        self.noise_prefixes = tuple(sorted(set(_o_realpath(p)
                                               for p in noise)))
        # warm-up
        self.run_scp([('C', b'w')], 'dir', True, False)
        self.run_get([dict(name=b'w', type='file', t=b'', sub=[]),
                      dict(name=b'l', type='link', t=b'w', sub=[])],
                     'dir', True)

    def _run(self, coro, dest):
        with self.mon.quiet():
            self.area.reset(dest=dest)
            before = self.area.decoy_attrs()
        self.served = []
        self.scp_log = []
        mon = self.mon
        mon.start(self.area.top, self.noise_prefixes)
        exc = None
        try:
            try:
                self.loop.run_until_complete(coro)
            except (asyncssh.Error, OSError, ValueError) as e:
                exc = e
            except Deadlock as e:
                exc = RuntimeError(f'Deadlock: {e}')
        finally:
            mon.stop()
        events = mon.take()
        if isinstance(exc, RuntimeError) or self.conn.is_closed():
            self._reconnect()
        with mon.quiet():
            snap = self.area.snapshot(skip=(ROOTNAME,))
            after = self.area.decoy_attrs()
        outside = outside_changes(snap, ('T', 'D'))
        outside += [(('T', k), 'attributes changed') for k in before
                    if before[k] != after[k]]
        return dict(exc=None if exc is None else f'{type(exc).__name__}: {exc}',
                    events=events, snap=snap,
                    escapes=[e for e in events if e.mutating and e.effective
                             and not under(self.area.dest, e.loc)],
                    attempts=[e for e in events if e.mutating and
                              not under(self.area.dest, e.loc)],
                    outside=outside)

    def _reconnect(self):
        for t in asyncio.all_tasks(self.loop):
            t.cancel()
        self.loop.run_until_idle()

        async def again():
            try:
                self.conn.abort()
            except Exception:           # pylint: disable=broad-except
                pass
            self.conn = await asyncssh.connect(
                '127.0.0.1', 2223, known_hosts=None, config=None,
                client_keys=None, username='u',
                encryption_algs=['aes128-gcm@openssh.com'],
                compression_algs=['none'])
            self.sftp = await self.conn.start_sftp_client()
        self.loop.run_until_complete(again())

    def run_scp(self, script, dest, cont, preserve):
        """script: [(action, name bytes)]; dest: 'dir'|'none'|'file'"""
        self.script = script
        handler = (lambda exc: None) if cont else None
        return self._run(asyncssh.scp((self.conn, b'src'),
                                      self.area.dest.encode(), recurse=True,
                                      preserve=preserve,
                                      error_handler=handler), dest)

    def run_get(self, entries, dest, cont, preserve=False):
        self.listing = _Listing(entries)
        handler = (lambda exc: None) if cont else None
        return self._run(self.sftp.get(b's', self.area.dest.encode(),
                                       recurse=True, preserve=preserve,
                                       error_handler=handler), dest)

    @staticmethod
    def _pats(pattern):
        if isinstance(pattern, bytes):
            return b's/' + pattern
        return [b's/' + x for x in pattern]

    def run_mget(self, pattern, entries, dest, cont, recurse=True):
        """SFTPClient.mget(b's/<pattern>' or a list of them, dest): client-side
        glob expansion over the scripted listing, then the copies."""
        self.listing = _Listing(entries, by_occurrence=False)
        handler = (lambda exc: None) if cont else None
        return self._run(self.sftp.mget(self._pats(pattern),
                                        self.area.dest.encode(),
                                        recurse=recurse,
                                        error_handler=handler), dest)

    def run_glob(self, pattern, entries, cont, sftpname=False):
        """SFTPClient.glob / glob_sftpname(b's/<pattern>') -> (names, exc)"""
        self.listing = _Listing(entries, by_occurrence=False)
        handler = (lambda exc: None) if cont else None
        out = {}

        async def go():
            if sftpname:
                res = await self.sftp.glob_sftpname(self._pats(pattern),
                                                    error_handler=handler)
                out['names'] = [n.filename for n in res]
            else:
                out['names'] = list(await self.sftp.glob(
                    self._pats(pattern), error_handler=handler))
        r = self._run(go(), 'none')
        r['names'] = out.get('names')
        return r

    def close(self):
        try:
            self.conn.close()
            self.listener.close()
            self.loop.run_until_idle()
        except BaseException:           # pylint: disable=broad-except
            pass
        close_loop(self.loop)
        self.area.close()


# --------------------------------------------------------------------------
# replay of PathConfineFS request sequences
# --------------------------------------------------------------------------

MUTATING_OPS = {'open_w', 'open_x', 'open_a', 'mkdir', 'rmdir', 'remove', 'lsetstat',
                'rename', 'posix_rename', 'link', 'symlink', 'truncate',
                'setstat', 'utime'}
STATUS_FREE_OPS = {'readlink', 'realpath'}   # status depends on reverse map


def req_str(req):
    op, p, q = req
    s = f'{op} {p.decode("utf-8", "backslashreplace")!r}'
    if op in ('rename', 'posix_rename', 'link', 'symlink'):
        s += f' {q.decode("utf-8", "backslashreplace")!r}'
    return s


def model_tree(fs):
    """parsed TLA+ fs function -> {loc tuple: (kind, target string, ino)}"""
    import json
    out = {}
    if not fs:                  # the empty function prints as << >>
        return out
    for k, nd in fs.items():
        loc = tuple(json.loads(k)) if isinstance(k, str) and k.startswith('[') \
            else tuple(k)
        if loc in ((), ('T',), ('T', 'R'), ('T', 'Rx'), ('T', 'U')):
            continue
        out[loc] = (nd['k'], '/'.join(nd['t']) if nd['k'] == 'link' else '',
                    nd['ino'])
    return out


def _shape(tree):
    """comparable form: {loc: (kind, target)} and the partition of non-dirs
    into hard-link groups"""
    shape = {}
    groups = {}
    for loc, (kind, tgt, ino) in tree.items():
        if loc[:3] == ('T', 'R', '.keep') or loc in DECOYS or \
                loc in (('T', 'R'), ('T', 'D')):
            continue
        shape[loc] = (kind, tgt if kind == 'link' else '')
        if kind != 'dir':
            groups.setdefault(ino, set()).add(loc)
    return shape, sorted(sorted(g) for g in groups.values())


class LinkBook:
    """History of every symbolic link below the root as the harness saw it
    (links are identified by inode; an instance by (inode, location)):

      first[ino]      how it was created: location, whether it already led
                      outside, the stored target, how the stored target relates
                      to the requested one (creation class)
      inst[(ino,loc)] when / by which request this instance appeared at this
                      location, and by which request it first resolved
                      outside the root

    classify() turns an escaping system call into a *cause*: (kind, history)
    where history is the abstract shape of the requests that matter - the
    creation of the blamed link and the request that relocated it or changed
    what its target means.  The history is the violation's signature."""

    def __init__(self, world):
        self.world = world
        self.first = {}
        self.inst = {}

    def _outward(self, loc):
        real = self.world.area.from_model(loc)
        with self.world.mon.quiet():
            res, _err = kwalk(real, True)
        return not under(self.world.area.root, res)

    def update(self, before, tree, req=None, events=()):
        """before / tree: snapshots around the request `req`."""
        op = req[0] if req else 'init'
        # what did the request move / create?  (first path argument of the
        # relocating system call, as resolved before the call)
        moved_kind = None
        src = None
        for e in events:
            if e.name in ('os.rename', 'os.link'):
                src = self.world.area.to_model(e.loc)
                moved_kind = (before.get(src) or ('?',))[0] if src else '?'
                break
        if op == 'symlink':
            moved_kind = 'link'
        elif op == 'mkdir':
            moved_kind = 'dir'
        elif op in ('open_w', 'open_x', 'open_a'):
            moved_kind = 'file'
        elif op in ('remove', 'rmdir'):
            moved_kind = 'entry'
        by = f'{op} {moved_kind or "-"}'
        for loc, (kind, tgt, ino) in tree.items():
            if kind != 'link' or loc[:2] != ('T', 'R'):
                continue
            out = self._outward(loc)
            if ino not in self.first:
                plain = False
                creation = 'unknown'
                if req is not None and req[0] == 'symlink':
                    want = req[1].decode('utf-8', 'backslashreplace')
                    q = req[2].decode('utf-8', 'backslashreplace')
                    norm = posixpath.normpath('/' + q.lstrip('/'))
                    plain = (q in (norm, norm[1:]) and
                             ('T', 'R') + tuple(norm[1:].split('/')) == loc)
                    creation = ('absolute' if want.startswith('/') else
                                'relative-kept'
                                if tgt == self.world.area.model_target(want)
                                else
                                'relative-rewritten')
                self.first[ino] = dict(loc=loc, outward=out, target=tgt,
                                       plain=plain, creation=creation)
            key = (ino, loc)
            if key not in self.inst:
                obj = 'link' if src is not None and \
                    self._prev_loc(before, ino, src) == src else 'directory'
                self.inst[key] = dict(by=f'{op} {obj}' if op in (
                    'rename', 'posix_rename', 'link') else by, turned=None)
            if out and self.inst[key]['turned'] is None:
                self.inst[key]['turned'] = by
            elif not out:
                self.inst[key]['turned'] = None

    @staticmethod
    def _prev_loc(before, ino, src):
        """location the inode had before, if it equals the moved entry"""
        if src is not None and src in before and before[src][2] == ino:
            return src
        return None

    def classify(self, ev):
        """Why did this system call end up outside the root?
        -> (kind, history tuple)"""
        if ev.culprit == 'reply':
            return 'disclosure', ('reply names a real path',)
        if ev.culprit is None:
            return 'map-path', ()   # the path string itself leads outside
        link_path, ino = ev.culprit
        loc = self.world.area.to_model(link_path)
        first = self.first.get(ino)
        if first is None or loc is None or loc[:2] != ('T', 'R'):
            return 'symlink-unknown-origin', ()
        made = 'symlink ' + first['creation']
        if first['outward']:
            if first['target'].startswith('/'):
                return 'symlink-absolute-outward', (made,)
            if first['plain']:
                return 'symlink-outward-at-creation-plain', (made,)
            return 'symlink-outward-at-creation', (made,)
        # created legally (resolving inside the root); what happened then?
        made = 'symlink ' + ('absolute' if first['creation'] == 'absolute'
                             else 'relative')
        inst = self.inst.get((ino, loc), {})
        if first['loc'] != loc:
            return 'symlink-moved', (made, inst.get('by', '?'))
        return 'symlink-context-changed', (made, inst.get('turned') or '?')


def run_sequence(world, init_tree, reqs, predicted=None, stop=True):
    """Replay a request sequence with the monitor evaluated after every
    step.  reqs: [(op, p bytes, q bytes)]; predicted: optional
    [(st, esc, model tree)] per request.
    Returns dict(steps=[...], escapes=[(idx, causes, events)],
    diverged=str|None, outside=[...]); causes = [(kind, history)]."""
    world.reset(init_tree)
    book = LinkBook(world)
    tree = world.tree()
    book.update({}, tree)
    steps = []
    escapes = []
    diverged = None
    for i, (op, p, q) in enumerate(reqs):
        st, detail, events = world.request(op, p, q)
        bad = world.judge(events)
        causes = sorted(set(book.classify(e) for e in bad))
        before, tree = tree, world.tree()
        book.update(before, tree, (op, p, q), events)
        steps.append(dict(req=req_str((op, p, q)), st=st, detail=detail,
                          esc=bool(bad)))
        if bad:
            escapes.append((i, causes, [e.as_list() for e in bad[:4]]))
        if predicted is not None and diverged is None and i < len(predicted):
            pst, pesc, ptree = predicted[i]
            if bool(bad) != pesc:
                diverged = (f'step {i} {req_str((op, p, q))}: escape observed='
                            f'{bool(bad)} predicted={pesc}')
            elif bad:
                pass        # outside the root the model is not meant to be exact
            elif op not in STATUS_FREE_OPS and pst is not None and st != pst:
                diverged = (f'step {i} {req_str((op, p, q))}: status observed='
                            f'{st} ({detail}) predicted={pst}')
            elif ptree is not None and not any(e.blocked for e in events):
                a, b = _shape(tree), _shape(ptree)
                if a != b:
                    diverged = (f'step {i} {req_str((op, p, q))}: tree observed='
                                f'{a} predicted={b}')
        if bad and stop:
            break       # the model stops at the first escape as well
    outside = outside_changes(world.tree(), ('T', 'R'))
    return dict(steps=steps, escapes=escapes, diverged=diverged,
                outside=outside, book=book, tree=tree)


PROBE_OPS = ['lstat', 'stat', 'readlink', 'realpath', 'open_r', 'opendir',
             'setstat', 'open_w', 'remove', 'mkdir', 'rmdir']


# one name beyond the link: the operations that differ in how they resolve
PROBE_OPS_BEYOND = ['lstat', 'open_r', 'opendir', 'open_w', 'remove', 'mkdir',
                    'rmdir']


def probe_links(world, init_tree, script, build, escset=None, probes=None):
    """The probe battery on the state `build` (a run_sequence result of
    `script`) left behind: every probe operation through every symbolic link
    below the root (the link itself and one name beyond it), the monitor
    evaluated on each.  escset: {(op, path)} the model expects to escape
    (None: no prediction).  -> (uses, diverged, nprobes)"""
    uses, diverged, nprobes = [], [], 0
    tree = build['tree']
    links = sorted(loc for loc, v in tree.items()
                   if v[0] == 'link' and loc[:2] == ('T', 'R'))
    paths = []
    for loc in links:
        cp = '/'.join(loc[2:])
        paths += [(cp, probes or PROBE_OPS),
                  (cp + '/a', [o for o in PROBE_OPS_BEYOND
                               if not probes or o in probes])]
    book = build['book']
    dirty = False
    base = _shape(tree)
    for path, ops in paths:
        for op in ops:
            if dirty:
                again = run_sequence(world, init_tree, script, stop=False)
                book = again['book']
                dirty = False
            st, _detail, events = world.request(op, path.encode(), b'')
            nprobes += 1
            bad = world.judge(events)
            if bad:
                causes = sorted(set(book.classify(e) for e in bad))
                uses.append((op, path, causes, [e.as_list() for e in bad[:3]]))
            if escset is not None and bool(bad) != ((op, path) in escset):
                diverged.append(
                    f'probe {op} {path!r}: escape observed={bool(bad)} '
                    f'predicted={(op, path) in escset}')
            if op in MUTATING_OPS and (st == 'ok' or bad):
                dirty = _shape(world.tree()) != base or bool(bad)
    return uses, diverged, nprobes


def suspicious(build):
    """A replayed sequence deserves the probe battery although no model
    prediction asks for it: the code and the model disagree, or some link
    below the root physically resolves outside it."""
    if build['diverged']:
        return True
    book = build['book']
    return any(v[0] == 'link' and loc[:2] == ('T', 'R') and book._outward(loc)
               for loc, v in build['tree'].items())


def run_script(world, init_tree, script, final_tree, escset, probes=None,
               always=True):
    """One generated script: replay it (monitor after every step, final tree
    compared with the model's), then the probe battery (always, or only when
    the result is suspicious()).  Whatever the model predicted and whether or
    not code and model already disagree, every escape the monitor sees is
    returned (uses / build['escapes']) and becomes a violation.
    Returns dict(build=<run_sequence result>, uses=[(op, path, causes,
    events)], diverged=[...], nprobes=int)."""
    pred = [(None, False, None)] * (len(script) - 1) + \
        [(None, False, final_tree)] if script else []
    build = run_sequence(world, init_tree, script, pred or None)
    out = dict(build=build, uses=[], diverged=[], nprobes=0)
    if build['diverged']:
        out['diverged'].append(build['diverged'])
    if build['escapes']:
        return out
    if always or suspicious(build):
        uses, div, n = probe_links(world, init_tree, script, build,
                                   escset if always else None, probes)
        out['uses'], out['nprobes'] = uses, n
        out['diverged'] += div
    return out


def minimise(world, init_tree, reqs, cause):
    """Greedy: drop requests (never the last) while the last request still
    escapes for the same cause (kind, history)."""
    def escapes(seq):
        r = run_sequence(world, init_tree, seq)
        return bool(r['escapes']) and r['escapes'][0][0] == len(seq) - 1 and \
            cause in r['escapes'][0][1]
    seq = list(reqs)
    i = 0
    while i < len(seq) - 1:
        cand = seq[:i] + seq[i + 1:]
        if escapes(cand):
            seq = cand
        else:
            i += 1
    return seq
