"""Driver for specs/Editor/Editor.tla: the server-side line editor
(asyncssh/editor.py).

A behaviour of the specification is a list of steps (label, projected state).
Input steps ("B", byte) are grouped by the model's chunk boundaries ("Cut")
into the writes of a real client channel (encoding=None: raw bytes, so that a
boundary may fall inside a UTF-8 character or an escape sequence); API steps
(set_echo, set_line_mode, write, register_key, ...) are performed on the real
SSHLineEditorChannel either between two chunks or - when the model says the
application acts from inside a callback (a completed line, a break, a soft
EOF, a signal) while typed-ahead input is still being processed - from inside
that callback of the real session.

Observations (nothing of the editor's own state is trusted for a verdict):
  * everything the server session is handed (data_received, soft_eof, break,
    signal, eof, terminal size),
  * every byte the client's channel receives, interpreted by a small terminal
    emulator (two flavours: deferred wrap as xterm does, immediate wrap).

L1 monitors (violations): Delivered (the session was handed exactly the
model's deliveries: every completed line once, in order, pending input handed
over once when line mode is switched off / at EOF), ScreenMatches (what the
user's screen shows = prompt text + the model's line, cursor on the model's
cursor, whenever echo is on; nothing of the line when echo is off),
NoSecretShown (no character typed while echo was off is ever sent to the
terminal, unless the application switched echo on with it still in the input
line), BellOnIllegal (one BEL in a chunk iff the model has an illegal key in
it), HookArguments (registered key handlers see the model's line and cursor),
NoCrash (no exception out of the editor); checks/x06.py adds ChunkIndependent
(the same behaviour sent without the inner chunk boundaries gives the same
deliveries and the same final screen).
L2 (divergence): the editor's private line / cursor / kill buffer / history
differ from the model's although nothing observable was wrong.

script_tags() names the reported defects of the pinned tree a schedule runs
into (from the schedule alone); checks/x06.py puts the tag into the
violation's signature so that known_findings.json can list it.
"""

import unicodedata

import asyncssh

from harness.sshpair import Pair, NoAuthServer

# ---------------------------------------------------------------------------
# terminal emulator
# ---------------------------------------------------------------------------

BLANK = ' '


def is_wide(ch):
    return unicodedata.east_asian_width(ch) in 'WF'


class Term:
    """Minimal VT100-ish screen: printable characters (wide ones take two
    cells and never straddle the right margin), CR, LF, BS, BEL, CSI n A/B/C/D,
    CSI K, CSI J.  deferred=True: the cursor stays on the last column after
    writing it and the wrap happens with the next printable character (xterm,
    VT100); False: the cursor moves to the next row at once."""

    def __init__(self, width, height=40, deferred=True):
        self.w, self.h, self.deferred = width, height, deferred
        self.cells = {}          # (row, col) -> char; '' = right half of wide
        self.r = self.c = 0
        self.pending = False     # deferred wrap pending
        self.bells = 0
        self.esc = None          # None | '' (after ESC) | '[...' (CSI)
        self.shown = []          # every printable character ever written
        self.unknown = []        # sequences the emulator does not know
        self.scrolled = 0

    def clone(self):
        t = Term(self.w, self.h, self.deferred)
        t.cells = dict(self.cells)
        t.r, t.c, t.pending = self.r, self.c, self.pending
        t.scrolled = self.scrolled
        return t

    # -- primitives --
    def _newline(self):
        self.r += 1
        if self.r >= self.h:
            n = self.r - self.h + 1
            self.cells = {(r - n, c): v for (r, c), v in self.cells.items()
                          if r - n >= 0}
            self.r -= n
            self.scrolled += n

    def _clear_cell(self, r, c):
        v = self.cells.pop((r, c), None)
        if v == '':                       # right half: blank the left half
            self.cells.pop((r, c - 1), None)
        elif v is not None and is_wide(v):
            self.cells.pop((r, c + 1), None)

    def _put(self, ch):
        wide = is_wide(ch)
        need = 2 if wide else 1
        if self.pending or self.c + need > self.w:
            self.pending = False
            self.c = 0
            self._newline()
        self._clear_cell(self.r, self.c)
        if wide:
            self._clear_cell(self.r, self.c + 1)
            self.cells[(self.r, self.c + 1)] = ''
        self.cells[(self.r, self.c)] = ch
        self.c += need
        if self.c >= self.w:
            if self.deferred:
                self.c = self.w - 1
                self.pending = True
            else:
                self.c = 0
                self._newline()

    def feed(self, text):
        for ch in text:
            if self.esc is not None:
                self._esc(ch)
            elif ch == '\x1b':
                self.esc = ''
            elif ch == '\r':
                self.c, self.pending = 0, False
            elif ch == '\n':
                self.pending = False
                self._newline()
            elif ch == '\b':
                self.pending = False
                if self.c > 0:
                    self.c -= 1
            elif ch == '\a':
                self.bells += 1
            elif ch.isprintable():
                self.shown.append(ch)
                self._put(ch)
            else:
                self.unknown.append(repr(ch))

    def _esc(self, ch):
        if self.esc == '':
            if ch == '[':
                self.esc = '['
            else:
                self.unknown.append('ESC ' + repr(ch))
                self.esc = None
            return
        if ch.isdigit() or ch == ';':
            self.esc += ch
            return
        arg = self.esc[1:]
        self.esc = None
        n = int(arg) if arg.isdigit() else 1
        n = max(n, 1)
        if ch in 'ABCD':
            self.pending = False
            if ch == 'A':
                self.r = max(0, self.r - n)
            elif ch == 'B':
                self.r = min(self.h - 1, self.r + n)
            elif ch == 'C':
                self.c = min(self.w - 1, self.c + n)
            else:
                self.c = max(0, self.c - n)
        elif ch == 'K' and arg in ('', '0'):
            for c in range(self.c, self.w):
                self._clear_cell(self.r, c)
        elif ch == 'J' and arg in ('', '0'):
            for (r, c) in list(self.cells):
                if r > self.r or (r == self.r and c >= self.c):
                    self.cells.pop((r, c), None)
        else:
            self.unknown.append('CSI ' + arg + ch)

    # -- views --
    def settle(self):
        """resolve a pending wrap the way the editor's ' \\b' does"""
        if self.pending:
            self.pending = False
            self.c = 0
            self._newline()

    def pos(self):
        """logical cursor position (a pending wrap = start of the next row)"""
        if self.pending:
            return (self.r + self.scrolled + 1, 0)
        return (self.r + self.scrolled, self.c)

    def grid(self):
        """{(absolute row, col): char} without blanks"""
        return {(r + self.scrolled, c): v for (r, c), v in self.cells.items()
                if v not in (BLANK,)}

    def rows(self):
        g = self.grid()
        out = []
        for r in range(self.scrolled, self.scrolled + self.h):
            row = ''.join(g.get((r, c), BLANK) for c in range(self.w)
                          if g.get((r, c)) != '')
            out.append(row.rstrip())
        while out and not out[-1]:
            out.pop()
        return out


# ---------------------------------------------------------------------------
# a real server session with the line editor, a real client channel
# ---------------------------------------------------------------------------

class _Session(asyncssh.SSHServerSession):
    def __init__(self, world):
        self.world = world

    def connection_made(self, chan):
        self.world.schan = chan

    def pty_requested(self, term_type, term_size, term_modes):
        return True

    def shell_requested(self):
        return True

    def session_started(self):
        self.world.started = True

    def data_received(self, data, datatype):
        self.world.event(('data', data))

    def soft_eof_received(self):
        self.world.event(('softeof',))

    def break_received(self, msec):
        self.world.event(('break',))
        return True

    def signal_received(self, signal):
        self.world.event(('signal', signal))

    def terminal_size_changed(self, width, height, pixwidth, pixheight):
        self.world.event(('winch', width))

    def eof_received(self):
        self.world.event(('eof',))
        return True             # keep the channel open: the screen is read

    def connection_lost(self, exc):
        self.world.closed = True


class _CSession(asyncssh.SSHClientSession):
    def __init__(self, world):
        self.world = world

    def data_received(self, data, datatype):
        self.world.tty_bytes(data)

    def connection_lost(self, exc):
        self.world.cclosed = True


def _cache_printable():
    """SSHLineEditor._build_printable scans 65536 code points for every new
    session and every (un)register_key: ~25 ms.  Its result is a function of
    the first characters of the bound keys only, so the harness lets the
    real method run once per distinct set and reuses the regex."""
    from asyncssh.editor import SSHLineEditor
    orig = SSHLineEditor._build_printable
    if getattr(orig, '_x06_cached', False):
        return
    cache = {}

    def cached(self):
        key = frozenset(self._keymap.keys())
        if key not in cache:
            orig(self)
            cache[key] = self._printable
        self._printable = cache[key]
    cached._x06_cached = True
    cached._x06_orig = orig
    cached._x06_cache = cache
    SSHLineEditor._build_printable = cached


class World:
    """one client/server pair; a fresh pty session per behaviour"""

    def __init__(self, line_echo=True, history_size=10, max_line_length=0):
        _cache_printable()
        self.kw = dict(line_editor=True, line_echo=line_echo,
                       line_history=history_size,
                       max_line_length=max_line_length)
        world = self

        class Srv(NoAuthServer):
            def session_requested(self):
                return _Session(world)

        self.srv_cls = Srv
        self.pair = Pair(server_cls=Srv, server_kw=self.kw)
        self.pair.start()
        self.chan = self.schan = None

    @classmethod
    def for_consts(cls, consts):
        return cls(line_echo=str(consts['LineEcho']) == 'TRUE',
                   history_size=int(consts['HistSize']),
                   max_line_length=int(consts['MaxLen']))

    def restart(self):
        """a new connection (the old one died with a crashing session)"""
        try:
            self.pair.stop()
        except Exception:                   # pylint: disable=broad-except
            pass
        self.pair = Pair(server_cls=self.srv_cls, server_kw=self.kw)
        self.pair.start()
        self.chan = self.schan = None

    def open(self, term_type, width, height=40):
        self.events = []            # what the server session was handed
        self.raw = bytearray()      # what the client's terminal received
        self.decoded = ''
        self.started = self.closed = self.cclosed = False
        self.on_event = None        # callback(n-th event of the chunk, event)
        self.width = width
        import codecs
        self._dec = codecs.getincrementaldecoder('utf-8')('strict')
        self.terms = [Term(width, height, True), Term(width, height, False)]

        async def go():
            self.chan, _ = await self.pair.conn.create_session(
                lambda: _CSession(self), term_type=term_type,
                term_size=(width, height), encoding=None)
        self.pair.run(go())
        self.pair.loop.run_until_idle()
        assert self.started
        return self

    def event(self, ev):
        self.events.append(ev)
        if self.on_event is not None:
            self.on_event(ev)

    def tty_bytes(self, data):
        self.raw += data
        text = self._dec.decode(data)
        self.decoded += text
        for t in self.terms:
            t.feed(text)

    def editor(self):
        return self.schan._editor

    def send(self, data):
        """one write of the client = one data_received of the server channel"""
        self.pair.call(self.chan.write, data)

    def api(self, fn, *args):
        self.pair.call(fn, *args)

    def send_eof(self):
        self.pair.call(self.chan.write_eof)

    def resize(self, width, height=40):
        self.pair.call(self.chan.change_terminal_size, width, height)

    def close_session(self):
        try:
            if self.chan is not None:
                self.pair.call(self.chan.close)
        except Exception:                   # pylint: disable=broad-except
            pass
        self.chan = self.schan = None

    def exceptions(self):
        return [str(c.get('exception') or c.get('message'))
                for c in self.pair.loop.exceptions]

    def stop(self):
        self.pair.stop()


# ---------------------------------------------------------------------------
# concretisation of the model's characters and bytes
# ---------------------------------------------------------------------------

# glyphs never used by an escape sequence, a server text or set_input
NPOOL = 'abcdefghijklmnopqrstuvwxy025678'
MPOOL = [chr(0xe0 + i) for i in range(23)]          # two bytes, one column
WPOOL = [chr(0x4e00 + i) for i in range(40)]        # three bytes, two columns
LITERAL = {'!', '[', 'O', 'A', 'B', 'C', 'D', 'H', 'F', 'M', 'Z', '~', '1',
           '3', '4', '9', 'z', '+', '$', '>', '#', '='}
CTRL = {'ESC': '\x1b', 'CR': '\r', 'LF': '\n', 'DEL': '\x7f'}
MAXID = min(len(NPOOL), len(MPOOL), len(WPOOL))


def glyph(ch):
    """model character [class, id, hidden] -> concrete character"""
    cls, cid = ch[0], ch[1]
    if cls == 'n':
        return NPOOL[cid % len(NPOOL)]
    if cls == 'm':
        return MPOOL[cid % len(MPOOL)]
    if cls == 'w':
        return WPOOL[cid % len(WPOOL)]
    if cls == 'NL':
        return '\n'
    if cls in LITERAL:
        return cls
    if cls in CTRL:
        return CTRL[cls]
    if cls.startswith('^') and len(cls) == 2:
        return chr(ord(cls[1]) - 64)
    raise ValueError(f'no glyph for {ch!r}')


def text(chars):
    return ''.join(glyph(c) for c in chars)


def byte_of(tok, nid):
    """one model byte -> concrete bytes (the character typed now gets nid)"""
    if tok == 'n':
        return glyph(['n', nid]).encode()
    if tok in ('m1', 'm2'):
        return glyph(['m', nid]).encode()[int(tok[1]) - 1:int(tok[1])]
    if tok in ('w1', 'w2', 'w3'):
        return glyph(['w', nid]).encode()[int(tok[1]) - 1:int(tok[1])]
    return glyph([tok, 0]).encode()


PRINTABLE_END = {'n', 'm2', 'w3', '!', '[', 'O', 'A', 'B', 'C', 'D', 'H', 'F',
                 'M', 'Z', '~', '1', '3', '4', '9'}
HOOK_KEYS = {'tab': '\t', 'bang': '!', 'stab': '\x1b[Z'}


# ---------------------------------------------------------------------------
# replay of one behaviour
# ---------------------------------------------------------------------------

class Stop(Exception):
    pass


# tags of reported defects that /repo still has (the others were repaired:
# F35-F39; a schedule that runs into one of those is judged like any other)
OPEN_DEFECTS = {'early_wrap_bookkeeping'}


def early_wraps(start, line, width):
    """indices of the wide characters of line that do not fit into the last
    column and go to the next row as a whole (input starts at column start)"""
    col, res = start, set()
    for p, ch in enumerate(line):
        wide = ch[0] == 'w'
        if wide and col % width == width - 1:
            res.add(p)
            col += 1
        col += 2 if wide else 1
    return res


def script_tags(log, consts, final=None, term='ansi', unsplit=False):
    """defects of the pinned tree that this schedule runs into (computed
    from the schedule alone, never from what the code did): tag -> index of
    the first step from which the real code cannot follow the repaired model"""
    tags = {}
    maxlen = int(consts.get('MaxLen', 0))
    widths = [int(consts['W1']), int(consts['W2'])]
    prev = None
    raw_in_cb = False
    stale_cur = False

    def on_early_wrap(st):
        if final is None or term == 'dumb' or not st or not st['echo'] or \
                not st['lmode'] or not st['line']:
            return False
        start = 0
        for ch in final['tty'][:st['ntty']]:
            start = 0 if ch[0] == 'NL' else start + 1
        ew = early_wraps(start, st['line'], widths[st['wsel'] - 1])
        return bool(ew)

    for i, (lbl, st, ctx) in enumerate(log):
        kind = lbl[0]
        if kind == 'Api':
            a = lbl[1]
            if a == 'echo_on' and prev and prev['kill']:
                tags.setdefault('kill_survives_echo_on', i)
            if a == 'raw' and ctx == 'cb':
                raw_in_cb = True
            if a == 'raw' and prev and prev['line'] and prev['cur'] > 0:
                stale_cur = True
            if a == 'cooked' and stale_cur:
                tags.setdefault('stale_cursor_after_handover', i)
            if a == 'resize' and prev and prev['line'] and term != 'dumb' and \
                    (not prev['echo'] or prev['cur'] < len(prev['line'])):
                tags.setdefault('resize_cursor_not_at_end', i)
        elif kind in ('T', 'B'):
            if raw_in_cb:
                tags.setdefault('typeahead_after_raw_switch', i)
            if prev and prev['lmode'] and not prev['pend'] and maxlen and \
                    len(prev['line']) > maxlen and \
                    (lbl[-1] in PRINTABLE_END or lbl[-1] == '^Y'):
                # an insertion into a line that is already over the limit
                tags.setdefault('maxlen_negative_room', i)
        if kind == 'Eof' or (kind == 'Cut' and not (
                unsplit and i + 1 < len(log) and
                log[i + 1][0][0] in ('T', 'B'))):
            raw_in_cb = False
        if on_early_wrap(st):
            tags.setdefault('early_wrap_bookkeeping', i)
        prev = st
    return {t: i for t, i in tags.items() if t in OPEN_DEFECTS}


class Replay:
    def __init__(self, world, log, final, consts, deco):
        self.w = world
        self.log = log
        self.final = final
        self.consts = consts
        self.deco = deco
        self.wrap = deco.get('term', 'ansi') != 'dumb'
        self.widths = [int(consts['W1']), int(consts['W2'])]
        self.violations = []        # (clause, text, step index)
        self.divergences = []
        self.secret = set()
        self.hookcalls = []         # (key, line, pos) seen by the handlers
        self.hookexp = []
        self.lag = False            # output queued by an API call, not sent
        self.fed = 0                # tty characters given to ref
        self.nbyte = 0
        self.chunks = 0
        self.nochecks = False       # unsplit re-run: only the summary counts
        self.maxlen = int(consts.get('MaxLen', 0))
        self.allow = 0              # output bytes the chunk's keys may cost
        self.raw0 = 0
        self.work_max = 0.0         # largest output / allowance seen
        self.flagged = set()

    # ---- verdict helpers ----
    def viol(self, clause, what, i):
        self.violations.append((clause, what, i))
        raise Stop()

    def div(self, what, i):
        """the editor's private state left the model's: go on - if this
        matters the monitors will see it"""
        self.divergences.append((what, i))

    # ---- API calls ----
    def make_handler(self, key):
        def handler(line, pos):
            self.hookcalls.append((key, line, pos))
            kind = self.hooks[key]
            if kind == 'true':
                return True
            if kind == 'false':
                return False
            if kind == 'repl':
                return line + '+', pos
            return 'INT', -1
        return handler

    def do_api(self, name, i):
        ch = self.w.schan
        if name == 'echo_off':
            ch.set_echo(False)
        elif name == 'echo_on':
            ch.set_echo(True)
        elif name == 'raw':
            ch.set_line_mode(False)
        elif name == 'cooked':
            ch.set_line_mode(True)
        elif name == 'prompt':
            ch.write('$>')
        elif name == 'outln':
            ch.write('#=\n')
        elif name == 'echoback':
            ch.write(text(self.log[i - 1][1]['pshow']) + '\n')
        elif name.startswith('setinput'):
            ch.set_input('zzz', int(name[-1]))
        elif name == 'clear':
            ch.clear_input()
        elif name == 'resize':
            raise AssertionError('resize is a client action')
        elif name.startswith('reg_'):
            _, key, kind = name.split('_')
            self.hooks[key] = kind
            ch.register_key(HOOK_KEYS[key], self.make_handler(key))
        elif name.startswith('unreg_'):
            key = name.split('_')[1]
            self.hooks[key] = 'none'
            ch.unregister_key(HOOK_KEYS[key])
        else:
            raise AssertionError(name)

    # ---- expected screen ----
    def feed_tty(self, i, upto, kind):
        """commit tty[fed:upto] to the reference terminal"""
        seg = self.final['tty'][self.fed:upto]
        self.fed = upto
        if not seg:
            return
        if kind in ('enter', 'echoback') and seg[-1][0] == 'NL':
            # the line was on the screen (settled) before the line end
            for t in self.refs:
                t.feed(text(seg[:-1]))
                t.settle()
                t.feed('\r\n')
        else:
            for t in self.refs:
                t.feed(text(seg).replace('\n', '\r\n'))
                t.settle()

    def expected(self, ref, st):
        t = ref.clone()
        if st['pshow']:
            t.feed(text(st['pshow']))
            t.settle()
            return t.grid(), t.pos()
        if not st['echo'] or not st['lmode']:
            return t.grid(), t.pos()
        line, cur = st['line'], st['cur']
        t.feed(text(line[:cur]))
        t.settle()
        if cur < len(line) and line[cur][0] == 'w' and t.c == t.w - 1:
            pos = (t.r + t.scrolled + 1, 0)
        else:
            pos = t.pos()
        t.feed(text(line[cur:]))
        return t.grid(), pos

    def check_screen(self, i, st):
        if self.lag:
            return
        for real, ref in zip(self.w.terms, self.refs):
            if real.unknown:
                self.viol('ScreenMatches', f'the terminal was sent '
                          f'{real.unknown[:3]}', i)
            if self.wrap:
                grid, pos = self.expected(ref, st)
                if real.grid() != grid or real.pos() != pos:
                    self.viol('ScreenMatches',
                              f'screen {real.rows()} cursor {real.pos()} '
                              f'(terminal with {"deferred" if real.deferred else "immediate"} wrap, '
                              f'width {real.w}); expected '
                              f'{_rows(grid, real.w)} cursor {pos}: line '
                              f'{text(st["line"])!r} cursor index '
                              f'{st["cur"]} echo {st["echo"]}', i)
            else:
                self.check_window(i, st, real, ref)

    def check_window(self, i, st, real, ref):
        """no wrapping: one row shows a window line[l:r] around the cursor"""
        base = ref.clone()
        r0, c0 = base.pos()
        g = dict(real.grid())
        for k, v in base.grid().items():
            if g.get(k) != v:
                self.viol('ScreenMatches', f'committed text damaged at {k}: '
                          f'{real.rows()}', i)
            g.pop(k)
        if st['pshow']:
            shown, cur = st['pshow'], len(st['pshow'])
        elif st['echo'] and st['lmode']:
            shown, cur = st['line'], st['cur']
        else:
            shown, cur = [], 0
        if any(r != r0 or c < c0 for (r, c) in g):
            self.viol('ScreenMatches', f'input drawn outside its row: '
                      f'{real.rows()}', i)
        row = ''.join(g.get((r0, c), ' ') for c in range(c0, real.w)
                      if g.get((r0, c)) != '').rstrip()
        full = text(shown)
        ok = False
        for l in range(0, cur + 1):
            if full[l:l + len(row)] != row or l + len(row) < cur:
                continue
            width = sum(2 if is_wide(c) else 1 for c in full[l:cur])
            if real.pos() == (r0, c0 + width):
                ok = True
                break
        if not ok:
            self.viol('ScreenMatches',
                      f'row {row!r} cursor {real.pos()} (input starts at '
                      f'{(r0, c0)}, width {real.w}) is no window of the line '
                      f'{full!r} around cursor index {cur}', i)

    # ---- observations against the model ----
    def observed_out(self):
        return [list(ev) for ev in self.w.events
                if ev[0] != 'winch' and ev != ('data', '')]

    def expected_out(self, st):
        out = []
        items = self.final['out'][:st['nout']]
        for k, (kind, chars) in enumerate(items):
            if k == len(items) - 1:
                chars = chars[:st['nlast']]
            out.append([kind, text(chars)])
        return out

    def check_out(self, i, st):
        """every completed line is one data_received(line + LF); input that
        bypasses the editor / is handed over arrives in order in one or more
        calls; soft EOF, break, signal, EOF in their place"""
        got, exp = self.observed_out(), self.expected_out(st)
        j = 0
        ok = True
        for kind, s in exp:
            if kind == 'line':
                ok = j < len(got) and got[j] == ['data', s + '\n']
                j += 1
            elif kind == 'raw':
                acc = ''
                while ok and acc != s:
                    ok = j < len(got) and got[j][0] == 'data' and \
                        s.startswith(acc + got[j][1]) and got[j][1] != ''
                    if ok:
                        acc += got[j][1]
                        j += 1
            elif kind == 'signal':
                ok = j < len(got) and got[j] == ['signal', 'INT']
                j += 1
            else:
                ok = j < len(got) and got[j] == [kind]
                j += 1
            if not ok:
                break
        if not ok or j != len(got):
            self.viol('Delivered', f'the session was handed {got}; the keys '
                      f'typed so far mean {exp}', i)

    def check_state(self, i, st):
        ed = self.w.editor()
        if ed is None or self.divergences:
            return
        pending = bool(ed._line_pending)
        got = dict(line=ed._line if not pending else '', cur=ed._pos
                   if not pending else 0, kill=ed._erased,
                   nh=len(ed._history), hidx=ed._history_index,
                   echo=ed._echo, lmode=ed._line_mode)
        exp = dict(line=text(st['line']), cur=st['cur'],
                   kill=text(st['kill']), nh=st['nh'], hidx=st['hidx'],
                   echo=st['echo'], lmode=st['lmode'])
        if not st['lmode']:
            got.pop('cur'), exp.pop('cur')
        if got != exp:
            self.div(f'editor state {got}, model {exp}', i)

    def check_secret(self, i):
        new = self.w.decoded[self.seen:]
        self.seen = len(self.w.decoded)
        leaked = sorted(set(new) & self.secret)
        if leaked:
            self.viol('NoSecretShown', f'characters {leaked} typed while echo '
                      f'was off were sent to the terminal: {new!r}', i)

    def check_crash(self, i):
        exc = self.w.exceptions()
        if exc:
            self.viol('NoCrash', f'exception in the event loop: {exc[:2]}', i)

    # ---- bounded work (C10): every key redraws at most the line ----
    WORK_A, WORK_B = 32, 3

    def unit(self, *lines):
        """output bytes one key / API call may cost: a + b * terminal width
        + 2 * size of the longest line involved, a line measured as its
        UTF-8 bytes + its columns (drawn once, blanked once)"""
        def size(line):
            return sum(len(glyph(c).encode()) + (2 if c[0] == 'w' else 1)
                       for c in line)
        return self.WORK_A + self.WORK_B * self.w.terms[0].w + \
            2 * max(size(l) for l in lines)

    def soft(self, clause, what, i):
        """recorded once per replay, the walk goes on (the other monitors
        will usually fire as well)"""
        if clause not in self.flagged:
            self.flagged.add(clause)
            self.violations.append((clause, what, i))

    def check_work(self, i, st):
        out = len(self.w.raw) - self.raw0
        self.raw0 = len(self.w.raw)
        allow, self.allow = self.allow, 0
        if allow:
            self.work_max = max(self.work_max, out / allow)
        if out > allow:
            self.soft('WorkBounded', f'{out} bytes were written to the '
                      f'terminal for input that may cost {allow} '
                      f'({self.WORK_A} + {self.WORK_B} * width + 2 * (bytes + '
                      f'columns of the line) per key / call; the model\'s '
                      f'line has '
                      f'{len(st["line"])} characters)', i)
        ed = self.w.editor()
        if ed is not None and self.maxlen:
            for what, val in (('input line', ed._line),
                              ('kill buffer', ed._erased)):
                if len(val) > st['cap']:
                    self.soft('LineBounded', f'the {what} has {len(val)} '
                              f'characters; max_line_length is {self.maxlen}'
                              f', the longest line the application set '
                              f'{st["cap"]}', i)

    def checkpoint(self, i, st, bells=None):
        self.check_crash(i)
        if self.nochecks:
            return
        self.check_work(i, st)
        if self.flagged:
            # the editor has left the model (line over the limit): only the
            # work monitors go on, to see what the input costs from here
            return
        self.check_secret(i)
        if bells is not None:
            for t in self.w.terms[:1]:
                if t.bells - self.bells0 != bells:
                    self.viol('BellOnIllegal', f'{t.bells - self.bells0} '
                              f'bell(s) in a chunk where the model rings '
                              f'{bells}', i)
        self.bells0 = self.w.terms[0].bells
        self.check_out(i, st)
        if self.hookcalls != self.hookexp:
            self.viol('HookArguments', f'key handlers were called with '
                      f'{self.hookcalls}, expected {self.hookexp}', i)
        self.check_screen(i, st)
        self.check_state(i, st)

    # ---- the walk ----
    def run(self, unsplit=False, percut=False):
        """percut: every byte is a chunk of its own (the monitors see the
        editor after every key)"""
        self.percut = percut
        w = self.w
        width = self.widths[0]
        try:
            w.open(self.deco.get('term', 'ansi'), width)
        except Exception:                   # pylint: disable=broad-except
            w.restart()
            w.open(self.deco.get('term', 'ansi'), width)
        self.refs = [Term(width, 40, True), Term(width, 40, False)]
        self.hooks = {'tab': 'none', 'bang': 'none', 'stab': 'none'}
        self.seen = 0
        self.bells0 = 0
        try:
            self._walk(unsplit)
        except Stop:
            pass
        except Exception as exc:            # pylint: disable=broad-except
            import traceback
            self.violations.append(
                ('NoCrash', f'{type(exc).__name__}: {exc} '
                 f'{traceback.format_exc()[-600:]}', -1))
        finally:
            self.summary = dict(out=_merged(self.observed_out()),
                                rows=w.terms[0].rows(), pos=w.terms[0].pos())
            w.close_session()
            w.pair.loop.exceptions.clear()
        return self

    def _walk(self, unsplit):
        w, log = self.w, self.log
        chunk = bytearray()
        plan = {}               # n-th callback of the chunk -> [(name, i)]
        ncb = 0
        bell = 0
        prev = dict(line=[], cur=0, kill=[], echo=True, lmode=True, nid=1,
                    pshow=[], ntty=0, nout=0, pend=[], hook={})
        n = len(log)

        def send_chunk(i, st):
            nonlocal chunk, plan, ncb, bell
            if not chunk:
                return
            seen = [0]

            def on_event(ev):
                if ev[0] == 'winch':
                    return
                seen[0] += 1
                for name, j in plan.get(seen[0], ()):
                    self.do_api(name, j)
            w.on_event = on_event
            w.send(bytes(chunk))
            w.on_event = None
            self.chunks += 1
            if self.chunk_lmode:
                self.lag = False
            elif any(nm in ('prompt', 'outln', 'echoback')
                     for v in plan.values() for nm, _ in v):
                self.lag = False
            chunk = bytearray()
            plan = {}
            ncb = 0
            b, bell = bell, 0
            self.checkpoint(i, st, bells=1 if b else 0)

        self.chunk_lmode = True
        i = 0
        while i < n:
            lbl, st, ctx = log[i]
            kind = lbl[0]
            if kind in ('T', 'B'):
                if self.percut:
                    send_chunk(i - 1, prev)
                if not chunk:
                    self.chunk_lmode = prev['lmode']
                tok = lbl[-1]
                self.allow += self.unit(prev['line'], st['line'],
                                        prev['kill'])
                chunk += byte_of(tok, prev['nid'])
                self.nbyte += 1
                if tok in ('n', 'm2', 'w3') and prev['lmode'] and \
                        not prev['echo'] and st['nid'] > prev['nid']:
                    # (a character swallowed by an unfinished escape
                    # sequence never gets a glyph of its own)
                    self.secret.add(glyph([tok[0], prev['nid']]))
                if st['cb']:
                    ncb += 1
                if st['bell']:
                    bell = 1
                self._hook_expect(lbl, prev, st)
                self.feed_tty(i, st['ntty'], 'enter')
            elif kind == 'Cut':
                nxt = log[i + 1][0][0] if i + 1 < n else 'Eof'
                if unsplit and nxt in ('T', 'B'):
                    pass            # the chunk goes on
                else:
                    send_chunk(i, st)
            elif kind == 'Api':
                name = lbl[1]
                if name == 'echo_on':
                    self.secret -= {glyph(c) for c in prev['line']}
                # (what a call between two chunks queues is sent with the
                # next chunk)
                self.allow += self.unit(prev['line'], st['line'],
                                        prev['pshow']) + 8
                if ctx == 'cb' and chunk:
                    plan.setdefault(ncb, []).append((name, i))
                    self.feed_tty(i, st['ntty'], name)
                else:
                    send_chunk(i, prev)
                    if name == 'resize':
                        width = self.widths[st['wsel'] - 1]
                        for t in self.w.terms + self.refs:
                            t.w = width
                        w.resize(width)
                        self.lag = True
                    else:
                        w.api(self.do_api, name, i)
                        self.lag = name not in ('prompt', 'outln', 'echoback')
                    self.feed_tty(i, st['ntty'], name)
                    self.checkpoint(i, st)
            elif kind == 'Eof':
                send_chunk(i, prev)
                w.send_eof()
                self.lag = True     # the erased input is not sent any more
                self.checkpoint(i, st)
                ed = w.editor()
                hist = [text(h) for h in self.final['hist']]
                if ed is not None and not self.divergences and \
                        not self.nochecks and list(ed._history) != hist:
                    self.div(f'history {ed._history}, model {hist}', i)
            prev = st
            i += 1
        if chunk:
            send_chunk(n - 1, prev)

    def _hook_expect(self, lbl, prev, st):
        """a hook key completed by this byte: the handler must be called with
        the line and cursor of the state before"""
        seq = list(prev['pend']) + [lbl[-1]]
        for key, toks in (('tab', ['^I']), ('bang', ['!']),
                          ('stab', ['ESC', '[', 'Z'])):
            if seq == toks and prev['hook'].get(key, 'none') != 'none' and \
                    prev['lmode']:
                self.hookexp.append((key, text(prev['line']), prev['cur']))


def _merged(events):
    """consecutive data_received payloads as one (chunking of input that
    bypasses the editor follows the chunking of the input)"""
    out = []
    for ev in events:
        if ev[0] == 'data' and out and out[-1][0] == 'data':
            out[-1] = ['data', out[-1][1] + ev[1]]
        else:
            out.append(list(ev))
    return out


def _rows(grid, width):
    if not grid:
        return []
    rows = []
    for r in range(min(k[0] for k in grid), max(k[0] for k in grid) + 1):
        rows.append(''.join(grid.get((r, c), ' ') for c in range(width)
                            if grid.get((r, c)) != '').rstrip())
    return rows
