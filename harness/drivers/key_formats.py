"""Driver for specs/KeyFormats: executes the cases TLC enumerates on real keys.

  table rows   -> key.export_private_key / export_public_key with the row's
                  format, cipher, hash, PBE version, passphrase; then
                  import_private_key / import_public_key with no / the right /
                  a wrong passphrase; observed outcome class + round-trip
                  equality (SSHKey ==, public_data, comment)
  scanner rows -> a real file assembled from pre-exported blocks (PEM, DER,
                  OpenSSH lines, RFC 4716 blocks, comments, blanks, junk,
                  unterminated blocks) with LF/CRLF -> read_*_key_list
  chain rows   -> export -> import -> re-export -> import -> convert_to_public
                  ... step by step, comparing after every step
  interop      -> PyCA `cryptography` and ssh-keygen as independent readers
                  and writers of keys and certificates
"""

import binascii
import os
import shutil
import signal
import struct
import subprocess
import tempfile
import warnings

import asyncssh
from asyncssh.public_key import _bcrypt_available as BCRYPT

warnings.filterwarnings('ignore', message='.*TripleDES.*')
warnings.filterwarnings('ignore', message='.*DSA.*')
warnings.filterwarnings('ignore', message='.*ARC4.*')
warnings.filterwarnings('ignore', message='.*Blowfish.*')
warnings.filterwarnings('ignore', message='.*CAST5.*')
warnings.filterwarnings('ignore', category=DeprecationWarning)
try:
    from cryptography.utils import CryptographyDeprecationWarning
    warnings.filterwarnings('ignore', category=CryptographyDeprecationWarning)
except ImportError:         # pragma: no cover
    pass

KT_ALG = {'rsa': ('ssh-rsa', {'key_size': 2048}),
          'rsa3072': ('ssh-rsa', {'key_size': 3072}),
          'dsa': ('ssh-dss', {}),
          'ec256': ('ecdsa-sha2-nistp256', {}),
          'ec384': ('ecdsa-sha2-nistp384', {}),
          'ec521': ('ecdsa-sha2-nistp521', {}),
          'ed25519': ('ssh-ed25519', {}),
          'ed448': ('ssh-ed448', {})}

COMMENTS = {'none': None,
            'ascii': b'user@host.example',
            'utf8': 'Zoë Łukasz 鍵'.encode('utf-8'),
            'spaces': b'my key  with   spaces (work laptop) "q" a:b \\',
            'nonutf8': b'caf\xe9 \xff\xfe\x80 key',
            'edgews': b'  padded comment \t',
            'long': b' '.join(b'word%03d' % i for i in range(40))}

PASS_RIGHT = ['right-pw', b'right-bytes-pw', 'pässwörd-ü']
PASS_WRONG = ['wrong-pw', b'right-bytes-pX', 'pässwörd-u']

_pool = {}
_extra = {}


def key(kt, n=0):
    """The n-th private key of type kt (generated once per process)."""
    if (kt, n) not in _pool:
        alg, kw = KT_ALG[kt]
        _pool[kt, n] = asyncssh.generate_private_key(alg, **kw)
    return _pool[kt, n]


def available_kts():
    out = []
    for kt in ('rsa', 'dsa', 'ec256', 'ec384', 'ec521', 'ed25519', 'ed448'):
        try:
            key(kt)
            out.append(kt)
        except (asyncssh.KeyGenerationError, ValueError):
            pass
    return out


def S(b):
    if isinstance(b, str):
        b = b.encode()
    return struct.pack('>I', len(b)) + b


def sk_public(kt):
    """Public half of a security-key key, built from a fresh ordinary key."""
    if kt not in _extra:
        if kt == 'sk-ed25519':
            base = key('ed25519', 9)
            alg = b'sk-ssh-ed25519@openssh.com'
            pd = base.public_data
            n = struct.unpack('>I', pd[:4])[0]
            blob = S(alg) + pd[4 + n:] + S('ssh:')
        else:
            base = key('ec256', 9)
            alg = b'sk-ecdsa-sha2-nistp256@openssh.com'
            pd = base.public_data
            n = struct.unpack('>I', pd[:4])[0]
            blob = S(alg) + pd[4 + n:] + S('ssh:verif')
        line = alg + b' ' + binascii.b2a_base64(blob)[:-1] + b'\n'
        _extra[kt] = (asyncssh.import_public_key(line), blob)
    return _extra[kt][0]


_copies = {}


def cached_copy(k, comment):
    """Like copy_with_comment, one shared object per (key, comment); the
    callers never modify it."""
    ck = (id(k), comment)
    if ck not in _copies:
        _copies[ck] = (k, copy_with_comment(k, comment))
    return _copies[ck][1]


def copy_with_comment(k, comment):
    """An independent SSHKey object for the same key with `comment`."""
    if k.algorithm.startswith(b'sk-'):
        c = asyncssh.import_public_key(k.export_public_key('openssh'))
    else:
        try:
            c = asyncssh.import_private_key(
                k.export_private_key('openssh'),
                unsafe_skip_rsa_key_validation=True)
        except asyncssh.KeyExportError:
            c = asyncssh.import_public_key(k.export_public_key('openssh'))
    c.set_comment(comment)
    return c


def cls_name(exc):
    return type(exc).__name__


class Hung(Exception):
    pass


def with_alarm(seconds, fn, *args, **kw):
    """Run fn; raise Hung if it does not return within `seconds`."""
    def handler(signum, frame):
        raise Hung()
    old = signal.signal(signal.SIGALRM, handler)
    signal.setitimer(signal.ITIMER_REAL, seconds)
    try:
        return fn(*args, **kw)
    finally:
        signal.setitimer(signal.ITIMER_REAL, 0)
        signal.signal(signal.SIGALRM, old)


# --------------------------------------------------------------------------
# outcome tables
# --------------------------------------------------------------------------

def imp_priv(data, passphrase, full_validation=False):
    return asyncssh.import_private_key(
        data, passphrase,
        unsafe_skip_rsa_key_validation=None if full_validation else True)


def run_priv_row(row, idx, full_validation=False, kt_override=None):
    """-> dict(export=class, data=bytes|None, imports={ipass: (class, key)})"""
    kt = kt_override or row['kt']
    k = cached_copy(key(kt), COMMENTS['ascii'])
    pw = PASS_RIGHT[idx % len(PASS_RIGHT)]
    wrong = PASS_WRONG[idx % len(PASS_RIGHT)]
    out = {'export': None, 'data': None, 'orig': k, 'pw': pw}
    try:
        data = k.export_private_key(row['fmt'], pw if row['pass'] else None,
                                    row['cipher'], row['hash'], row['pbe'])
        out['export'] = 'ok'
        out['data'] = data
    except Exception as exc:            # pylint: disable=broad-except
        out['export'] = cls_name(exc)
        out['export_msg'] = str(exc)
        return out
    ip = {'none': None, 'right': pw, 'wrong': wrong}[row['ipass']]
    try:
        k2 = imp_priv(data, ip, full_validation)
        out['import'] = 'ok'
        out['key'] = k2
    except Exception as exc:            # pylint: disable=broad-except
        out['import'] = cls_name(exc)
        out['import_exc'] = exc
    return out


def pub_key_for(kt):
    if kt.startswith('sk-'):
        return sk_public(kt)
    return key(kt).convert_to_public()


def run_pub_row(row, cmt_cls='ascii'):
    k = cached_copy(pub_key_for(row['kt']), COMMENTS[cmt_cls])
    out = {'orig': k}
    try:
        data = k.export_public_key(row['fmt'])
        out['export'] = 'ok'
        out['data'] = data
    except Exception as exc:            # pylint: disable=broad-except
        out['export'] = cls_name(exc)
        return out
    try:
        out['key'] = asyncssh.import_public_key(data)
        out['import'] = 'ok'
    except Exception as exc:            # pylint: disable=broad-except
        out['import'] = cls_name(exc)
    return out


def same_private(a, b):
    return a == b and a.public_data == b.public_data and \
        a.private_data == b.private_data


def same_public(a, b):
    return a.public_data == b.public_data


# --------------------------------------------------------------------------
# scanner
# --------------------------------------------------------------------------

SCAN_PW = 'list-passphrase'
_JUNK = [b'this is not a key', b'junkword', b'command="x" no-pty thing here',
         b'Proc-Type: 4,ENCRYPTED', b'MIIBVQIBADANBgkqhkiG9w0BAQEFAASCAT8w']
_COMMENT = [b'# a comment line', b'#ssh-rsa AAAA', b'# -----BEGIN nothing']


class BlockMaker:
    """Concrete bytes for abstract blocks.  Block i of a file uses key slot
    i (distinct keys per position) so order and identity are observable."""

    def __init__(self, kts):
        # rsa is slow to import; dsa is reserved for the unterminated blocks
        # so that their PEM type never matches the footer of a later block
        self.kts = [k for k in kts if k not in ('rsa', 'dsa')]
        self.unterm_kt = 'dsa' if 'dsa' in kts else 'rsa'
        self.cache = {}

    def kt_at(self, pos, salt):
        return self.kts[(pos + salt) % len(self.kts)]

    def make(self, kind, pos, salt, public_list):
        """-> (bytes with LF line ends or raw DER, expected (kt, slot,
        comment) or None)"""
        ck = (kind, pos, salt % 7, public_list)
        if ck in self.cache:
            return self.cache[ck]
        kt = self.kt_at(pos, salt)
        slot = 10 + pos
        k = key(kt, slot)
        cm = [b'c%d@pos' % pos, 'clé %d'.encode() % pos,
              b'two words %d' % pos][salt % 3]
        exp = None
        if kind == 'pem':
            fmts = ['openssh', 'pkcs8-pem'] + \
                (['pkcs1-pem'] if kt in ('rsa', 'dsa', 'ec256', 'ec384',
                                         'ec521') else [])
            fmt = fmts[salt % len(fmts)]
            kk = copy_with_comment(k, cm)
            data = kk.export_private_key(fmt)
            exp = (kt, slot, cm if fmt == 'openssh' else None, True)
        elif kind == 'pemenc':
            fmts = ['pkcs8-pem'] + \
                (['pkcs1-pem'] if kt in ('rsa', 'dsa', 'ec256', 'ec384',
                                         'ec521') else [])
            fmt = fmts[salt % len(fmts)]
            data = k.export_private_key(fmt, SCAN_PW)
            exp = (kt, slot, None, True)
        elif kind == 'der':
            if public_list:
                data = k.export_public_key('pkcs8-der')
                exp = (kt, slot, None, False)
            else:
                fmt = 'pkcs1-der' if kt in ('ec256', 'ec384', 'ec521') \
                    and salt % 2 else 'pkcs8-der'
                data = k.export_private_key(fmt)
                exp = (kt, slot, None, True)
        elif kind == 'comment':
            data = _COMMENT[salt % len(_COMMENT)] + b'\n'
        elif kind == 'blank':
            data = [b'\n', b'   \n', b'\t\n'][salt % 3]
        elif kind == 'junk':
            data = _JUNK[salt % len(_JUNK)] + b'\n'
        elif kind == 'pubblock':        # public material inside a private list
            kk = copy_with_comment(k.convert_to_public(), cm)
            data = kk.export_public_key(['openssh', 'pkcs8-pem',
                                         'rfc4716'][salt % 3])
        elif kind == 'unterm':
            data = key(self.unterm_kt, slot).export_private_key('pkcs1-pem')
            data = data[:data.rindex(b'-----END')]
        elif kind == 'ossh':
            kk = copy_with_comment(k.convert_to_public(), cm)
            data = kk.export_public_key('openssh')
            exp = (kt, slot, cm, False)
        elif kind == 'rfc':
            kk = copy_with_comment(k.convert_to_public(), cm)
            data = kk.export_public_key('rfc4716')
            exp = (kt, slot, cm, False)
        elif kind == 'pempub':
            data = k.convert_to_public().export_public_key('pkcs8-pem')
            exp = (kt, slot, None, False)
        elif kind == 'badkey':
            data = [b'ssh-rsa AAAAB3NzaC1yc2EAAAADAQAB junk@x\n',
                    b'ssh-ed25519 AAAAC3NzaC1lZDI1NTE5AAAAIA== short\n',
                    b'ecdsa-sha2-nistp256 AAAA\n'][salt % 3]
        elif kind == 'untermpem':
            data = key(self.unterm_kt, slot).convert_to_public() \
                .export_public_key('pkcs1-pem')
            data = data[:data.rindex(b'-----END')]
        elif kind == 'untermrfc':
            data = k.convert_to_public().export_public_key('rfc4716')
            data = data[:data.rindex(b'---- END')]
        elif kind == 'privpem':
            fmt = ['openssh', 'pkcs8-pem'][salt % 2]
            kk = copy_with_comment(k, cm)
            data = kk.export_private_key(fmt)
            # OpenSSH-format: only the public blob is read (no comment)
            exp = (kt, slot, None, False)
        else:
            raise ValueError(kind)
        self.cache[ck] = (data, exp)
        return data, exp


def build_file(bm, row, salt, public_list):
    """-> (bytes, [expected per block or None])"""
    parts = []
    exps = []
    for pos, kind in enumerate(row['blocks']):
        data, exp = bm.make(kind, pos, salt, public_list)
        if kind != 'der' and row['eol'] == 'crlf':
            data = data.replace(b'\n', b'\r\n')
        parts.append(data)
        exps.append(exp)
    if not row['finalnl'] and row['blocks'] and row['blocks'][-1] != 'der':
        # no line end after the last text block (never touch DER bytes)
        parts[-1] = parts[-1].rstrip(b'\r\n')
    return b''.join(parts), exps


_mem_files = {}
_orig_read_file = asyncssh.public_key.read_file


def _read_file(filename, mode='rb'):
    if filename in _mem_files:
        data = _mem_files[filename]
        return data if 'b' in mode else data.decode()
    return _orig_read_file(filename, mode)


def run_scan(path, blob, public_list, passphrase, real_file=True):
    """read_*_key_list on `blob`: through a real file, or (for speed: opening
    files is the dominant cost here) with asyncssh.public_key.read_file
    answering from memory for this one path."""
    if real_file:
        with open(path, 'wb') as f:
            f.write(blob)
    else:
        _mem_files[path] = blob
        asyncssh.public_key.read_file = _read_file
    try:
        return _run_scan(path, public_list, passphrase)
    finally:
        _mem_files.pop(path, None)
        asyncssh.public_key.read_file = _orig_read_file


def _run_scan(path, public_list, passphrase):
    try:
        if public_list:
            keys = with_alarm(5, asyncssh.read_public_key_list, path)
        else:
            keys = with_alarm(
                5, asyncssh.read_private_key_list, path, passphrase,
                unsafe_skip_rsa_key_validation=True)
        return 'ok', list(keys)
    except Hung:
        return 'hung', []
    except Exception as exc:            # pylint: disable=broad-except
        return cls_name(exc), []


# --------------------------------------------------------------------------
# chains
# --------------------------------------------------------------------------

CHAIN_PW = 'chain-pw'


class ChainRunner:
    def __init__(self):
        self.cache = {}

    def run(self, kt, cmt_cls, hist, on_step):
        """Replay hist (list of [action, fmt, enc, priv, cmt]); calls
        on_step(i, step, value, orig, fresh) for every executed step; shares
        prefixes between chains."""
        orig = cached_copy(key(kt), COMMENTS[cmt_cls])
        cur = orig
        prefix = (kt, cmt_cls)
        for i, step in enumerate(hist):
            prefix = prefix + (tuple(step[:3]),)
            if prefix in self.cache:
                cur = self.cache[prefix]
                if isinstance(cur, Exception):
                    return
                continue
            action, fmt, enc = step[0], step[1], step[2]
            try:
                if action == 'export_private':
                    nxt = cur.export_private_key(
                        fmt, CHAIN_PW if enc else None)
                elif action == 'export_public':
                    nxt = cur.export_public_key(fmt)
                elif action == 'convert_to_public':
                    nxt = cur.convert_to_public()
                elif action == 'import_private':
                    nxt = imp_priv(cur, CHAIN_PW if enc else None)
                elif action in ('import_public', 'import_public_from_private'):
                    nxt = asyncssh.import_public_key(cur)
                else:
                    raise ValueError(action)
            except Exception as exc:    # pylint: disable=broad-except
                self.cache[prefix] = exc
                on_step(i, step, exc, orig)
                return
            self.cache[prefix] = nxt
            on_step(i, step, nxt, orig)
            cur = nxt


# --------------------------------------------------------------------------
# independent readers / writers
# --------------------------------------------------------------------------

SSH_KEYGEN = shutil.which('ssh-keygen')


class Scratch:
    def __init__(self, workroot, prefix):
        os.makedirs(workroot, exist_ok=True)
        self.dir = tempfile.mkdtemp(prefix=prefix, dir=workroot)

    def path(self, name):
        return os.path.join(self.dir, name)

    def write(self, name, data, mode=0o600):
        p = self.path(name)
        with open(p, 'wb') as f:
            f.write(data if isinstance(data, bytes) else data.encode())
        os.chmod(p, mode)
        return p

    def close(self):
        shutil.rmtree(self.dir, ignore_errors=True)


def pyca_private_der(pk):
    from cryptography.hazmat.primitives import serialization as ser
    return pk.private_bytes(ser.Encoding.DER, ser.PrivateFormat.PKCS8,
                            ser.NoEncryption())


def pyca_public_der(pk):
    from cryptography.hazmat.primitives import serialization as ser
    return pk.public_bytes(ser.Encoding.DER,
                           ser.PublicFormat.SubjectPublicKeyInfo)


# (format, cipher, hash, pbe) PyCA is known to read (probed independently of
# asyncssh: PBES2 with AES, PKCS#12 3DES, PBES1 MD5-DES, legacy PEM AES/3DES)
def pyca_must_read(fmt, enc):
    if enc is None:
        return True
    cipher, hash_name, pbe = enc
    if fmt == 'pkcs1-pem':
        return cipher in ('aes128-cbc', 'aes256-cbc', 'des3-cbc')
    if fmt in ('pkcs8-pem', 'pkcs8-der'):
        if pbe == 2:
            return cipher in ('aes128-cbc', 'aes192-cbc', 'aes256-cbc') and \
                hash_name in ('sha1', 'sha224', 'sha256', 'sha384', 'sha512')
        return (cipher, hash_name) in (('des3-cbc', 'sha1'),)
    return False


def keygen_must_read(fmt, enc):
    if fmt in ('pkcs1-der', 'pkcs8-der'):
        return False
    if enc is None:
        return True
    cipher, hash_name, pbe = enc
    if fmt == 'pkcs1-pem':
        return cipher in ('aes128-cbc', 'aes192-cbc', 'aes256-cbc',
                          'des3-cbc')
    if fmt == 'pkcs8-pem':
        return pbe == 2 and cipher in ('aes128-cbc', 'aes192-cbc',
                                       'aes256-cbc', 'des3-cbc')
    return False


def pyca_load_private(data, fmt, password):
    from cryptography.hazmat.primitives import serialization as ser
    if fmt == 'openssh':
        return ser.load_ssh_private_key(data, password)
    if fmt.endswith('-der'):
        return ser.load_der_private_key(data, password)
    return ser.load_pem_private_key(data, password)


def pyca_load_public(data, fmt):
    from cryptography.hazmat.primitives import serialization as ser
    if fmt == 'openssh':
        return ser.load_ssh_public_key(data)
    if fmt.endswith('-der'):
        return ser.load_der_public_key(data)
    if fmt.endswith('-pem'):
        return ser.load_pem_public_key(data)
    raise ValueError(fmt)


def pyca_supports_ssh(kt):
    """Does PyCA's own OpenSSH serialisation support this key type?  (Asked
    of PyCA with a PyCA-made key, independent of asyncssh.)"""
    from cryptography.hazmat.primitives import serialization as ser
    try:
        pk = key(kt).pyca_key
        pk.public_key().public_bytes(ser.Encoding.OpenSSH,
                                     ser.PublicFormat.OpenSSH)
        return True
    except Exception:                   # pylint: disable=broad-except
        return False


def pyca_write_private(pk, fmt, password):
    from cryptography.hazmat.primitives import serialization as ser
    enc = ser.BestAvailableEncryption(password) if password else \
        ser.NoEncryption()
    f = {'openssh': (ser.Encoding.PEM, ser.PrivateFormat.OpenSSH),
         'pkcs8-pem': (ser.Encoding.PEM, ser.PrivateFormat.PKCS8),
         'pkcs8-der': (ser.Encoding.DER, ser.PrivateFormat.PKCS8),
         'pkcs1-pem': (ser.Encoding.PEM, ser.PrivateFormat.TraditionalOpenSSL),
         'pkcs1-der': (ser.Encoding.DER, ser.PrivateFormat.TraditionalOpenSSL)
         }[fmt]
    return pk.private_bytes(f[0], f[1], enc)


def pyca_write_public(pk, fmt):
    from cryptography.hazmat.primitives import serialization as ser
    f = {'openssh': (ser.Encoding.OpenSSH, ser.PublicFormat.OpenSSH),
         'pkcs8-pem': (ser.Encoding.PEM, ser.PublicFormat.SubjectPublicKeyInfo),
         'pkcs8-der': (ser.Encoding.DER, ser.PublicFormat.SubjectPublicKeyInfo),
         'pkcs1-pem': (ser.Encoding.PEM, ser.PublicFormat.PKCS1),
         'pkcs1-der': (ser.Encoding.DER, ser.PublicFormat.PKCS1)}[fmt]
    return pk.public_key().public_bytes(f[0], f[1])


def keygen(args, stdin=None):
    for timeout in (60, 600):           # a loaded machine: retry once, long
        try:
            p = subprocess.run([SSH_KEYGEN] + args, input=stdin,
                               stdout=subprocess.PIPE, stderr=subprocess.PIPE,
                               timeout=timeout)
            return p.returncode, p.stdout, p.stderr
        except subprocess.TimeoutExpired:
            if timeout == 600:
                raise
    raise AssertionError


def blob_of_line(line):
    """base64 blob token of an OpenSSH public key line."""
    parts = line.split(None, 2)
    return binascii.a2b_base64(parts[1]), \
        (parts[2].rstrip(b'\r\n') if len(parts) > 2 else None)


def keygen_supports(kt):
    return kt not in ('ed448',)


_kg_cap = {}


def keygen_reads_pyca(scr, kt, fmt, public=False):
    """Can the installed ssh-keygen read this key type in this format at all?
    Asked with a file written by PyCA (independent of asyncssh)."""
    ck = (kt, fmt, public)
    if ck in _kg_cap:
        return _kg_cap[ck]
    ok = False
    try:
        pk = key(kt).pyca_key
        if public:
            f = scr.write('cap.pub', pyca_write_public(pk, fmt), 0o644)
            m = {'pkcs8-pem': 'PKCS8', 'pkcs1-pem': 'PEM'}[fmt]
            ok = keygen(['-i', '-m', m, '-f', f])[0] == 0
        else:
            f = scr.write('cap_key', pyca_write_private(pk, fmt, None))
            ok = keygen(['-y', '-P', '', '-f', f])[0] == 0
    except Exception:                   # pylint: disable=broad-except
        ok = False
    _kg_cap[ck] = ok
    return ok


# --------------------------------------------------------------------------
# openssl CLI as a third independent reader / writer (all legacy ciphers)
# --------------------------------------------------------------------------

OPENSSL = shutil.which('openssl')
_ossl = {}


def openssl_legacy():
    """['-provider', 'legacy', '-provider', 'default'] if the legacy provider
    (DES, RC4, Blowfish, CAST5, MD5-based PBE) can be loaded, else []."""
    if 'leg' not in _ossl:
        leg = ['-provider', 'legacy', '-provider', 'default']
        ok = False
        if OPENSSL:
            try:
                p = subprocess.run([OPENSSL, 'list', '-providers'] + leg,
                                   stdout=subprocess.PIPE,
                                   stderr=subprocess.PIPE, timeout=60)
                ok = p.returncode == 0 and b'legacy' in p.stdout
            except (OSError, subprocess.TimeoutExpired):
                ok = False
        _ossl['leg'] = leg if ok else []
    return _ossl['leg']


def openssl(args, stdin=None):
    for timeout in (60, 600):
        try:
            p = subprocess.run([OPENSSL] + args + openssl_legacy(),
                               input=stdin, stdout=subprocess.PIPE,
                               stderr=subprocess.PIPE, timeout=timeout)
            return p.returncode, p.stdout, p.stderr
        except subprocess.TimeoutExpired:
            if timeout == 600:
                raise
    raise AssertionError


def openssl_must_read(fmt, enc):
    if enc is None or openssl_legacy():
        return True
    return enc[0] in ('aes128-cbc', 'aes192-cbc', 'aes256-cbc', 'des3-cbc',
                      'des2-cbc') and not (enc[2] == 1 and enc[1] == 'md5')


def openssl_public_der(scr, data, fmt, pw):
    """SubjectPublicKeyInfo DER of the private key in `data` as read by
    openssl, or None if openssl cannot read / decrypt it."""
    f = scr.write('ossl_in', data)
    args = ['pkey', '-in', f, '-pubout', '-outform', 'DER']
    if fmt.endswith('-der'):
        args += ['-inform', 'DER']
    args += ['-passin', 'pass:' + (pw if pw is not None else '')]
    rc, out, _ = openssl(args)
    return out if rc == 0 and out else None


OSSL_V1 = {('des3-cbc', 'sha1'): 'PBE-SHA1-3DES',
           ('des2-cbc', 'sha1'): 'PBE-SHA1-2DES',
           ('rc4-128', 'sha1'): 'PBE-SHA1-RC4-128',
           ('rc4-40', 'sha1'): 'PBE-SHA1-RC4-40',
           ('des-cbc', 'md5'): 'PBE-MD5-DES',
           ('des-cbc', 'sha1'): 'PBE-SHA1-DES'}
OSSL_CIPHER = {'aes128-cbc': 'aes-128-cbc', 'aes192-cbc': 'aes-192-cbc',
               'aes256-cbc': 'aes-256-cbc', 'des3-cbc': 'des-ede3-cbc',
               'des-cbc': 'des-cbc', 'blowfish-cbc': 'bf-cbc',
               'cast128-cbc': 'cast5-cbc'}
OSSL_PRF = {'sha1': 'hmacWithSHA1', 'sha224': 'hmacWithSHA224',
            'sha256': 'hmacWithSHA256', 'sha384': 'hmacWithSHA384',
            'sha512': 'hmacWithSHA512'}


def openssl_write_private(scr, k, fmt, enc, pw):
    """The key `k` written by openssl in (fmt, enc) under passphrase pw, or
    None if this openssl cannot produce it."""
    clear = scr.write('ossl_clear', pyca_write_private(k.pyca_key,
                                                       'pkcs8-pem', None))
    out = scr.path('ossl_out')
    if os.path.exists(out):
        os.remove(out)
    cipher, hash_name, pbe = enc
    if fmt == 'pkcs1-pem':
        args = ['pkey', '-in', clear, '-traditional', '-out', out,
                '-' + OSSL_CIPHER[cipher], '-passout', 'pass:' + pw]
    else:
        args = ['pkcs8', '-topk8', '-in', clear, '-out', out,
                '-passout', 'pass:' + pw]
        if fmt == 'pkcs8-der':
            args += ['-outform', 'DER']
        if pbe == 1:
            args += ['-v1', OSSL_V1[cipher, hash_name]]
        else:
            args += ['-v2', OSSL_CIPHER[cipher], '-v2prf',
                     OSSL_PRF[hash_name]]
    rc, _, _ = openssl(args)
    if rc != 0 or not os.path.exists(out):
        return None
    with open(out, 'rb') as f:
        return f.read()


# one representative per key-derivation family
KDF_FAMILIES = [
    ('PEM legacy MD5 KDF / aes128', 'pkcs1-pem', ('aes128-cbc', 'sha256', 2)),
    ('PEM legacy MD5 KDF / des3', 'pkcs1-pem', ('des3-cbc', 'sha256', 2)),
    ('PBES1 PBKDF1-MD5 / des', 'pkcs8-pem', ('des-cbc', 'md5', 1)),
    ('PBES1 PBKDF1-SHA1 / des', 'pkcs8-der', ('des-cbc', 'sha1', 1)),
    ('PKCS#12 KDF / des3', 'pkcs8-pem', ('des3-cbc', 'sha1', 1)),
    ('PKCS#12 KDF / des2', 'pkcs8-der', ('des2-cbc', 'sha1', 1)),
    ('PKCS#12 KDF / rc4-128', 'pkcs8-pem', ('rc4-128', 'sha1', 1)),
    ('PKCS#12 KDF / rc4-40', 'pkcs8-pem', ('rc4-40', 'sha1', 1)),
    ('PBKDF2-SHA1 / aes128', 'pkcs8-der', ('aes128-cbc', 'sha1', 2)),
    ('PBKDF2-SHA256 / aes256', 'pkcs8-pem', ('aes256-cbc', 'sha256', 2)),
    ('PBKDF2-SHA512 / aes192', 'pkcs8-pem', ('aes192-cbc', 'sha512', 2)),
    ('PBKDF2-SHA384 / des3', 'pkcs8-pem', ('des3-cbc', 'sha384', 2)),
    ('PBKDF2-SHA224 / blowfish', 'pkcs8-pem', ('blowfish-cbc', 'sha224', 2)),
]
if BCRYPT:
    KDF_FAMILIES.append(('bcrypt / aes256-ctr', 'openssh',
                         ('aes256-ctr', 'sha256', 2)))

# passphrase lengths around hash / cipher block boundaries
PW_LENGTHS = [1, 2, 7, 8, 9, 15, 16, 17, 20, 24, 31, 32, 33, 47, 48, 55, 56,
              63, 64, 65, 95, 96, 127, 128, 129]
PW_LENGTHS_QUICK_SUBPROC = [1, 8, 16, 20, 31, 32, 63, 64, 65, 127]


def passphrase_of(n, salt=0):
    return ''.join(chr(33 + (i * 7 + n + salt) % 90) for i in range(n))


PW_NONASCII = ['pässwörd', 'ключ-пароль-é', '鍵' * 31]


# --------------------------------------------------------------------------
# foreign writer layouts (text formats as other implementations write them)
# --------------------------------------------------------------------------

LAYOUT_COMMENT = (b'layout comment: 1024-bit key, user@host.example, made for '
                  b'the wrapped-header test; a second clause keeps it going '
                  b'well past two 72-byte lines, and a third one (with "quotes"'
                  b' inside) makes sure four physical lines are needed. END')
LAYOUT_SUBJECT = b'subject-of-the-key@host.example with some more words in it'
LAYOUT_PRIVATE = b'private header value, also long enough to be wrapped twice!!'


def _chunks(value, n, first_room):
    """Split value into n non-empty pieces (the first at most first_room
    bytes, the others at most 71) - the physical lines of a folded header."""
    if n == 1:
        return [value]
    size = max(1, min(71, (len(value) + n - 1) // n))
    first = min(first_room, size)
    out = [value[:first]]
    rest = value[first:]
    for i in range(n - 1):
        if i == n - 2:
            out.append(rest)
        else:
            out.append(rest[:size])
            rest = rest[size:]
    return [c for c in out if c] if all(out) else None


def rfc4716_layout(blob, row, comment=LAYOUT_COMMENT):
    """An RFC 4716 file for the public key / certificate blob.
    row: hdrs (sequence of 'C' | 'S' | 'X'), nl (physical lines of the
    Comment header), onl (of the other headers), quoted, eol, width, trailws,
    finalnl, blank.  -> (bytes, expected comment or None)"""
    eol = b'\r\n' if row['eol'] == 'crlf' else b'\n'
    tws = b' \t' if row['trailws'] else b''
    lines = [b'---- BEGIN SSH2 PUBLIC KEY ----']
    expect = None
    for h in row['hdrs']:
        tag, value, n = {'C': (b'Comment', comment, row['nl']),
                         'S': (b'Subject', LAYOUT_SUBJECT, row['onl']),
                         'X': (b'x-verif-private', LAYOUT_PRIVATE,
                               row['onl'])}[h]
        if h == 'C':
            expect = value
            if row['quoted']:
                value = b'"' + value + b'"'
        head = tag + b': '
        parts = _chunks(value, n, 71 - len(head))
        if parts is None or len(parts) != n:
            return None, None
        for i, c in enumerate(parts):
            lines.append((head if i == 0 else b'') + c +
                         (b'\\' if i < n - 1 else b''))
    if row['blank']:
        lines.append(b'')
    b64 = binascii.b2a_base64(blob)[:-1]
    w = row['width']
    lines += [b64[i:i + w] for i in range(0, len(b64), w)]
    lines.append(b'---- END SSH2 PUBLIC KEY ----')
    data = eol.join(l + tws for l in lines)
    if row['finalnl']:
        data += eol
    return data, expect


def pem_layout(der, pem_type, row, headers=b''):
    """A PEM file around `der`.  row: eol, width (0 = one line), lead (text
    before BEGIN), trail (text after END), trailws, finalnl."""
    eol = b'\r\n' if row['eol'] == 'crlf' else b'\n'
    tws = b'  ' if row['trailws'] else b''
    b64 = binascii.b2a_base64(der)[:-1]
    w = row['width'] or len(b64)
    lines = []
    if row['lead']:
        lines += [b'Bag Attributes', b'    friendlyName: verif key',
                  b'    localKeyID: 01 02 03', b'Key Attributes: <No Attributes>']
    lines.append(b'-----BEGIN ' + pem_type + b'-----')
    lines += [b64[i:i + w] for i in range(0, len(b64), w)]
    lines.append(b'-----END ' + pem_type + b'-----')
    if row['trail']:
        lines += [b'', b'some text after the key']
    data = eol.join(l + tws for l in lines)
    if row['finalnl']:
        data += eol
    return data


def openssh_pub_layout(alg, blob, row):
    """A one-line OpenSSH public key.  row: sep, comment ('none' | 'plain' |
    'spaces'), opts, leadws, trailws, eol, finalnl.
    -> (bytes, expected comment)"""
    sep = {'space': b' ', 'spaces': b'   ', 'tab': b'\t',
           'mixed': b' \t '}[row['sep']]
    cm = {'none': None, 'plain': b'user@host',
          'spaces': b'my  key (with   spaces)\tand a tab'}[row['comment']]
    line = alg + sep + binascii.b2a_base64(blob)[:-1]
    if cm is not None:
        line += sep + cm
    if row['opts']:
        line = b'command="echo hi there",no-pty,from="10.*"' + sep + line
    if row['leadws']:
        line = b'  ' + line
    if row['trailws']:
        line += b' \t'
    if row['finalnl']:
        line += b'\r\n' if row['eol'] == 'crlf' else b'\n'
    return line, cm


# --------------------------------------------------------------------------
# key list loading (load_keypairs, client_keys=, load_public_keys, ...)
# --------------------------------------------------------------------------

KL_PW = 'keylist-pw'
KL_WRONG = 'keylist-pX'


class KeyListWorld:
    """Files and objects for the entries of a key list.  Position i of a list
    always uses its own key (slot i), so every result can be attributed."""

    def __init__(self, scr, kts, slots=3):
        self.scr = scr
        use = [k for k in ('ed25519', 'ec256', 'ec384', 'ed448') if k in kts]
        self.kt = [use[i % len(use)] for i in range(slots + 1)]
        self.ca = key(use[0], 30)
        self.keys = {}
        self.certs = {}
        self.asked = []
        for i in range(1, slots + 1):
            k = copy_with_comment(key(self.kt[i], 30 + i),
                                  b'slot%d' % i)
            self.keys[i] = k
            self.certs[i] = self.ca.generate_user_certificate(
                k, 'kl-%d' % i, principals=['u%d' % i])
            pub = k.convert_to_public().export_public_key('openssh')
            cert = self.certs[i].export_certificate('openssh')
            plain = k.export_private_key('openssh')
            enc = k.export_private_key('pkcs8-pem', KL_PW)
            for name, data, sib in [
                    ('path', plain, {}), ('path_pub', plain, {'.pub': pub}),
                    ('path_cert', plain, {'-cert.pub': cert}),
                    ('enc', enc, {}), ('enc_pub', enc, {'.pub': pub}),
                    ('enc_cert', enc, {'-cert.pub': cert}),
                    ('pathtuple', plain, {}), ('ppath', pub, {}),
                    ('cpath', cert, {})]:
                f = scr.write(f's{i}_{name}', data)
                for suffix, sdata in sib.items():
                    scr.write(f's{i}_{name}{suffix}', sdata, 0o644)
            scr.write(f's{i}_tuplecert.pub', cert, 0o644)
            self.enc_bytes = getattr(self, 'enc_bytes', {})
            self.enc_bytes[i] = enc

    def path(self, i, kind):
        return self.scr.path(f's{i}_{kind}')

    def entry(self, i, kind):
        k = self.keys[i]
        if kind in ('path', 'path_pub', 'path_cert', 'enc', 'enc_pub',
                    'enc_cert', 'ppath', 'cpath'):
            return self.path(i, kind)
        if kind == 'bytes':
            return k.export_private_key('pkcs8-pem')
        if kind == 'encbytes':
            return self.enc_bytes[i]
        if kind == 'obj':
            return copy_with_comment(k, b'slot%d' % i)
        if kind == 'tuple':
            return (copy_with_comment(k, b'slot%d' % i), self.certs[i])
        if kind == 'pathtuple':
            return (self.path(i, kind), self.scr.path(f's{i}_tuplecert.pub'))
        if kind == 'pair':
            return asyncssh.load_keypairs(
                [copy_with_comment(k, b'slot%d' % i)])[0]
        if kind == 'pbytes':
            return k.convert_to_public().export_public_key('rfc4716')
        if kind == 'pobj':
            return k.convert_to_public()
        if kind == 'cbytes':
            return self.certs[i].export_certificate('rfc4716')
        if kind == 'cobj':
            return self.certs[i]
        raise ValueError(kind)

    def passphrase(self, mode):
        self.asked = []
        if mode == 'none':
            return None
        if mode == 'string':
            return KL_PW
        if mode == 'wrong':
            return KL_WRONG
        answer = KL_PW if mode == 'callable' else KL_WRONG

        def ask(filename):
            self.asked.append(filename)
            return answer
        return ask

    def reference_pair(self, i, with_cert):
        """The pair entry i gives when loaded on its own from memory."""
        k = copy_with_comment(self.keys[i], b'slot%d' % i)
        if with_cert:
            return asyncssh.load_keypairs([(k, self.certs[i])])[0]
        return asyncssh.load_keypairs([k])[0]


# --------------------------------------------------------------------------
# independent encoder: the encoding CHOICES a foreign writer may make
# (built from hashlib / PyCA primitives only - nothing from asyncssh)
# --------------------------------------------------------------------------

import hashlib as _hashlib


def _dlen(n):
    if n < 0x80:
        return bytes([n])
    b = n.to_bytes((n.bit_length() + 7) // 8, 'big')
    return bytes([0x80 | len(b)]) + b


def _der(tag, content):
    return bytes([tag]) + _dlen(len(content)) + content


def dSEQ(*items):
    return _der(0x30, b''.join(items))


def dOCT(b):
    return _der(0x04, b)


def dINT(n):
    b = n.to_bytes(n.bit_length() // 8 + 1, 'big') if n else b'\0'
    return _der(0x02, b)


def dNULL():
    return b'\x05\x00'


def dOID(dotted):
    p = [int(x) for x in dotted.split('.')]
    out = bytes([p[0] * 40 + p[1]])
    for v in p[2:]:
        chunk = [v & 0x7f]
        v >>= 7
        while v:
            chunk.append(0x80 | (v & 0x7f))
            v >>= 7
        out += bytes(reversed(chunk))
    return _der(0x06, out)


OID = {'pbes2': '1.2.840.113549.1.5.13', 'pbkdf2': '1.2.840.113549.1.5.12',
       'sha1': '1.2.840.113549.2.7', 'sha224': '1.2.840.113549.2.8',
       'sha256': '1.2.840.113549.2.9', 'sha384': '1.2.840.113549.2.10',
       'sha512': '1.2.840.113549.2.11',
       'aes128-cbc': '2.16.840.1.101.3.4.1.2',
       'aes192-cbc': '2.16.840.1.101.3.4.1.22',
       'aes256-cbc': '2.16.840.1.101.3.4.1.42',
       'des-ede3-cbc': '1.2.840.113549.3.7',
       'md5-des': '1.2.840.113549.1.5.3', 'sha1-des': '1.2.840.113549.1.5.10',
       'p12-rc4-128': '1.2.840.113549.1.12.1.1',
       'p12-rc4-40': '1.2.840.113549.1.12.1.2',
       'p12-3des': '1.2.840.113549.1.12.1.3',
       'p12-2des': '1.2.840.113549.1.12.1.4'}
CIPHER_KEY_IV = {'aes128-cbc': (16, 16), 'aes192-cbc': (24, 16),
                 'aes256-cbc': (32, 16), 'des-ede3-cbc': (24, 8),
                 'des-cbc': (8, 8), 'des2-cbc': (16, 8)}


def _cipher_alg(name, keybytes):
    from cryptography.hazmat.primitives.ciphers import algorithms
    try:
        from cryptography.hazmat.decrepit.ciphers import algorithms as old
    except ImportError:                 # pragma: no cover
        old = algorithms
    if name.startswith('aes'):
        return algorithms.AES(keybytes)
    if name in ('des-ede3-cbc', 'des2-cbc'):
        return old.TripleDES(keybytes)
    if name == 'des-cbc':
        return old.TripleDES(keybytes * 3)
    if name == 'rc4':
        return old.ARC4(keybytes)
    raise ValueError(name)


def cbc_encrypt(name, keybytes, iv, data):
    from cryptography.hazmat.primitives.ciphers import Cipher, modes
    bs = len(iv)
    pad = bs - len(data) % bs
    data += bytes([pad]) * pad
    enc = Cipher(_cipher_alg(name, keybytes), modes.CBC(iv)).encryptor()
    return enc.update(data) + enc.finalize()


def rc4_encrypt(keybytes, data):
    from cryptography.hazmat.primitives.ciphers import Cipher
    enc = Cipher(_cipher_alg('rc4', keybytes), None).encryptor()
    return enc.update(data) + enc.finalize()


def pbkdf1(hash_name, pw, salt, count, n):
    d = pw + salt
    for _ in range(count):
        d = _hashlib.new(hash_name, d).digest()
    return d[:n]


def pkcs12_kdf(pw_str, salt, count, n, ident, hash_name='sha1'):
    """RFC 7292 appendix B.2 (password as BMPString with terminator)."""
    h = _hashlib.new(hash_name)
    u, v = h.digest_size, h.block_size
    pw = pw_str.encode('utf-16be') + b'\0\0'

    def fill(x):
        if not x:
            return b''
        ln = v * ((len(x) + v - 1) // v)
        return (x * (ln // len(x) + 1))[:ln]
    D = bytes([ident]) * v
    I = bytearray(fill(salt) + fill(pw))
    out = b''
    while len(out) < n:
        A = D + bytes(I)
        for _ in range(count):
            A = _hashlib.new(hash_name, A).digest()
        out += A
        B = int.from_bytes(fill(A)[:v], 'big') + 1
        for j in range(0, len(I), v):
            x = (int.from_bytes(I[j:j + v], 'big') + B) % (1 << (8 * v))
            I[j:j + v] = x.to_bytes(v, 'big')
    return out[:n]


def ber_variant(der_bytes, how):
    """Re-encode the outermost length: 'longform' = non-minimal long form,
    'indefinite' = BER indefinite length with end-of-contents octets."""
    assert der_bytes[0] == 0x30
    lb = der_bytes[1]
    hl = 2 if lb < 0x80 else 2 + (lb & 0x7f)
    content = der_bytes[hl:]
    if how == 'longform':
        n = len(content)
        b = n.to_bytes((n.bit_length() + 7) // 8 + 1, 'big')   # leading 00
        return b'\x30' + bytes([0x80 | len(b)]) + b + content
    if how == 'indefinite':
        return b'\x30\x80' + content + b'\0\0'
    return der_bytes


def pem_wrap(typ, der_bytes, headers=b''):
    b = binascii.b2a_base64(der_bytes)[:-1]
    return b'-----BEGIN ' + typ + b'-----\n' + headers + \
        b'\n'.join(b[i:i + 64] for i in range(0, len(b), 64)) + \
        b'\n-----END ' + typ + b'-----\n'


EC_OID = {'ec256': '1.2.840.10045.3.1.7', 'ec384': '1.3.132.0.34',
          'ec521': '1.3.132.0.35'}


def der_split(der_bytes):
    """Elements (as byte strings) of an outer DER SEQUENCE."""
    assert der_bytes[0] == 0x30
    hl = 2 if der_bytes[1] < 0x80 else 2 + (der_bytes[1] & 0x7f)
    body = der_bytes[hl:]
    out = []
    i = 0
    while i < len(body):
        ln = body[i + 1]
        h = 2
        if ln >= 0x80:
            n = ln & 0x7f
            ln = int.from_bytes(body[i + 2:i + 2 + n], 'big')
            h = 2 + n
        out.append(body[i:i + h + ln])
        i += h + ln
    return out


ENC_PW = 'encoding-pw'
ENC_SALT = bytes(range(1, 65))
ENC_ITER = {'1': 1, '2048': 2048, 'large': 65537}


def encode_case(row, k):
    """The file a foreign writer would produce for the case `row` around key
    k (an asyncssh key: only its PyCA object is used).
    -> dict(data=bytes, fmt='pem'|'der', pw=str, private=True)"""
    pk = k.pyca_key
    scheme = row['scheme']
    pw = ENC_PW
    if scheme == 'pbes2':
        cipher = row['cipher']
        klen, ivlen = CIPHER_KEY_IV[cipher]
        salt = ENC_SALT[:row['salt']]
        count = ENC_ITER[row['iter']]
        hash_name = 'sha1' if row['prf'] == 'absent' else row['prf']
        dk_len = klen if row['keylen'] != 'wrong' else \
            (16 if klen != 16 else 24)
        dk = _hashlib.pbkdf2_hmac(hash_name, pw.encode(), salt, count, dk_len)
        iv = bytes(range(0x40, 0x40 + ivlen))
        plain = pyca_private_der(pk)
        try:
            ct = cbc_encrypt(cipher, dk if row['keylen'] != 'wrong' or
                             cipher.startswith('aes') else dk + dk[:8],
                             iv, plain)
        except ValueError:
            ct = cbc_encrypt(cipher, (dk * 2)[:klen], iv, plain)
        kdf = [dOCT(salt), dINT(count)]
        if row['keylen'] != 'absent':
            kdf.append(dINT(dk_len))
        if row['prf'] != 'absent':
            kdf.append(dSEQ(dOID(OID[hash_name]),
                            *([dNULL()] if row['null'] else [])))
        der_bytes = dSEQ(
            dSEQ(dOID(OID['pbes2']),
                 dSEQ(dSEQ(dOID(OID['pbkdf2']), dSEQ(*kdf)),
                      dSEQ(dOID(OID[cipher]), dOCT(iv)))),
            dOCT(ct))
        der_bytes = ber_variant(der_bytes, row['ber'])
        return dict(der=der_bytes, typ=b'ENCRYPTED PRIVATE KEY', pw=pw)
    if scheme == 'pbes1':
        alg = row['alg']
        salt = ENC_SALT[:row['salt']]
        count = ENC_ITER[row['iter']] if row['iter'] != 'large' else 5000
        plain = pyca_private_der(pk)
        if alg in ('md5-des', 'sha1-des'):
            dk = pbkdf1(alg.split('-')[0], pw.encode(), salt, count, 16)
            ct = cbc_encrypt('des-cbc', dk[:8], dk[8:], plain)
        elif alg in ('p12-3des', 'p12-2des'):
            klen = 24 if alg == 'p12-3des' else 16
            key_ = pkcs12_kdf(pw, salt, count, klen, 1)
            iv = pkcs12_kdf(pw, salt, count, 8, 2)
            ct = cbc_encrypt('des-ede3-cbc' if klen == 24 else 'des2-cbc',
                             key_, iv, plain)
        else:
            klen = 16 if alg == 'p12-rc4-128' else 5
            ct = rc4_encrypt(pkcs12_kdf(pw, salt, count, klen, 1), plain)
        der_bytes = dSEQ(dSEQ(dOID(OID[alg]), dSEQ(dOCT(salt), dINT(count))),
                         dOCT(ct))
        return dict(der=der_bytes, typ=b'ENCRYPTED PRIVATE KEY', pw=pw)
    if scheme == 'dek':
        from cryptography.hazmat.primitives import serialization as ser
        plain = pk.private_bytes(ser.Encoding.DER,
                                 ser.PrivateFormat.TraditionalOpenSSL,
                                 ser.NoEncryption())
        name = row['cipher']
        real = {'AES-128-CBC': 'aes128-cbc', 'AES-192-CBC': 'aes192-cbc',
                'AES-256-CBC': 'aes256-cbc', 'DES-EDE3-CBC': 'des-ede3-cbc',
                'DES-CBC': 'des-cbc', 'BOGUS-CBC': 'aes128-cbc'}[name]
        klen, ivlen = CIPHER_KEY_IV[real]
        iv = bytes(range(0xa1, 0xa1 + ivlen))
        d = b''
        dk = b''
        while len(dk) < klen:           # EVP_BytesToKey, MD5, one round
            d = _hashlib.md5(d + pw.encode() + iv[:8]).digest()
            dk += d
        ct = cbc_encrypt(real, dk[:klen], iv, plain)
        ivx = {'ok': iv, 'short': iv[:-1], 'long': iv + b'\x00'}[row['ivlen']]
        hexiv = binascii.b2a_hex(ivx)
        hexiv = hexiv.upper() if row['hexcase'] == 'upper' else hexiv.lower()
        nm = name if row['namecase'] == 'upper' else name.lower()
        hdr = b'Proc-Type: 4,ENCRYPTED\nDEK-Info: ' + nm.encode() + b',' + \
            hexiv + b'\n\n'
        typ = b'RSA PRIVATE KEY' if k.algorithm == b'ssh-rsa' \
            else b'EC PRIVATE KEY'
        return dict(pem=pem_wrap(typ, ct, hdr), pw=pw)
    if scheme == 'openssh':
        from cryptography.hazmat.primitives import serialization as ser
        alg = k.algorithm
        if alg == b'ssh-ed25519':
            seed = pk.private_bytes(ser.Encoding.Raw, ser.PrivateFormat.Raw,
                                    ser.NoEncryption())
            pubraw = pk.public_key().public_bytes(ser.Encoding.Raw,
                                                  ser.PublicFormat.Raw)
            pubblob = S(alg) + S(pubraw)
            privpart = S(alg) + S(pubraw) + S(seed + pubraw)
        else:
            nums = pk.private_numbers()
            q = pk.public_key().public_bytes(
                ser.Encoding.X962, ser.PublicFormat.UncompressedPoint)
            d = nums.private_value
            db = d.to_bytes(d.bit_length() // 8 + 1, 'big')
            curve = alg.split(b'-')[-1]
            pubblob = S(alg) + S(curve) + S(q)
            privpart = S(alg) + S(curve) + S(q) + S(db)
        cm = {'empty': b'', 'utf8': 'Zoë 鍵'.encode(),
              'long': b'c' * 300}[row['comment']]
        c1 = b'\x12\x34\x56\x78'
        c2 = c1 if row['check'] == 'equal' else b'\x12\x34\x56\x79'
        sect = c1 + c2 + privpart + S(cm)
        if row['nkeys'] == 2:
            sect += privpart + S(cm)
        n = (8 - len(sect) % 8) % 8
        if row['pad'] == 'seq':
            sect += bytes(range(1, n + 1))
        elif row['pad'] == 'zeros':
            sect += b'\0' * (n or 8)
        elif row['pad'] == 'long':
            sect += bytes(range(1, n + 9))
        elif row['pad'] == 'misaligned':
            sect += bytes(range(1, n + 2))
        blob = b'openssh-key-v1\0' + S('none') + S('none') + S(b'') + \
            struct.pack('>I', row['nkeys']) + \
            (pubblob and S(pubblob)) * row['nkeys'] + S(sect)
        return dict(pem=pem_wrap(b'OPENSSH PRIVATE KEY', blob), pw=None,
                    comment=cm or None)
    if scheme == 'p8env':
        from cryptography.hazmat.primitives import serialization as ser
        ver, alg, priv = der_split(pyca_private_der(pk))
        if row['kt'].startswith('ed'):
            pub = pk.public_key().public_bytes(ser.Encoding.Raw,
                                               ser.PublicFormat.Raw)
        elif row['kt'].startswith('ec'):
            pub = pk.public_key().public_bytes(
                ser.Encoding.X962, ser.PublicFormat.UncompressedPoint)
        else:
            bits = der_split(pyca_public_der(pk.public_key()))[1]
            hl = 2 if bits[1] < 0x80 else 2 + (bits[1] & 0x7f)
            pub = bits[hl + 1:]
        # [0] attributes: a keyUsage attribute as in keys out of a PFX
        attr = _der(0xa0, dSEQ(dOID('2.5.29.15'),
                               _der(0x31, _der(0x03, b'\x00\x10'))))
        pubf = _der(0x81, b'\0' + pub)
        shape = row['shape']
        items = [dINT(1) if shape.startswith('v1') else ver, alg, priv]
        if 'attr' in shape:
            items.append(attr)
        if 'pub' in shape:
            items.append(pubf)
        plain = dSEQ(*items)
        if row['enc'] == 'clear':
            return dict(der=plain, typ=b'PRIVATE KEY', pw=None)
        salt, iv = ENC_SALT[:16], bytes(range(0x40, 0x50))
        dk = _hashlib.pbkdf2_hmac('sha256', pw.encode(), salt, 2048, 32)
        der_bytes = dSEQ(
            dSEQ(dOID(OID['pbes2']),
                 dSEQ(dSEQ(dOID(OID['pbkdf2']),
                           dSEQ(dOCT(salt), dINT(2048),
                                dSEQ(dOID(OID['sha256']), dNULL()))),
                      dSEQ(dOID(OID['aes256-cbc']), dOCT(iv)))),
            dOCT(cbc_encrypt('aes256-cbc', dk, iv, plain)))
        return dict(der=der_bytes, typ=b'ENCRYPTED PRIVATE KEY', pw=pw)
    if scheme == 'ecpub':
        from cryptography.hazmat.primitives import serialization as ser
        oid = EC_OID[row['kt']]
        fmt_ = ser.PublicFormat.CompressedPoint \
            if row['point'] == 'compressed' \
            else ser.PublicFormat.UncompressedPoint
        q = pk.public_key().public_bytes(ser.Encoding.X962, fmt_)
        alg = k.algorithm
        curve = alg.split(b'-')[-1]
        if row['container'] == 'spki':
            spki = dSEQ(dSEQ(dOID('1.2.840.10045.2.1'), dOID(oid)),
                        _der(0x03, b'\0' + q))
            return dict(public=pem_wrap(b'PUBLIC KEY', spki), pw=None)
        if row['container'] == 'openssh':
            blob = S(alg) + S(curve) + S(q)
            return dict(public=alg + b' ' + binascii.b2a_base64(blob)[:-1] +
                        b' compressed@test\n', pw=None)
        ca = key('ed25519', 40)
        calg = alg + b'-cert-v01@openssh.com'
        body = S(calg) + S(b'n' * 32) + S(curve) + S(q) + \
            struct.pack('>QI', 1, 1) + S('id') + S(b'') + \
            struct.pack('>QQ', 0, 2 ** 64 - 1) + S(b'') + S(b'') + S(b'') + \
            S(ca.public_data)
        blob = body + S(ca.sign(body, b'ssh-ed25519'))
        return dict(cert=calg + b' ' + binascii.b2a_base64(blob)[:-1] + b'\n',
                    pw=None)
    if scheme == 'ecpriv':
        oid = EC_OID[row['kt']]
        from cryptography.hazmat.primitives import serialization as ser
        d = pk.private_numbers().private_value
        n = (pk.curve.key_size + 7) // 8
        q = pk.public_key().public_bytes(
            ser.Encoding.X962, ser.PublicFormat.CompressedPoint
            if row['pub'] == 'compressed'
            else ser.PublicFormat.UncompressedPoint)
        items = [dINT(1), dOCT(d.to_bytes(n, 'big'))]
        if row['params'] == 'present':
            items.append(_der(0xa0, dOID(oid)))
        if row['pub'] != 'absent':
            items.append(_der(0xa1, _der(0x03, b'\0' + q)))
        sec1 = dSEQ(*items)
        if row['container'] == 'sec1':
            return dict(der=sec1, typ=b'EC PRIVATE KEY', pw=None)
        p8 = dSEQ(dINT(0), dSEQ(dOID('1.2.840.10045.2.1'), dOID(oid)),
                  dOCT(sec1))
        return dict(der=p8, typ=b'PRIVATE KEY', pw=None)
    raise ValueError(scheme)


# passphrase VALUES (part "passval")
_LONG = ''.join(chr(48 + i % 75) for i in range(1024))
PASS_VALUES = {'none': None, 'empty_str': '', 'empty_bytes': b'',
               'one': 'x', 'nonascii': 'pässwörd-鍵',
               'highbytes': b'\xff\xfe pass \x80\x81', 'long': _LONG,
               'str': 'same text', 'bytes_same': b'same text'}


def other_spelling(v):
    if isinstance(v, str):
        return v.encode('utf-8')
    return v.decode('utf-8')


def other_passphrase(v):
    if v is None or len(v) == 0:
        return 'y' if not isinstance(v, bytes) else b'y'
    return v[:-1] + ('Y' if isinstance(v, str) else b'Y') \
        if v[-1:] not in ('Y', b'Y') else v[:-1] + \
        ('Z' if isinstance(v, str) else b'Z')


def looks_encrypted(data, fmt):
    """Structural check, independent of any library: is this private key
    file encrypted?"""
    if fmt.endswith('-pem') or fmt == 'openssh':
        if b'ENCRYPTED' in data.split(b'\n', 3)[0] or \
                b'Proc-Type: 4,ENCRYPTED' in data[:120]:
            return True
        if fmt == 'openssh':
            body = binascii.a2b_base64(b''.join(data.splitlines()[1:-1]))
            off = len(b'openssh-key-v1\0')
            n = struct.unpack('>I', body[off:off + 4])[0]
            return body[off + 4:off + 4 + n] != b'none'
        return False
    # DER: PrivateKeyInfo starts SEQUENCE { INTEGER version ...;
    # EncryptedPrivateKeyInfo starts SEQUENCE { SEQUENCE {...
    hl = 2 if data[1] < 0x80 else 2 + (data[1] & 0x7f)
    return data[hl] == 0x30
