"""Driver for specs/Timers/Keepalive.tla: replays behaviours into a real pair
on the virtual clock.  The endpoint under test ("conn") is the client or the
server, configured with keepalive_interval / keepalive_count_max; the other
endpoint is a plain asyncssh peer.  One model tick = one virtual second."""

import asyncssh

from harness.sshpair import Pair, NoAuthServer

REQ, REPLY_OK, REPLY_FAIL = 80, 81, 82


class World:
    def __init__(self, role, interval, count_max):
        self.role = role                      # which side runs the keepalive
        kw = dict(keepalive_interval=interval, keepalive_count_max=count_max)
        self.rx = []
        w = self

        class SS(asyncssh.SSHServerSession):
            def connection_made(self, chan):
                w.schan = chan

            def exec_requested(self, command):
                return True

            def data_received(self, data, datatype):
                w.rx.append(('s', data))

        class CS(asyncssh.SSHClientSession):
            def data_received(self, data, datatype):
                w.rx.append(('c', data))

        class Srv(NoAuthServer):
            def session_requested(self):
                return SS()

        self.CS = CS
        self.pair = Pair(server_cls=Srv,
                         server_kw=dict(encoding=None,
                                        **(kw if role == 's' else {})),
                         client_kw=kw if role == 'c' else {})
        self.interval = interval

    def start(self):
        p = self.pair.start()

        async def go():
            self.cchan, _ = await p.conn.create_session(self.CS, command='x',
                                                        encoding=None)

        p.run(go())
        p.manual()
        self.me = self.role
        self.peer = 's' if self.role == 'c' else 'c'
        self.conn = p.conn if self.role == 'c' else p.sconn
        self.t0 = p.loop.time()
        self.silent = False
        # operations pending on the endpoint under test while the peer dies
        chan = self.cchan if self.role == 'c' else self.schan
        self.waiters = [p.loop.create_task(chan.wait_closed()),
                        p.loop.create_task(self.conn.wait_closed())]
        if self.role == 'c':
            self.waiters.append(p.loop.create_task(
                self.conn.create_session(self.CS, command='late',
                                         encoding=None)))
            p.loop.run_until_idle()
            # the open request stays unanswered: it is never delivered
            self.held = [q for q in p.queue['c']]
        # nothing has advanced the virtual clock during set-up, and the last
        # packet received re-armed the timer: the timer is due at t0 + I
        return self

    def stop(self):
        self.pair.stop()

    def do(self, lbl):
        p = self.pair
        k = lbl[0]
        if k == 'tick':
            p.loop.advance(1.0)
        elif k == 'peerrecv':
            # the peer processes the next keepalive request
            took = p.deliver(self.me, lambda t: t == REQ)
            if not took:
                return 'no keepalive request in flight'
        elif k == 'peerdata':
            chan = self.schan if self.peer == 's' else self.cchan
            p.call(chan.write, b'd')
        elif k == 'silent':
            self.silent = True            # nothing is delivered to conn any more
        elif k == 'connrecv':
            want = lbl[1]
            took = p.deliver(self.peer, lambda t: t in (REPLY_OK, REPLY_FAIL,
                                                        94))
            kinds = ['data' if t == 94 else 'reply' for t, _, _ in took
                     if t in (REPLY_OK, REPLY_FAIL, 94)]
            if kinds != [want]:
                return f'delivered {kinds}, model expected {want}'
        else:
            raise ValueError(lbl)
        return None

    def observe(self):
        p = self.pair
        c = self.conn
        timer = c._keepalive_timer
        lost = self.me in p.lost
        return {
            'now': round(p.loop.time() - self.t0, 6),
            'count': c._keepalive_count,
            'lost': lost,
            'timerAt': None if (timer is None or lost) else
            round(timer.when() - self.t0, 6),
            'toPeer': len([q for q in p.queue[self.me] if q[0] == REQ]),
            'toConn': [] if self.silent else
            ['data' if q[0] == 94 else 'reply' for q in p.queue[self.peer]
             if q[0] in (REPLY_OK, REPLY_FAIL, 94)],
        }


def model_obs(st):
    return {
        'now': float(st['now']),
        'count': st['count'],
        'lost': st['lost'],
        'timerAt': None if st['lost'] or st['timerAt'] >= 1000000
        else float(st['timerAt']),
        'toPeer': len(st['toPeer']),
        'toConn': [m['k'] for m in st['toConn']],
    }


def replay(steps, role, interval, count_max):
    """steps: [(label, state)] from a -simulate trace."""
    w = World(role, float(interval), count_max).start()
    res = {'diverged': None, 'l1': [], 'script': []}
    try:
        last_in = 0.0
        last_rep = 0.0
        silent_at = None
        for i, (lbl, st) in enumerate(steps):
            err = w.do(lbl)
            res['script'].append(lbl)
            if err:
                res['diverged'] = f'step {i} {lbl}: {err}'
                break
            got = w.observe()
            if lbl[0] == 'connrecv':
                last_in = got['now']
                if lbl[1] == 'reply':
                    last_rep = got['now']
            if lbl[0] == 'silent':
                silent_at = got['now']
            want = model_obs(st)
            for key in want:
                if key == 'count' and want['lost']:
                    continue            # clean-up resets the counter
                if got[key] != want[key]:
                    res['diverged'] = (f'step {i} {lbl}: {key}: code='
                                       f'{got[key]!r} model={want[key]!r}')
                    break
            if res['diverged']:
                # the model no longer describes the run; the property does
                # not need it: the peer falls silent now, and within
                # (count_max + 1) intervals of the last input the connection
                # has to be given up
                if not got['lost']:
                    w.do(('silent',))
                    t_silent = got['now']
                    for _ in range(int((count_max + 2) * interval) + 2):
                        w.do(('tick',))
                    end = w.observe()
                    if not end['lost']:
                        res['l1'].append(
                            f'DeadPeerDetected: peer silent since t='
                            f'{t_silent}, still not given up at t='
                            f'{end["now"]} (interval {interval}, count max '
                            f'{count_max}; after a model divergence)')
                    else:
                        w.pair.loop.run_until_idle()
                        hung = [repr(t.get_coro())[:80] for t in w.waiters
                                if not t.done()]
                        for t in w.waiters:
                            if t.done() and not t.cancelled():
                                t.exception()
                        if hung:
                            res['l1'].append(
                                f'AllWaitersResolved: connection given up '
                                f'but still pending: {hung}')
                break
            # ---- property monitors on observations ----
            bound = (count_max + 1) * interval
            if got['lost']:
                w.pair.loop.run_until_idle()
                hung = [repr(t.get_coro())[:80] for t in w.waiters
                        if not t.done()]
                for t in w.waiters:
                    if t.done() and not t.cancelled():
                        t.exception()       # retrieved: not a loop exception
                if hung:
                    res['l1'].append(
                        f'AllWaitersResolved: connection given up at t='
                        f'{got["now"]} but still pending: {hung}')
                if silent_at is None:
                    res['l1'].append(
                        f'NoFalseAlarm: connection given up at t='
                        f'{got["now"]} although the peer answered every '
                        f'request within {1} tick(s)')
                if got['now'] < last_rep + bound:
                    res['l1'].append(
                        f'NotEarly: given up at t={got["now"]}, only '
                        f'{got["now"] - last_rep} after the last keepalive '
                        f'reply (interval {interval}, count max {count_max})')
                break
            if silent_at is not None and got['now'] > last_in + bound:
                res['l1'].append(
                    f'DeadPeerDetected: peer silent since t={silent_at}, '
                    f'last input at t={last_in}, still not given up at t='
                    f'{got["now"]} (interval {interval}, count max '
                    f'{count_max})')
                break
        res['loop_exceptions'] = [str(c.get('exception') or c.get('message'))
                                  for c in w.pair.loop.exceptions]
        res['lost'] = dict(w.pair.lost)
    finally:
        w.stop()
    return res


# ---------------------------------------------------------------------------
# login timeout: a peer that stalls at any point before authentication is
# complete is dropped when login_timeout expires, not before; afterwards the
# timer is gone
# ---------------------------------------------------------------------------

def login_timeout_case(stall_after, timeout=5.0, role='s'):
    """role 's': a real server with login_timeout against a raw client that
    stops talking after `stall_after` in ('connect', 'kex', 'service',
    'failed_auth', 'auth').  Returns (time the server dropped the connection
    or None, details)."""
    from asyncssh.packet import String
    from harness import rawpeer
    from harness.sshpair import hostkey
    from harness.vloop import new_loop, close_loop, Deadlock
    loop = new_loop()
    info = {'lost_at': None, 'lost': None}

    class Srv(asyncssh.SSHServer):
        def connection_made(self, conn):
            info['made_at'] = loop.time()

        def connection_lost(self, exc):
            info['lost_at'] = loop.time()
            info['lost'] = type(exc).__name__ if exc else None

        def begin_auth(self, username):
            return username != 'free'

        def password_auth_supported(self):
            return True

        def validate_password(self, username, password):
            return password == 'right'

    res = {}

    async def go():
        res['acc'] = await asyncssh.listen(
            '127.0.0.1', 2222, server_factory=Srv,
            server_host_keys=[hostkey()], login_timeout=timeout)
        if stall_after == 'connect':
            # a bare TCP connection that never sends a version line
            class P:
                def connection_made(self, tr): res['tr'] = tr
                def data_received(self, data): pass
                def eof_received(self): return False
                def connection_lost(self, exc): pass
            await loop.create_connection(P, '127.0.0.1', 2222)
            return
        res['raw'] = await rawpeer.raw_connect(
            '127.0.0.1', 2222, hold_service=True)

    try:
        loop.run_until_complete(go())
    except (Deadlock, OSError, asyncssh.Error) as exc:
        close_loop(loop)
        return None, {'setup_error': repr(exc)}
    loop.run_until_idle()
    raw = res.get('raw')
    t0 = info.get('made_at', loop.time())
    if raw is not None and stall_after != 'kex':
        loop.run_callback(raw.raw_send, 5, String(b'ssh-userauth'))
        if stall_after in ('failed_auth', 'auth'):
            loop.run_callback(raw.raw_send, 50,
                              rawpeer.password_request('u', 'wrong'))
        if stall_after == 'auth':
            loop.run_callback(raw.raw_send, 50,
                              rawpeer.password_request('u', 'right'))
    seen = []
    # step the virtual clock in small steps well past the limit
    t = 0.0
    while t < timeout * 3:
        loop.advance(0.5)
        t += 0.5
        if info['lost_at'] is not None and not seen:
            seen.append(round(info['lost_at'] - t0, 6))
    out = {'dropped_at': seen[0] if seen else None, 'lost': info['lost'],
           'loop_exceptions': [str(c.get('exception') or c.get('message'))
                               for c in loop.exceptions]}
    try:
        if raw is not None:
            raw.abort()
        if 'tr' in res:
            res['tr'].abort()
        res['acc'].close()
        loop.run_until_idle()
    except BaseException:               # pylint: disable=broad-except
        pass
    close_loop(loop)
    return out['dropped_at'], out
