"""Driver for the Forward / ForwardPerm / Socks specifications (C20).

Forward: behaviours of specs/Forward/Forward.tla are replayed against real
asyncssh port forwarding on the deterministic loop.  The two application
ends L and R are asyncio.Protocol objects owned by the harness; everything
between them (listener, SSHLocalForwarder / SSHSOCKSForwarder, the SSH
channel on a real client and a real server connection, forward_connection)
is asyncssh.  Two replay modes:

  fine    both SSH transports are delivered by hand, one channel message
          (MSG_IGNORE + packet) at a time, exactly when the behaviour says
          DOA / DAO; after every step the implementation is projected onto
          the specification's variables (conformance) and the property
          monitors are evaluated on what L and R saw (verdict)
  coarse  everything is delivered automatically; only the application level
          actions of the behaviour are executed; verdict by the monitors

Model action        -> real call
  W e d             -> e's transport.write(unit bytes)
  E e               -> e's transport.write_eof()
  C e               -> e's transport.close()
  X e               -> connection reset at e: the forwarder's socket
                       transport gets connection_lost(ConnectionResetError)
  DOA ok / DAO      -> the next channel message is handed to the accepting /
                       opening side's SSH connection (ok = FALSE: the
                       destination refuses the connection)
  CUT x             -> transport.cut() of side x's SSH transport
  LSN               -> listener.close()
"""

import asyncio
import itertools

import asyncssh
from asyncssh import _verif
from asyncssh.forward import SSHForwarder

from harness.vloop import new_loop, close_loop, Deadlock

R_PORT = 7000
R_HOST = '127.0.0.1'
R_PATH = 'c20-dest.sock'
L_PATH = 'c20-listen.sock'

LOCAL_KINDS = ('local', 'socks4', 'socks4a', 'socks5', 'socks5h', 'socks5v6',
               'lpath')
REMOTE_KINDS = ('remote', 'rpath')
DIRECT_KINDS = ('direct', 'direct_unix')
FINE_KINDS = LOCAL_KINDS + REMOTE_KINDS

PKT_NAMES = {90: 'open', 91: 'conf', 92: 'fail', 93: 'adjust', 94: 'data',
             95: 'xdata', 96: 'eof', 97: 'close', 98: 'request', 80: 'greq',
             81: 'gok', 82: 'gfail', 1: 'disconnect'}

_keys = {}


def keys():
    if not _keys:
        _keys['host'] = asyncssh.generate_private_key('ssh-ed25519')
        _keys['user'] = asyncssh.generate_private_key('ssh-ed25519')
        _keys['ca'] = asyncssh.generate_private_key('ssh-ed25519')
    return _keys


UNIT = 1024


def force_window(conn, window, pktsize):
    """Every forwarding channel this connection creates (opening or
    accepting) advertises this window / maximum packet size - what the
    window= / max_pktsize= arguments of create_connection(), create_server()
    ... do, applied to the forward_*() helpers that do not expose them."""
    o_tcp, o_unix = conn.create_tcp_channel, conn.create_unix_channel
    conn.create_tcp_channel = \
        lambda encoding=None, errors='strict', window_=None, max_pktsize=None: \
        o_tcp(encoding, errors, window, pktsize)
    conn.create_unix_channel = \
        lambda encoding=None, errors='strict', window_=None, max_pktsize=None: \
        o_unix(encoding, errors, window, pktsize)


def unit_bytes(end, d, sizes):
    """Deterministic, position-dependent content of data unit d of end."""
    n = sizes[(d - 1) % len(sizes)]
    base = (17 if end == 'L' else 101) + 37 * d
    return bytes((base + 7 * i + (i >> 8)) % 251 for i in range(n))


class App(asyncio.Protocol):
    """An application end (L or R): records what it sees."""

    def __init__(self, world, name, keep):
        self.world = world
        self.name = name
        self.keep = keep
        self.t = None
        self.data = bytearray()
        self.eof_seen = False
        self.lost = False
        self.lost_exc = None
        self.fin_sent = False       # write_eof() or close() done
        self.closed = False         # own transport closed by this end
        self.skip = 0               # leading bytes that are SOCKS replies
        self.paused = 0

    def connection_made(self, transport):
        self.t = transport

    def data_received(self, data):
        self.data += data

    def eof_received(self):
        self.eof_seen = True
        if not self.keep:
            if not self.fin_sent:
                self.world.fin_after_eof = True
            self.fin_sent = True
            self.closed = True
        return self.keep

    def connection_lost(self, exc):
        self.lost = True
        self.lost_exc = exc

    def pause_writing(self):
        self.paused += 1

    def resume_writing(self):
        pass

    # actions
    def write(self, data):
        self.t.write(data)

    def write_eof(self):
        self.fin_sent = True
        self.t.write_eof()

    def close(self):
        self.fin_sent = True
        self.closed = True
        self.t.close()

    def payload(self):
        return bytes(self.data[self.skip:])

    def fwd_transport(self):
        """the forwarder's socket transport for this end"""
        return self.t.peer if self.t is not None else None


class StreamEnd:
    """L end of conn.open_connection / open_unix_connection: the same
    interface as App on top of SSHReader / SSHWriter."""

    def __init__(self, world, reader, writer):
        self.world = world
        self.name = 'L'
        self.keep = True
        self.reader, self.writer = reader, writer
        self.data = bytearray()
        self.eof_seen = False
        self.lost = False
        self.lost_exc = None
        self.fin_sent = False
        self.closed = False
        self.skip = 0
        self.t = None
        self.task = world.loop.create_task(self._read())
        self.ctask = world.loop.create_task(self._closed())

    async def _read(self):
        try:
            while True:
                data = await self.reader.read(65536)
                if not data:
                    self.eof_seen = True
                    return
                self.data += data
        except Exception as exc:        # pylint: disable=broad-except
            self.eof_seen = True
            self.lost_exc = exc

    async def _closed(self):
        await self.writer.channel.wait_closed()
        self.lost = True

    def write(self, data):
        try:
            self.writer.write(data)
        except OSError as exc:          # channel already gone
            self.lost_exc = exc

    def write_eof(self):
        self.fin_sent = True
        try:
            self.writer.write_eof()
        except OSError as exc:
            self.lost_exc = exc

    def close(self):
        self.fin_sent = True
        self.closed = True
        self.writer.close()

    def payload(self):
        return bytes(self.data)

    def fwd_transport(self):
        return None


def socks_request(kind, host, port):
    """(list of client messages, list of expected replies) for a CONNECT"""
    p = bytes((port >> 8, port & 255))
    ip = bytes(int(x) for x in R_HOST.split('.'))
    if kind == 'socks4':
        return [b'\x04\x01' + p + ip + b'user\0'], [bytes((0, 0x5a)) + bytes(6)]
    if kind == 'socks4a':
        return ([b'\x04\x01' + p + b'\0\0\0\x01' + b'user\0' +
                 host.encode() + b'\0'], [bytes((0, 0x5a)) + bytes(6)])
    greet = b'\x05\x02\x01\x00'
    if kind == 'socks5':
        req = b'\x05\x01\x00\x01' + ip + p
        rep = b'\x05\x00\x00\x01' + bytes(6)
    elif kind == 'socks5h':
        req = b'\x05\x01\x00\x03' + bytes((len(host),)) + host.encode() + p
        rep = b'\x05\x00\x00\x01' + bytes(6)
    else:                               # socks5v6
        req = b'\x05\x01\x00\x04' + bytes(15) + b'\x01' + p
        rep = b'\x05\x00\x00\x04' + bytes(18)
    return [greet, req], [b'\x05\x00', rep]


class World:
    def __init__(self, kind='local', keep_l=True, keep_r=True,
                 sizes=(1, 300, 5000), manual=True, server_cb=None,
                 connect_l=True, window=None):
        # window: None (asyncssh defaults: 2 MiB / 32 KiB), k = k data units
        # of UNIT bytes with max packet size UNIT (fine mode: one unit is one
        # CHANNEL_DATA message), or (window bytes, max packet bytes)
        self.window = (window * UNIT, UNIT) if isinstance(window, int) \
            else window
        self.connect_l = connect_l
        self.kind = kind
        self.keep = {'L': keep_l, 'R': keep_r}
        self.sizes = tuple(sizes)
        self.manual = manual
        self.server_cb = server_cb
        self.loop = None
        self.pk = {}                # id(conn) -> [pkttype of every write]
        self.apps = {'L': None, 'R': None}
        self.r_apps = []
        self.fin_after_eof = False
        self.refused = False
        self.cut_done = False
        self.resets = set()
        self.exempt = set()
        self.sent = {'L': bytearray(), 'R': bytearray()}
        self.units = {'L': [], 'R': []}
        self.script = []
        self.socks_replies = b''
        self.l1 = []                # (clause, detail)
        self.lsn = None
        self.lsn_key = None
        self.cconn = self.sconn = None
        self.rsrv6 = None

    # ------------------------------------------------------------------
    def _sink(self, ev, f):
        if ev == 'pkt_out':
            self.pk.setdefault(id(f['conn']), []).append(f['pkttype'])

    def start(self):
        world = self
        self.loop = loop = new_loop()
        loop.net.dns['desthost'] = R_HOST
        _verif.set_sink(self._sink)
        k = keys()
        unix = self.kind in ('lpath', 'rpath', 'direct_unix')

        class Server(asyncssh.SSHServer):
            def connection_made(self, conn):
                world.sconn = conn

            def begin_auth(self, username):
                return False

            def connection_requested(self, dest_host, dest_port, orig_host,
                                     orig_port):
                return True

            def server_requested(self, listen_host, listen_port):
                return True

            def unix_connection_requested(self, dest_path):
                return True

            def unix_server_requested(self, listen_path):
                return True

        def r_factory():
            app = App(world, 'R', world.keep['R'])
            world.r_apps.append(app)
            if world.apps['R'] is None:
                world.apps['R'] = app
            return app

        async def go():
            self.acceptor = await asyncssh.listen(
                '127.0.0.1', 2222, server_factory=Server,
                server_host_keys=[k['host']])
            if unix:
                self.rsrv = await loop.create_unix_server(r_factory, R_PATH)
            else:
                self.rsrv = await loop.create_server(r_factory, R_HOST, R_PORT)
                if self.kind == 'socks5v6':
                    self.rsrv6 = await loop.create_server(r_factory, '::1',
                                                          R_PORT)
            self.cconn = await asyncssh.connect(
                '127.0.0.1', 2222, known_hosts=None, config=None,
                client_keys=None)
            c = self.cconn
            kind = self.kind
            if kind == 'local':
                self.lsn = await c.forward_local_port('127.0.0.1', 0,
                                                      R_HOST, R_PORT)
            elif kind.startswith('socks'):
                self.lsn = await c.forward_socks('127.0.0.1', 0)
            elif kind == 'remote':
                self.lsn = await c.forward_remote_port('127.0.0.1', 0,
                                                       R_HOST, R_PORT)
            elif kind == 'lpath':
                self.lsn = await c.forward_local_path(L_PATH, R_PATH)
            elif kind == 'rpath':
                self.lsn = await c.forward_remote_path(L_PATH, R_PATH)

        loop.run_until_complete(go())
        loop.run_until_idle()
        if self.window:
            force_window(self.cconn, *self.window)
            force_window(self.sconn, *self.window)
        self.ct = loop.net.all_transports[0]
        self.st = loop.net.all_transports[1]
        assert self.ct.protocol is self.cconn and self.st.protocol is self.sconn
        if self.kind in REMOTE_KINDS:
            self.connO, self.connA = self.sconn, self.cconn
            self.tO, self.tA = self.st, self.ct
        else:
            self.connO, self.connA = self.cconn, self.sconn
            self.tO, self.tA = self.ct, self.st
        if self.kind in DIRECT_KINDS:
            self.lsn_key = None
        elif unix:
            self.lsn_key = ('unix', L_PATH)
        else:
            self.lsn_key = ('127.0.0.1', self.lsn.get_port())
        if self.lsn_key is not None and \
                self.lsn_key not in loop.net.listeners:
            raise RuntimeError(f'forward listener {self.lsn_key} not '
                               f'registered: {list(loop.net.listeners)}')
        if self.manual:
            self.ct.auto = self.st.auto = False
        if self.connect_l:
            self._connect_l()

    def _connect_l(self):
        loop = self.loop
        kind = self.kind
        if kind in DIRECT_KINDS:
            async def op():
                if kind == 'direct':
                    return await self.cconn.open_connection(R_HOST, R_PORT)
                return await self.cconn.open_unix_connection(R_PATH)
            reader, writer = loop.run_until_complete(op())
            self.apps['L'] = StreamEnd(self, reader, writer)
            loop.run_until_idle()
            return
        app = App(self, 'L', self.keep['L'])
        self.apps['L'] = app

        async def cl():
            if self.lsn_key[0] == 'unix':
                await loop.create_unix_connection(lambda: app, L_PATH)
            else:
                await loop.create_connection(lambda: app, *self.lsn_key)
        loop.run_until_complete(cl())
        loop.run_until_idle()
        if kind.startswith('socks'):
            msgs, replies = socks_request(kind, 'desthost', R_PORT)
            for m in msgs:
                app.t.write(m)
                loop.run_until_idle()
            self.socks_replies = b''.join(replies)
            app.skip = len(self.socks_replies)

    def stop(self):
        _verif.set_sink(None)
        try:
            for t in (self.ct, self.st):
                t.auto = True
            for c in (self.cconn, self.sconn):
                if c is not None:
                    c.abort()
            self.acceptor.close()
            self.rsrv.close()
            if self.rsrv6 is not None:
                self.rsrv6.close()
            self.loop.run_until_idle()
        except BaseException:           # pylint: disable=broad-except
            pass
        close_loop(self.loop)

    # ------------------------------------------------------------------
    # SSH link, one channel message at a time
    def inflight(self, t):
        """names of the packets waiting to be read by SSH transport t"""
        n = sum(1 for x in t.inq if isinstance(x, bytes))
        if n == 0:
            return []
        w = self.pk.get(id(t.peer.protocol), [])
        return [PKT_NAMES.get(p, str(p)) for p in w[-n:] if p != 2]

    def deliver_msg(self, t):
        w = self.pk.get(id(t.peer.protocol), [])
        n = sum(1 for x in t.inq if isinstance(x, bytes))
        if t.inq and not isinstance(t.inq[0], bytes):
            t.deliver()             # the peer's end of the stream (EOF)
            self.loop.run_until_idle()
            return
        types = w[-n:] if n else []
        size = 0
        for i, p in enumerate(types):
            if not isinstance(t.inq[i], bytes):
                break
            size += len(t.inq[i])
            if p != 2:
                break
        t.deliver(size)
        self.loop.run_until_idle()

    # ------------------------------------------------------------------
    def do(self, lbl):
        """Execute one model action."""
        loop = self.loop
        op = lbl[0]
        self.script.append(list(lbl))
        if op in ('W', 'E', 'C', 'X'):
            e = lbl[1]
            app = self.apps[e]
            if op == 'W':
                data = unit_bytes(e, lbl[2], self.sizes)
                self.sent[e] += data
                self.units[e].append(lbl[2])
                app.write(data)
            elif op == 'E':
                # (a channel used through the stream API has no FIN: the
                # application is expected to close it)
                if app.eof_seen and isinstance(app, App):
                    self.fin_after_eof = True
                app.write_eof()
            elif op == 'C':
                if not app.eof_seen:
                    self.exempt.add(e)
                if not app.fin_sent and app.eof_seen:
                    self.fin_after_eof = True
                app.close()
            else:
                self.resets.add(e)
                ft = app.fwd_transport()
                app.fin_sent = True
                app.closed = True
                app.t.cut()
                ft.cut(ConnectionResetError(104, 'Connection reset by peer'))
            loop.run_until_idle()
        elif op == 'DOA':
            if not lbl[1]:
                self.refused = True
                self.rsrv.close()
                if self.rsrv6 is not None:
                    self.rsrv6.close()
            self.deliver_msg(self.tA)
        elif op == 'DAO':
            self.deliver_msg(self.tO)
        elif op == 'CUT':
            self.cut_done = True
            t = self.tO if lbl[1] == 'O' else self.tA
            t.cut()
            self.ct.auto = self.st.auto = True
            loop.run_until_idle()
        elif op == 'LSN':
            self.lsn.close()
            loop.run_until_idle()
        else:
            raise ValueError(lbl)
        self.check_prefix()

    def possible(self, lbl):
        """can the real system take this model action now?"""
        op = lbl[0]
        if self.cut_done:
            return False
        if op in ('W', 'E', 'C', 'X'):
            app = self.apps.get(lbl[1])
            if app is None or app.closed or app.lost:
                return False
            if op in 'WE' and app.fin_sent:
                return False
            if op == 'X' and self.sock_state(lbl[1]) != 'open':
                return False
        if op == 'DOA':
            return bool(self.inflight(self.tA))
        if op == 'DAO':
            return bool(self.inflight(self.tO))
        if op == 'LSN':
            return self.lsn is not None
        return True

    def quiescent(self):
        return not self.inflight(self.tO) and not self.inflight(self.tA)

    def drain(self, limit=200):
        """deliver everything in flight, alternating directions"""
        if not self.manual or self.cut_done:
            self.loop.run_until_idle()
            return
        for _ in range(limit):
            progressed = False
            for t in (self.tA, self.tO):
                if t.inq and not t.closed:
                    self.deliver_msg(t)
                    self.check_prefix()
                    progressed = True
            if not progressed:
                return
        raise RuntimeError('forwarded connection does not become quiescent')

    # ------------------------------------------------------------------
    # observation
    def relayed_sockets(self):
        """open transports owned by asyncssh forwarders (relayed sockets)"""
        return [t for t in self.loop.net.transports
                if isinstance(t.protocol, SSHForwarder) and not t.closed]

    def sock_state(self, e):
        app = self.apps[e]
        if app is None or app.t is None:
            return 'none'
        ft = app.fwd_transport()
        if ft is None:
            return 'none'
        return 'closed' if (ft.closed or ft.closing) else 'open'

    def observe(self):
        obs = {'rcvd': {}, 'appEof': {}, 'appSt': {}, 'sock': {}}
        for e in 'LR':
            app = self.apps[e]
            if app is None:
                obs['rcvd'][e] = b''
                obs['appEof'][e] = False
                obs['appSt'][e] = 'none'
            else:
                obs['rcvd'][e] = app.payload()
                obs['appEof'][e] = app.eof_seen
                obs['appSt'][e] = 'closed' if (app.lost or app.closed) \
                    else 'open'
            obs['sock'][e] = self.sock_state(e)
        obs['qOA'] = self.inflight(self.tA)
        obs['qAO'] = self.inflight(self.tO)
        obs['lsn'] = 'open' if self.lsn_key in self.loop.net.listeners \
            else 'closed'
        obs['chan'] = {'O': len(self.connO._channels),
                       'A': len(self.connA._channels)}
        return obs

    # ------------------------------------------------------------------
    # property monitors (verdict): only what L and R saw, the relayed
    # sockets / listeners in the loop's registry, and the schedule
    def flag(self, clause, detail):
        if not any(c == clause for c, _ in self.l1):
            self.l1.append((clause, detail))

    def check_prefix(self):
        for e, o in (('R', 'L'), ('L', 'R')):
            app = self.apps[e]
            if app is None:
                continue
            got = app.payload()
            if bytes(self.sent[o][:len(got)]) != got:
                self.flag('RelayFIFO',
                          f'{e} received {len(got)} bytes that are not a '
                          f'prefix of the {len(self.sent[o])} bytes {o} sent')
        app = self.apps['L']
        if app is not None and app.skip:
            head = bytes(app.data[:app.skip])
            if head != self.socks_replies[:len(head)]:
                self.flag('SocksReply', f'unexpected SOCKS reply {head.hex()}')

    def check_quiescent(self):
        """monitors that hold when nothing is in flight"""
        L, R = self.apps['L'], self.apps['R']
        if not self.cut_done and (self.ct.closed or self.st.closed):
            self.flag('ConnectionKept', 'the SSH connection was torn down '
                      'by the traffic of a forwarded connection (nobody cut '
                      'it): every forward on it is gone')
        clean = not self.refused and not self.resets and not self.cut_done
        if clean and R is None:
            self.flag('Complete', 'the open was not refused but the '
                      'destination was never connected')
        if clean:
            for e, o in (('R', 'L'), ('L', 'R')):
                app = self.apps[e]
                if app is None or e in self.exempt:
                    continue
                if app.payload() != bytes(self.sent[o]):
                    self.flag('Complete',
                              f'{e} received {len(app.payload())} of the '
                              f'{len(self.sent[o])} bytes {o} sent')
            for e, o in (('L', 'R'), ('R', 'L')):
                a, b = self.apps[e], self.apps[o]
                if a is None or b is None:
                    continue
                if a.fin_sent and not (b.eof_seen or o in self.exempt):
                    self.flag('HalfClose',
                              f'{e} sent EOF but {o} never saw it')
        socks = self.relayed_sockets()
        if self.fin_after_eof and not self.cut_done and socks:
            self.flag('Teardown', 'an end closed in answer to EOF but '
                      f'{len(socks)} relayed socket(s) stay open')
        if not self.refused and not self.cut_done:
            for e in self.resets:
                o = 'R' if e == 'L' else 'L'
                b = self.apps[o]
                if socks or (b is not None and not
                             (b.lost or b.closed or b.eof_seen)):
                    self.flag('CloseBoth',
                              f'connection at {e} was lost but '
                              f'{len(socks)} relayed socket(s) stay open / '
                              f'{o} was not closed')
        l_closed = L.lost or L.closed
        r_closed = R is None or R.lost or R.closed
        if l_closed and r_closed and socks:
            self.flag('Released', 'both application ends have closed but '
                      f'{len(socks)} relayed socket(s) stay open')
        if self.refused and not self.cut_done:
            if self.sock_state('L') == 'open' or R is not None or \
                    not (L.eof_seen or L.lost or L.closed):
                self.flag('FailureClean', 'open was refused but the local '
                          'connection was not closed')

    def finish(self, how='close'):
        """End the SSH connection and check that nothing of it is left."""
        loop = self.loop
        self.ct.auto = self.st.auto = True
        if how == 'close':
            self.cconn.close()
        elif how == 'cutc':
            self.ct.cut()
        elif how == 'cuts':
            self.st.cut()
        self.cut_done = True
        loop.run_until_idle()
        self.check_prefix()
        self.check_released()

    def check_released(self):
        loop = self.loop
        if self.lsn_key is not None and self.lsn_key in loop.net.listeners:
            self.flag('NoListenerLeft',
                      f'listener {self.lsn_key} survives its connection')
        socks = self.relayed_sockets()
        if socks:
            self.flag('NoListenerLeft', f'{len(socks)} relayed socket(s) '
                      'survive the SSH connection')
        for e in 'LR':
            app = self.apps[e]
            if app is not None and not (app.lost or app.closed or
                                        app.eof_seen):
                self.flag('NoListenerLeft', f'{e} is not told that the '
                          'connection is gone')
        for t in (self.ct, self.st):
            if not t.closed:
                self.flag('NoListenerLeft', 'SSH transport left open')

    def loop_exceptions(self):
        return [repr(c.get('exception') or c.get('message'))
                for c in self.loop.exceptions]


# ----------------------------------------------------------------------
# projection of a model state onto the observables
# ----------------------------------------------------------------------

def model_obs(S, sizes):
    def data(e, seq):
        return b''.join(unit_bytes(e, d, sizes) for d in seq)
    ch = S['ch']
    return {
        'rcvd': {'L': data('R', S['rcvd']['L']), 'R': data('L', S['rcvd']['R'])},
        'appEof': dict(S['appEof']),
        'appSt': dict(S['appSt']),
        'sock': dict(S['sock']),
        'qOA': [m['t'] for m in S['qOA']],
        'qAO': [m['t'] for m in S['qAO']],
        'lsn': S['lsn'],
        'chan': {'O': 0 if ch['O']['r'] == 'closed' else 1,
                 'A': 0 if ch['A']['r'] in ('closed', 'init') else 1},
    }


def compare(got, want):
    for key in want:
        if got[key] != want[key]:
            g, w = got[key], want[key]
            if key == 'rcvd':
                g = {e: len(v) for e, v in g.items()}
                w = {e: len(v) for e, v in w.items()}
            return f'{key}: code={g!r} model={w!r}'
    return None


def replay(steps, kind='local', keep_l=True, keep_r=True,
           sizes=(1, 300, 5000), finish='close', cut_at=None, window=None):
    """Fine replay of one behaviour: steps = [(lbl, S)], lbl/S of states
    2..n.  cut_at = k: after k steps the SSH connection is ended instead."""
    if isinstance(window, int):
        sizes = (UNIT,)         # one data unit = one CHANNEL_DATA message
    w = World(kind, keep_l, keep_r, sizes, manual=True, window=window)
    res = {'diverged': None, 'l1': [], 'script': [], 'steps': 0}
    w.start()
    try:
        for i, (lbl, S) in enumerate(steps):
            if cut_at is not None and i >= cut_at:
                break
            if not w.possible(lbl):
                # only after a divergence: go on without the model, the
                # monitors still judge what L and R see
                if not res['diverged']:
                    res['diverged'] = f'step {i} {lbl}: not possible'
                continue
            w.do(lbl)
            res['steps'] += 1
            if lbl[0] == 'CUT':
                w.check_released()
            if not res['diverged']:
                d = compare(w.observe(), model_obs(S, w.sizes))
                if d:
                    res['diverged'] = f'step {i} {lbl}: {d}'
            if w.quiescent() and not w.cut_done:
                w.check_quiescent()
        if not w.cut_done and cut_at is None:
            w.drain()
            w.check_quiescent()
        res['obs'] = _brief(w.observe())
        if not w.cut_done:
            w.finish(finish)
        res['l1'] = list(w.l1)
        res['script'] = w.script
        res['loop_exceptions'] = w.loop_exceptions()
        res['features'] = features(w)
    finally:
        w.stop()
    return res


def replay_coarse(labels, kind='local', keep_l=True, keep_r=True,
                  sizes=(1, 300, 5000), finish='close', chunk=None,
                  window=None):
    """Coarse replay: only application actions (and LSN), auto delivery."""
    w = World(kind, keep_l, keep_r, sizes, manual=False, window=window)
    res = {'diverged': None, 'l1': [], 'script': []}
    try:
        w.start()
    except asyncssh.ChannelOpenError as exc:
        w.stop()
        res['l1'] = [('Complete', f'open to a reachable destination failed: '
                      f'{exc.reason}')]
        return res
    try:
        if chunk:
            for t in list(w.loop.net.transports):
                t.chunker = lambda avail, c=chunk: c
        for lbl in labels:
            op = lbl[0]
            if op in ('DOA', 'DAO', 'CUT'):
                continue
            app = w.apps.get(lbl[1]) if op in 'WECX' else None
            if op in 'WECX':
                # the action must be possible for the real end
                if app is None or app.closed or app.lost:
                    continue
                if op in 'WE' and app.fin_sent:
                    continue
                if op == 'X' and (app.fwd_transport() is None or
                                  app.fwd_transport().closed):
                    continue
            if op == 'LSN' and kind in DIRECT_KINDS:
                continue
            w.do(lbl)
        w.loop.run_until_idle()
        w.check_quiescent()
        res['obs'] = _brief(w.observe())
        w.finish(finish)
        res['l1'] = list(w.l1)
        res['script'] = w.script
        res['loop_exceptions'] = w.loop_exceptions()
        res['features'] = features(w)
    finally:
        w.stop()
    return res


def _brief(obs):
    o = dict(obs)
    o['rcvd'] = {e: len(v) for e, v in obs['rcvd'].items()}
    return o


def features(w):
    """schedule features used to name the cause in violation signatures"""
    f = []
    ops = [tuple(s) for s in w.script]
    conf_at = None
    n_dao = 0
    for i, s in enumerate(ops):
        if s[0] == 'DAO':
            n_dao += 1
            if n_dao == 1:
                conf_at = i
    for i, s in enumerate(ops):
        if s[0] == 'X' and s[1] == 'L' and w.manual and \
                (conf_at is None or i < conf_at):
            f.append('local-lost-before-confirm')
    if not w.resets and not w.refused:
        f.append('no-reset')
        if not w.fin_after_eof:
            # both ends sent their FIN before they saw the other's EOF
            f.append('eof-crossing')
    return f


# ======================================================================
# Socks: byte sequences into the real SSHSOCKSForwarder via forward_socks
# ======================================================================

import ipaddress

SOCKS_REPLY = {'authok': b'\x05\x00', 's4ok': bytes((0, 0x5a)) + bytes(6)}


def socks_expected(st):
    """Observable outcome predicted by a Socks.tla state."""
    replies = b''
    for r in st['replies']:
        if r == 's5ok':
            n = 4 if st['atyp'] == 1 else 16
            replies += b'\x05\x00\x00' + bytes((st['atyp'],)) + bytes(n + 2)
        else:
            replies += SOCKS_REPLY[r]
    if st['st'] == 'connected':
        h = st['host']
        raw = bytes(h['b'])
        if h['kind'] == 'name':
            host = raw.decode('utf-8')
        else:
            host = str(ipaddress.ip_address(raw))
        connect = (host, st['port'])
    else:
        connect = None
    return {'replies': replies, 'connect': connect,
            'out': bytes(st['out']), 'closed': bool(st['closed'])}


class SocksWorld:
    """One SSH connection with a forward_socks listener; every case is a
    fresh local connection to the listener."""

    def __init__(self):
        world = self
        self.loop = loop = new_loop()
        self.requests = []          # (dest_host, dest_port) seen by the server
        self.sessions = []          # bytearray per accepted connection
        k = keys()

        class Server(asyncssh.SSHServer):
            def begin_auth(self, username):
                return False

            def connection_requested(self, dest_host, dest_port, orig_host,
                                     orig_port):
                world.requests.append((dest_host, dest_port))
                buf = bytearray()
                world.sessions.append(buf)

                async def handler(reader, writer):
                    try:
                        while True:
                            data = await reader.read(65536)
                            if not data:
                                break
                            buf.extend(data)
                    except Exception:   # pylint: disable=broad-except
                        pass
                    writer.close()
                return handler

        async def go():
            self.acceptor = await asyncssh.listen(
                '127.0.0.1', 2222, server_factory=Server,
                server_host_keys=[k['host']])
            self.conn = await asyncssh.connect(
                '127.0.0.1', 2222, known_hosts=None, config=None,
                client_keys=None)
            self.lsn = await self.conn.forward_socks('127.0.0.1', 0)
        loop.run_until_complete(go())
        loop.run_until_idle()
        self.addr = ('127.0.0.1', self.lsn.get_port())

    def run_case(self, chunks):
        """Feed the chunks (one data_received call each) to a new SOCKS
        connection; return what could be observed."""
        loop = self.loop
        app = App(self, 'L', True)
        n_req, n_exc = len(self.requests), len(loop.exceptions)
        n_sess = len(self.sessions)

        async def cl():
            await loop.create_connection(lambda: app, *self.addr)
        loop.run_until_complete(cl())
        loop.run_until_idle()
        ft = app.t.peer
        ft.auto = False             # exactly one data_received per chunk
        for c in chunks:
            if not c:
                continue
            app.t.write(c)
            if ft.closed:
                break
            # from a loop callback, like a selector's read event: whatever
            # data_received raises reaches the loop's exception handler
            loop.run_callback(ft.deliver)
        ft.auto = True
        loop.run_until_idle()
        fwd_closed = ft.closed or ft.closing
        obs = {'replies': bytes(app.data),
               'connect': (self.requests[n_req] if len(self.requests) > n_req
                           else None),
               'n_connect': len(self.requests) - n_req,
               'closed': bool(fwd_closed),
               'saw_close': app.eof_seen or app.lost,
               'exceptions': [repr(c.get('exception') or c.get('message'))
                              for c in loop.exceptions[n_exc:]]}
        # end the case: the client goes away; everything of it must go too
        if not app.lost:
            app.t.close()
        loop.run_until_idle()
        obs['out'] = bytes(self.sessions[n_sess]) \
            if len(self.sessions) > n_sess else b''
        obs['leak'] = len([t for t in loop.net.transports
                           if isinstance(t.protocol, SSHForwarder)
                           and not t.closed])
        obs['exceptions'] += [repr(c.get('exception') or c.get('message'))
                              for c in loop.exceptions[n_exc +
                                                       len(obs['exceptions']):]]
        return obs

    def drop_leaked(self):
        """harness housekeeping after a leak was recorded"""
        for t in list(self.loop.net.transports):
            if isinstance(t.protocol, SSHForwarder) and not t.closed:
                t.cut()
        self.loop.run_until_idle()

    def stop(self):
        try:
            self.conn.abort()
            self.acceptor.close()
            self.loop.run_until_idle()
        except BaseException:           # pylint: disable=broad-except
            pass
        close_loop(self.loop)


def socks_input(steps):
    """bytes of a Socks.tla behaviour: steps = [(lbl, state)]"""
    data = bytearray()
    for lbl, _ in steps:
        data += bytes((lbl[1],)) * lbl[2]
    return bytes(data)


def socks_segmentations(data, thorough=False):
    """whole, split at every position (capped), byte at a time"""
    segs = [('whole', [data])]
    n = len(data)
    if n <= 40 or (thorough and n <= 80):
        cuts = range(1, n)
    else:
        cuts = list(range(1, 30)) + list(range(n - 10, n))
    for i in cuts:
        segs.append((f'split@{i}', [data[:i], data[i:]]))
    if n <= 64:
        segs.append(('bytes', [data[i:i + 1] for i in range(n)]))
    return segs


def socks_judge(obs, want, overlong_field):
    """-> (l1 list of (clause, detail), divergence or None).
    L1 (property): a connection is requested only for, and exactly to, the
    destination of a complete request; after the forwarder closed the
    connection nothing further happens; nothing escapes into the loop."""
    l1 = []
    if obs['exceptions']:
        l1.append(('ParseAfterClose' if obs['closed'] else 'Exception',
                   f'exception reached the event loop: {obs["exceptions"][0]}'))
    if obs['n_connect'] > 1:
        l1.append(('ConnectOnce', 'more than one connection requested'))
    if obs['connect'] is not None and want['connect'] is None and \
            not overlong_field:
        l1.append(('ConnectOnlyIfAsked',
                   f'connection to {obs["connect"]} requested but the input '
                   'is not a complete valid request'))
    if obs['connect'] is not None and want['connect'] is not None and \
            tuple(obs['connect']) != tuple(want['connect']):
        l1.append(('Destination', f'requested {obs["connect"]}, client asked '
                   f'for {want["connect"]}'))
    if want['connect'] is not None and obs['connect'] is not None and \
            obs['out'] != want['out']:
        l1.append(('RelayFIFO', 'bytes following the request were not '
                   f'relayed intact: {obs["out"][:20]!r} != {want["out"][:20]!r}'))
    if obs['leak']:
        pending = want['connect'] is None and not want['closed']
        l1.append(('Released', 'the forwarder\'s socket is left open after '
                   'the SOCKS client went away' +
                   (' in the middle of its request' if pending else '')))
    div = None
    if not l1:
        for key in ('replies', 'connect', 'closed'):
            if overlong_field and key in ('connect', 'closed', 'replies'):
                continue
            if obs[key] != want[key]:
                div = f'{key}: code={obs[key]!r} model={want[key]!r}'
                break
    return l1, div


# ======================================================================
# ForwardPerm: one row of the decision table against a real server
# ======================================================================

PERM_DESTS = {'permitted': (R_HOST, R_PORT), 'otherhost': ('127.0.0.2', R_PORT),
              'otherport': (R_HOST, R_PORT + 1), 'alias': ('desthost', R_PORT)}
KEY_OPTS = {'none': '', 'no-port-forwarding': 'no-port-forwarding',
            'restrict': 'restrict',
            'permitopen-hp': f'permitopen="{R_HOST}:{R_PORT}"',
            'permitopen-hstar': f'permitopen="{R_HOST}:*"'}
_creds = {}


CERT_SETS = {       # permit-* extensions a certificate carries
    'empty': (), 'pf': ('port_forwarding',), 'pty': ('pty',),
    'x11': ('x11_forwarding',), 'agent': ('agent_forwarding',),
    'rc': ('user_rc',),
    'without': ('x11_forwarding', 'agent_forwarding', 'pty', 'user_rc'),
    'with': ('x11_forwarding', 'agent_forwarding', 'port_forwarding', 'pty',
             'user_rc')}
CERT_CRIT = {'none': {}, 'force-command': {'force_command': 'true'},
             'source-ok': {'source_address': ['127.0.0.0/8']},
             'source-bad': {'source_address': ['10.9.8.0/24']}}


def credentials(key_opt, cert, crit='none'):
    """(authorized_keys object for the server, client_keys for the client)"""
    ck = (key_opt, cert, crit)
    if ck not in _creds:
        k = keys()
        opts = KEY_OPTS[key_opt]
        if cert == 'none':
            pub = k['user'].export_public_key('openssh').decode().strip()
            line = (opts + ' ' + pub).strip()
            client_keys = [k['user']]
        else:
            pub = k['ca'].export_public_key('openssh').decode().strip()
            line = 'cert-authority' + (',' + opts if opts else '') + ' ' + pub
            exts = {f'permit_{e}': e in CERT_SETS[cert]
                    for e in CERT_SETS['with']}
            c = k['ca'].generate_user_certificate(
                k['user'], 'c20-user', principals=['user'], **exts,
                **CERT_CRIT[crit])
            want = {'permit-' + e.replace('_', '-') for e in CERT_SETS[cert]}
            got = {o.lower() for o in c.options if o.startswith('permit-')}
            if got != want:
                raise RuntimeError(f'certificate {cert}: options {got}')
            client_keys = [(k['user'], c)]
        _creds[ck] = (line, client_keys)
    line, client_keys = _creds[ck]
    return asyncssh.import_authorized_keys(line + '\n'), client_keys


class EchoR(asyncio.Protocol):
    """destination: answers every chunk with pong:<chunk>"""

    def __init__(self, hits, name):
        self.hits, self.name = hits, name

    def connection_made(self, transport):
        self.t = transport
        self.hits.append(self.name)

    def data_received(self, data):
        self.t.write(b'pong:' + data)


def perm_case(row, cancel=False):
    """Materialise one ForwardPerm row. Returns observations:
    served, dest_hits, app_calls, listener_after_cancel, left (after the
    connection ended), auth_ok, detail."""
    loop = new_loop()
    loop.net.dns['desthost'] = R_HOST
    obs = {'served': False, 'dest_hits': [], 'app_calls': 0, 'detail': '',
           'listener_after_cancel': None, 'left': [], 'auth_ok': False,
           'exceptions': []}
    req, app_ans = row['req'], row['app']
    akeys, client_keys = credentials(row['key'], row['cert'],
                                     row.get('crit', 'none'))
    k = keys()
    state = {}

    async def handler(reader, writer):
        try:
            while True:
                data = await reader.read(65536)
                if not data:
                    break
                writer.write(b'handler:' + data)
        except Exception:               # pylint: disable=broad-except
            pass
        writer.close()

    class Server(asyncssh.SSHServer):
        def connection_made(self, conn):
            state['sconn'] = conn

        def begin_auth(self, username):
            return True

        def _open(self):
            obs['app_calls'] += 1
            if app_ans == 'false':
                return False
            if app_ans == 'true':
                return True
            if app_ans == 'raises':
                raise asyncssh.ChannelOpenError(
                    asyncssh.OPEN_CONNECT_FAILED, 'application says no')
            return handler

        def connection_requested(self, dest_host, dest_port, orig_host,
                                 orig_port):
            return self._open()

        def unix_connection_requested(self, dest_path):
            return self._open()

        def server_requested(self, listen_host, listen_port):
            obs['app_calls'] += 1
            if app_ans == 'false':
                return False
            if app_ans == 'true':
                return True
            return lambda orig_host, orig_port: True      # accept handler

        def unix_server_requested(self, listen_path):
            obs['app_calls'] += 1
            if app_ans == 'false':
                return False
            if app_ans == 'true':
                return True
            return state['sconn'].forward_local_path(listen_path, listen_path)

    async def talk_stream(reader, writer, want_prefix):
        writer.write(b'ping')
        data = await reader.read(100)
        writer.close()
        return data

    async def talk_socket(addr, preamble=(), skip=0):
        """connect a plain socket, optional SOCKS preamble, then ping"""
        app = App(obs_world, 'L', True)
        if addr[0] == 'unix':
            await loop.create_unix_connection(lambda: app, addr[1])
        else:
            await loop.create_connection(lambda: app, *addr)
        for m in preamble:
            app.t.write(m)
            for _ in range(6):
                await asyncio.sleep(0)
        app.t.write(b'ping')
        return app

    class _W:                           # minimal "world" for App
        fin_after_eof = False
    obs_world = _W()

    async def go():
        acceptor = await asyncssh.listen(
            '127.0.0.1', 2222, server_factory=Server,
            server_host_keys=[k['host']], authorized_client_keys=akeys)
        state['acceptor'] = acceptor
        servers = []
        for name, addr in PERM_DESTS.items():
            if name == 'alias':
                continue
            servers.append(await loop.create_server(
                lambda n=name: EchoR(obs['dest_hits'], n), *addr))
        servers.append(await loop.create_unix_server(
            lambda: EchoR(obs['dest_hits'], 'unix'), R_PATH))
        state['servers'] = servers
        try:
            conn = await asyncssh.connect(
                '127.0.0.1', 2222, known_hosts=None, config=None,
                username='user', client_keys=client_keys,
                agent_path=None, password=None)
        except asyncssh.PermissionDenied as exc:
            obs['detail'] = f'authentication failed: {exc}'
            return
        state['conn'] = conn
        obs['auth_ok'] = True
        dest = PERM_DESTS[row['dest']]
        try:
            if req == 'direct-tcpip':
                reader, writer = await conn.open_connection(*dest)
                data = await talk_stream(reader, writer, b'')
                obs['served'] = data in (b'pong:ping', b'handler:ping')
                obs['detail'] = repr(data)
            elif req == 'direct-streamlocal':
                reader, writer = await conn.open_unix_connection(R_PATH)
                data = await talk_stream(reader, writer, b'')
                obs['served'] = data in (b'pong:ping', b'handler:ping')
                obs['detail'] = repr(data)
            elif req == 'socks':
                lsn = await conn.forward_socks('127.0.0.1', 0)
                state['client_lsn'] = ('127.0.0.1', lsn.get_port())
                kind = 'socks5h' if row['dest'] == 'alias' else 'socks5'
                ip = bytes(int(x) for x in dest[0].split('.')) \
                    if kind == 'socks5' else b''
                p = bytes((dest[1] >> 8, dest[1] & 255))
                if kind == 'socks5':
                    msgs = [b'\x05\x01\x00', b'\x05\x01\x00\x01' + ip + p]
                else:
                    h = dest[0].encode()
                    msgs = [b'\x05\x01\x00',
                            b'\x05\x01\x00\x03' + bytes((len(h),)) + h + p]
                state['L'] = await talk_socket(state['client_lsn'], msgs)
            elif req == 'tcpip-forward':
                lsn = await conn.forward_remote_port('127.0.0.1', 0,
                                                     R_HOST, R_PORT)
                state['lsn'] = lsn
                state['server_lsn'] = ('127.0.0.1', lsn.get_port())
                state['L'] = await talk_socket(state['server_lsn'])
            elif req == 'streamlocal-forward':
                lsn = await conn.forward_remote_path(L_PATH, R_PATH)
                state['lsn'] = lsn
                state['server_lsn'] = ('unix', L_PATH)
                state['L'] = await talk_socket(state['server_lsn'])
        except asyncssh.ChannelOpenError as exc:
            obs['detail'] = f'ChannelOpenError {exc.code}: {exc.reason}'
        except asyncssh.ChannelListenError as exc:
            obs['detail'] = f'ChannelListenError: {exc}'

    try:
        loop.run_until_complete(go())
        loop.run_until_idle()
        app = state.get('L')
        if app is not None:
            data = bytes(app.data)
            if req == 'socks':
                # the SOCKS replies come first (sent before the open)
                data = data[2 + 10:]
            obs['served'] = data in (b'pong:ping', b'handler:ping')
            obs['detail'] = repr(data) + (' closed' if app.eof_seen or
                                          app.lost else '')
            if not app.lost:
                app.t.close()
            loop.run_until_idle()
        if 'server_lsn' in state:
            obs['listener_created'] = state['server_lsn'] in loop.net.listeners
            if cancel:
                async def do_cancel():
                    state['lsn'].close()
                    await state['lsn'].wait_closed()
                loop.run_until_complete(do_cancel())
                loop.run_until_idle()
                obs['listener_after_cancel'] = \
                    state['server_lsn'] in loop.net.listeners
        # the connection ends
        if 'conn' in state:
            state['conn'].close()
            loop.run_until_idle()
        harness_owned = {('127.0.0.1', 2222), ('unix', R_PATH)} | \
            {a for n, a in PERM_DESTS.items() if n != 'alias'}
        obs['left'] = [str(a) for a in loop.net.listeners
                       if a not in harness_owned]
        obs['left'] += [f'relayed socket {t.id}' for t in loop.net.transports
                        if isinstance(t.protocol, SSHForwarder)
                        and not t.closed]
        obs['exceptions'] = [repr(c.get('exception') or c.get('message'))
                             for c in loop.exceptions]
    except Deadlock as exc:
        obs['detail'] += f' DEADLOCK {exc}'
        obs['deadlock'] = True
    finally:
        try:
            for s in state.get('servers', []):
                s.close()
            if 'acceptor' in state:
                state['acceptor'].close()
            if 'conn' in state:
                state['conn'].abort()
            loop.run_until_idle()
        except BaseException:           # pylint: disable=broad-except
            pass
        close_loop(loop)
    return obs


# ======================================================================
# Forward: schedules without model states, bulk transfer, isolation
# ======================================================================

def run_labels(labels, kind='local', keep_l=True, keep_r=True,
               sizes=(1, 300, 5000), finish='close', window=None):
    """Fine-mode execution of a label list (no conformance): monitors only.
    Labels that are not possible in the reached state are skipped."""
    if isinstance(window, int):
        sizes = (UNIT,)
    w = World(kind, keep_l, keep_r, sizes, manual=True, window=window)
    res = {'l1': [], 'script': [], 'diverged': None}
    w.start()
    try:
        for lbl in labels:
            lbl = list(lbl)
            op = lbl[0]
            if w.cut_done:
                break
            if not w.possible(lbl):
                continue
            w.do(lbl)
            if lbl[0] == 'CUT':
                w.check_released()
            elif w.quiescent():
                w.check_quiescent()
        if not w.cut_done:
            w.drain()
            w.check_quiescent()
            res['relayed_after_drain'] = len(w.relayed_sockets())
            res['chan_after_drain'] = w.observe()['chan']
            w.finish(finish)
        res['l1'] = list(w.l1)
        res['script'] = w.script
        res['obs'] = _brief(w.observe())
        res['loop_exceptions'] = w.loop_exceptions()
        res['features'] = features(w)
    finally:
        w.stop()
    return res


def bulk_case(kind, nbytes=1 << 20, piece=65536, paused='R', chunk=None):
    """Large transfer in both directions while one receiver has paused
    reading for a while: nothing may be lost or reordered."""
    w = World(kind, True, True, manual=False)
    res = {'l1': [], 'info': {}}
    w.start()
    try:
        loop = w.loop
        if chunk:
            for t in list(loop.net.transports):
                if not isinstance(t.protocol, asyncssh.SSHClientConnection) \
                        and not isinstance(t.protocol,
                                           asyncssh.SSHServerConnection):
                    t.chunker = lambda avail, c=chunk: c
        L, R = w.apps['L'], w.apps['R']
        if R is None:
            res['l1'].append(('Complete', 'destination never connected'))
            return res
        victim = R if paused == 'R' else L
        sender_e = 'L' if paused == 'R' else 'R'
        sender = w.apps[sender_e]
        can_pause = isinstance(victim, App)
        if can_pause:
            victim.t.pause_reading()
        pattern = bytes(range(256)) * (piece // 256)
        for i in range(nbytes // piece):
            data = bytes((i & 255,)) + pattern[1:]
            w.sent[sender_e] += data
            sender.write(data)
            loop.run_until_idle()
        res['info']['sender_paused'] = getattr(sender, 'paused', None)
        res['info']['received_while_paused'] = len(victim.payload())
        # reverse direction keeps flowing meanwhile
        back = b'reverse-direction-data' * 100
        other_e = 'R' if sender_e == 'L' else 'L'
        w.sent[other_e] += back
        w.apps[other_e].write(back)
        loop.run_until_idle()
        w.check_prefix()
        if sender.payload() != back:
            w.flag('HalfClose', 'reverse direction does not flow while the '
                   'forward direction is blocked')
        if can_pause:
            victim.t.resume_reading()
        loop.run_until_idle()
        w.check_prefix()
        sender.write_eof()
        loop.run_until_idle()
        w.check_quiescent()
        w.finish('close')
        res['l1'] = list(w.l1)
        res['loop_exceptions'] = w.loop_exceptions()
    finally:
        w.stop()
    return res


def isolation_case(kind, n=3):
    """n simultaneous connections through one listener: every pair only
    ever sees its own bytes."""
    w = World(kind, True, True, manual=False)
    res = {'l1': []}
    w.start()
    try:
        loop = w.loop
        ls = [w.apps['L']]
        for _ in range(n - 1):
            app = App(w, 'L', True)

            async def cl(app=app):
                if w.lsn_key[0] == 'unix':
                    await loop.create_unix_connection(lambda: app, L_PATH)
                else:
                    await loop.create_connection(lambda: app, *w.lsn_key)
            loop.run_until_complete(cl())
            loop.run_until_idle()
            if kind.startswith('socks'):
                msgs, replies = socks_request(kind, 'desthost', R_PORT)
                for m in msgs:
                    app.t.write(m)
                    loop.run_until_idle()
                app.skip = len(b''.join(replies))
            ls.append(app)
        if len(w.r_apps) != n:
            res['l1'].append(('RelayFIFO', f'{len(w.r_apps)} destination '
                              f'connections for {n} local ones'))
            return res
        sent_l = [bytearray() for _ in range(n)]
        sent_r = [bytearray() for _ in range(n)]
        for rnd in range(4):
            for i in range(n):
                d = bytes((65 + i,)) * (1 + 37 * i + 1000 * rnd)
                ls[i].t.write(d)
                sent_l[i] += d
                d = bytes((97 + i,)) * (3 + 11 * i + 700 * rnd)
                w.r_apps[i].t.write(d)
                sent_r[i] += d
            loop.run_until_idle()
        w.sent['L'], w.sent['R'] = sent_l[0], sent_r[0]
        for i in range(n):
            if w.r_apps[i].payload() != bytes(sent_l[i]) or \
                    ls[i].payload() != bytes(sent_r[i]):
                res['l1'].append(('RelayFIFO', f'connection {i} did not '
                                  'receive exactly its own bytes'))
        # closing one connection leaves the others alone
        ls[0].t.close()
        loop.run_until_idle()
        for i in range(1, n):
            if ls[i].eof_seen or ls[i].lost or w.r_apps[i].eof_seen:
                res['l1'].append(('CloseBoth', 'closing one forwarded '
                                  'connection closed another one'))
        w.finish('close')
        for a in ls[1:] + w.r_apps[1:]:
            if not (a.eof_seen or a.lost):
                res['l1'].append(('NoListenerLeft', 'an end was not told '
                                  'that the connection is gone'))
        res['l1'] += w.l1
        res['loop_exceptions'] = w.loop_exceptions()
    finally:
        w.stop()
    return res


# ======================================================================
# Real loopback sockets on the real selector loop (thorough tier): only
# timing-insensitive monitors (bytes complete and in order, EOF passed on,
# a reset ends the other side, nothing left after the connection ended)
# ======================================================================

def real_loop_cases(workdir, kinds=('local', 'remote', 'socks5', 'lpath'),
                    timeout=20.0):
    import os
    import shutil
    import tempfile
    results = []
    k = keys()

    class Server(asyncssh.SSHServer):
        def begin_auth(self, username):
            return False

        def connection_requested(self, dest_host, dest_port, orig_host,
                                 orig_port):
            return True

        def server_requested(self, listen_host, listen_port):
            return True

        def unix_connection_requested(self, dest_path):
            return True

    async def scenario(kind, pattern, tmp):
        l1 = []
        r_conns = []
        r_done = asyncio.Event()
        r_got = bytearray()
        r_state = {}
        r_reply = bytes(range(256)) * 2048          # 512 KiB

        async def r_handler(reader, writer):
            r_conns.append(writer)
            try:
                if pattern == 'reset':
                    # keep writing until the connection is torn down
                    try:
                        while True:
                            writer.write(b'x' * 65536)
                            await asyncio.wait_for(writer.drain(), timeout)
                            await asyncio.sleep(0.01)
                    except (ConnectionError, asyncio.TimeoutError) as exc:
                        r_state['ended'] = type(exc).__name__
                    return
                if pattern == 'r-first':
                    writer.write(r_reply)
                while True:
                    data = await reader.read(65536)
                    if not data:
                        break
                    r_got.extend(data)
                r_state['eof'] = True
                if pattern != 'r-first':
                    writer.write(r_reply)       # after L's half-close
                await writer.drain()
                writer.close()
            finally:
                r_done.set()

        unix = kind == 'lpath'
        acceptor = await asyncssh.listen('127.0.0.1', 0, server_factory=Server,
                                         server_host_keys=[k['host']])
        sport = acceptor.get_port()
        if unix:
            rpath = os.path.join(tmp, 'r.sock')
            rsrv = await asyncio.start_unix_server(r_handler, rpath)
        else:
            rsrv = await asyncio.start_server(r_handler, '127.0.0.1', 0)
            rport = rsrv.sockets[0].getsockname()[1]
        conn = await asyncssh.connect('127.0.0.1', sport, known_hosts=None,
                                      config=None, client_keys=None)
        try:
            if kind == 'local':
                lsn = await conn.forward_local_port('127.0.0.1', 0,
                                                    '127.0.0.1', rport)
            elif kind == 'remote':
                lsn = await conn.forward_remote_port('127.0.0.1', 0,
                                                     '127.0.0.1', rport)
            elif kind == 'socks5':
                lsn = await conn.forward_socks('127.0.0.1', 0)
            else:
                lpath = os.path.join(tmp, 'l.sock')
                lsn = await conn.forward_local_path(lpath, rpath)
            if unix:
                reader, writer = await asyncio.open_unix_connection(lpath)
            else:
                lport = lsn.get_port()
                reader, writer = await asyncio.open_connection('127.0.0.1',
                                                               lport)
            sent = bytearray()
            if kind == 'socks5':
                p = bytes((rport >> 8, rport & 255))
                # request and first payload in one segment (early data)
                writer.write(b'\x05\x01\x00')
                rep = await asyncio.wait_for(reader.readexactly(2), timeout)
                writer.write(b'\x05\x01\x00\x01\x7f\x00\x00\x01' + p)
                rep += await asyncio.wait_for(reader.readexactly(10), timeout)
                if rep != b'\x05\x00\x05\x00\x00\x01' + bytes(6):
                    l1.append(('SocksReply', rep.hex()))
            if pattern == 'reset':
                # L goes away abruptly while R keeps sending
                await asyncio.sleep(0.05)
                import socket as _s
                import struct
                sock = writer.get_extra_info('socket')
                if not unix:
                    sock.setsockopt(_s.SOL_SOCKET, _s.SO_LINGER,
                                    struct.pack('ii', 1, 0))
                writer.transport.abort()
                try:
                    await asyncio.wait_for(r_done.wait(), timeout)
                except asyncio.TimeoutError:
                    l1.append(('CloseBoth', 'local connection was reset but '
                               'the destination was never closed'))
            else:
                # immediately after connect: before the channel is confirmed
                for i in range(16):
                    chunk = bytes(((i * 7 + j) % 251 for j in range(4099))) * 8
                    writer.write(chunk)
                    sent += chunk
                    if i % 5 == 0:
                        await writer.drain()
                writer.write_eof()
                got = await asyncio.wait_for(reader.read(-1), timeout)
                await asyncio.wait_for(r_done.wait(), timeout)
                if bytes(r_got) != bytes(sent):
                    l1.append(('Complete', f'destination received '
                               f'{len(r_got)} of {len(sent)} bytes'))
                if not r_state.get('eof'):
                    l1.append(('HalfClose', 'destination never saw EOF'))
                if got != r_reply:
                    l1.append(('Complete', f'local end received {len(got)} '
                               f'of {len(r_reply)} bytes sent after / '
                               'around its half-close'))
                writer.close()
        finally:
            conn.close()
            await asyncio.wait_for(conn.wait_closed(), timeout)
        await asyncio.sleep(0.05)
        # nothing of the connection is left: the forward port refuses
        if kind in ('local', 'socks5', 'remote'):
            try:
                _, w2 = await asyncio.wait_for(
                    asyncio.open_connection('127.0.0.1', lport), timeout)
                w2.close()
                l1.append(('NoListenerLeft', f'port {lport} still accepts '
                           'after the SSH connection was closed'))
            except OSError:
                pass
        else:
            try:
                _, w2 = await asyncio.open_unix_connection(lpath)
                w2.close()
                l1.append(('NoListenerLeft', 'UNIX listener still accepts '
                           'after the SSH connection was closed'))
            except OSError:
                pass
        rsrv.close()
        acceptor.close()
        await acceptor.wait_closed()
        return l1

    old = None
    tmp = tempfile.mkdtemp(prefix='c20r', dir=workdir)
    loop = asyncio.new_event_loop()
    try:
        asyncio.set_event_loop(loop)
        for kind in kinds:
            for pattern in ('l-first', 'r-first', 'reset'):
                sub = tempfile.mkdtemp(prefix='s', dir=tmp)
                try:
                    l1 = loop.run_until_complete(
                        asyncio.wait_for(scenario(kind, pattern, sub),
                                         6 * timeout))
                    results.append((kind, pattern, l1, None))
                except Exception as exc:    # pylint: disable=broad-except
                    results.append((kind, pattern, [], repr(exc)))
    finally:
        try:
            loop.run_until_complete(loop.shutdown_asyncgens())
        except Exception:                   # pylint: disable=broad-except
            pass
        asyncio.set_event_loop(None)
        loop.close()
        shutil.rmtree(tmp, ignore_errors=True)
    return results


# ======================================================================
# Listeners: several listeners on one connection (specs/Forward/Listeners)
# ======================================================================

ML_HOSTS = {'h1': '127.0.0.1', 'h2': '127.0.0.2'}
ML_DEST_PORT = 7100


def _free_ports(n):
    """n port numbers that are free on every listen address right now"""
    import socket as _s
    out = []
    for _ in range(200):
        s1 = _s.socket()
        try:
            s1.bind((ML_HOSTS['h1'], 0))
            p = s1.getsockname()[1]
            s2 = _s.socket()
            try:
                s2.bind((ML_HOSTS['h2'], p))
                if p not in out:
                    out.append(p)
            except OSError:
                pass
            finally:
                s2.close()
        finally:
            s1.close()
        if len(out) == n:
            return out
    raise RuntimeError('no free loopback ports')


class TagEcho(asyncio.Protocol):
    """destination k: answers every chunk with D<k>:<chunk>"""

    def __init__(self, world, k):
        self.world, self.k = world, k

    def connection_made(self, transport):
        self.t = transport
        self.world.hits.append(self.k)

    def data_received(self, data):
        self.t.write(b'D%d:' % self.k + data)


class MultiWorld:
    """One SSH connection; listener slot k forwards to destination k."""

    def __init__(self, nslots=4, dst_variant=0):
        world = self
        self.loop = loop = new_loop()
        self.n = nslots
        self.dst_variant = dst_variant
        self.hits = []              # destination k was connected to
        self.requests = []          # server: (dest, orig) of direct-tcpip opens
        self.factory_calls = []     # (k, orig_host, orig_port)
        self.wire = []              # channel opens written by the server
        self.lsn = {}
        self.addr = {}              # slot -> address L connects to
        self.cfg = {}
        self.open_slots = set()
        self.closed_slots = set()
        self.l1 = []
        self.nping = 0
        k = keys()
        self.fixed = dict(zip(('P', 'Q'), _free_ports(2)))
        _verif.set_sink(self._sink)

        class Server(asyncssh.SSHServer):
            def connection_made(self, conn):
                world.sconn = conn

            def begin_auth(self, username):
                return False

            def connection_requested(self, dest_host, dest_port, orig_host,
                                     orig_port):
                world.requests.append(((dest_host, dest_port),
                                       (orig_host, orig_port)))
                return True

            def unix_connection_requested(self, dest_path):
                world.requests.append((dest_path, None))
                return True

            def server_requested(self, listen_host, listen_port):
                return True

            def unix_server_requested(self, listen_path):
                return True

        async def go():
            self.acceptor = await asyncssh.listen(
                '127.0.0.1', 2222, server_factory=Server,
                server_host_keys=[k['host']])
            self.dests = []
            for i in range(1, nslots + 1):
                self.dests.append(await loop.create_server(
                    lambda i=i: TagEcho(world, i), '127.0.0.1',
                    ML_DEST_PORT + i))
                self.dests.append(await loop.create_unix_server(
                    lambda i=i: TagEcho(world, i), f'c20-d{i}.sock'))
            self.conn = await asyncssh.connect(
                '127.0.0.1', 2222, known_hosts=None, config=None,
                client_keys=None)
        loop.run_until_complete(go())
        loop.run_until_idle()

    def _sink(self, ev, f):
        if ev == 'pkt_out' and f['pkttype'] == 90 and \
                f['conn'] is getattr(self, 'sconn', None):
            from asyncssh.packet import SSHPacket
            try:
                p = SSHPacket(f['payload'])
                p.get_byte()
                ctype = p.get_string()
                p.get_uint32(), p.get_uint32(), p.get_uint32()
                if ctype == b'forwarded-tcpip':
                    rec = ('tcp', p.get_string().decode(), p.get_uint32(),
                           p.get_string().decode(), p.get_uint32())
                elif ctype == b'forwarded-streamlocal@openssh.com':
                    rec = ('unix', p.get_string().decode())
                else:
                    rec = (ctype.decode(),)
            except Exception as exc:    # pylint: disable=broad-except
                rec = ('unparsable', repr(exc))
            self.wire.append(rec)

    def flag(self, clause, detail, key=''):
        if not any(c == clause for c, _, _ in self.l1):
            self.l1.append((clause, detail, key))

    def dest_is_unix(self, k):
        return (k + self.dst_variant) % 2 == 0

    # ------------------------------------------------------------------
    def open(self, k, c):
        """-> True if the listener was created"""
        loop, conn = self.loop, self.conn
        kind = c['kind']
        self.cfg[k] = c
        host = ML_HOSTS.get(c['host'])
        port = 0 if c['port'] == 'dyn' else self.fixed.get(c['port'], 0)
        dhost, dport = '127.0.0.1', ML_DEST_PORT + k
        dpath, lpath = f'c20-d{k}.sock', f'c20-l{k}.sock'
        unix_dst = self.dest_is_unix(k)
        world = self

        def handler_factory(orig_host, orig_port):
            world.factory_calls.append((k, orig_host, orig_port))
            world.hits.append(k)

            async def handler(reader, writer):
                try:
                    while True:
                        data = await reader.read(65536)
                        if not data:
                            break
                        writer.write(b'D%d:' % k + data)
                except Exception:       # pylint: disable=broad-except
                    pass
                writer.close()
            return handler

        async def go():
            if kind == 'rfwd':
                if unix_dst:
                    return await conn.forward_remote_port_to_path(host, port,
                                                                  dpath)
                return await conn.forward_remote_port(host, port, dhost, dport)
            if kind == 'rsrv':
                return await conn.start_server(handler_factory, host, port)
            if kind == 'lfwd':
                if unix_dst:
                    return await conn.forward_local_port_to_path(host, port,
                                                                 dpath)
                return await conn.forward_local_port(host, port, dhost, dport)
            if kind == 'socks':
                return await conn.forward_socks(host, port)
            if kind == 'lpath':
                if unix_dst:
                    return await conn.forward_local_path(lpath, dpath)
                return await conn.forward_local_path_to_port(lpath, dhost,
                                                             dport)
            if kind == 'rpath':
                if unix_dst:
                    return await conn.forward_remote_path(lpath, dpath)
                return await conn.forward_remote_path_to_port(lpath, dhost,
                                                              dport)
            raise ValueError(kind)
        lsn = None
        for attempt in (0, 1):
            try:
                lsn = loop.run_until_complete(go())
                break
            except (OSError, asyncssh.ChannelListenError):
                loop.run_until_idle()
                ours = any(self.cfg[j]['port'] == c['port'] and
                           self.cfg[j]['host'] == c['host'] and
                           self.cfg[j]['kind'] not in ('lpath', 'rpath')
                           for j in self.open_slots)
                if attempt or ours or c['port'] not in self.fixed or \
                        any(self.cfg[j]['port'] == c['port']
                            for j in self.open_slots | self.closed_slots
                            if j != k):
                    return False
                # somebody else on this machine took the probed port
                self.fixed[c['port']] = _free_ports(1)[0]
                port = self.fixed[c['port']]
        loop.run_until_idle()
        if lsn is None:
            return False
        self.lsn[k] = lsn
        self.addr[k] = ('unix', lpath) if kind in ('lpath', 'rpath') \
            else (host, lsn.get_port())
        self.open_slots.add(k)
        return True

    def close(self, k):
        lsn = self.lsn[k]

        async def go():
            lsn.close()
            await lsn.wait_closed()
        self.loop.run_until_complete(go())
        self.loop.run_until_idle()
        self.open_slots.discard(k)
        self.closed_slots.add(k)

    def connect(self, k):
        """Connect into listener k's address, send a ping, return the slot
        whose destination answered (0: refused / nothing came back)."""
        loop = self.loop
        c = self.cfg[k]
        flag = lambda clause, detail: self.flag(clause, detail, f'{c["kind"]}:{c["port"]}')
        addr = self.addr[k]
        app = App(self, 'L', True)
        n_hits, n_req, n_wire, n_fact = (len(self.hits), len(self.requests),
                                         len(self.wire),
                                         len(self.factory_calls))

        async def cl():
            if addr[0] == 'unix':
                await loop.create_unix_connection(lambda: app, addr[1])
            else:
                await loop.create_connection(lambda: app, *addr)
        try:
            loop.run_until_complete(cl())
        except OSError:
            loop.run_until_idle()
            return 0
        loop.run_until_idle()
        sockname = app.t.get_extra_info('sockname')
        skip = 0
        if c['kind'] == 'socks':
            p = ML_DEST_PORT + k
            for m in (b'\x05\x01\x00', b'\x05\x01\x00\x01\x7f\x00\x00\x01' +
                      bytes((p >> 8, p & 255))):
                app.t.write(m)
                loop.run_until_idle()
            skip = 12
        self.nping += 1
        ping = b'ping-%d-%d' % (k, self.nping)
        app.t.write(ping)
        loop.run_until_idle()
        data = bytes(app.data[skip:])
        got = 0
        if data.endswith(ping) and data[:1] == b'D' and b':' in data:
            try:
                got = int(data[1:data.index(b':')])
            except ValueError:
                got = -1
            if data != b'D%d:' % got + ping:
                got = -1
        elif data:
            got = -1
        if not app.lost:
            app.t.close()
        loop.run_until_idle()
        # ---- monitors -------------------------------------------------
        hits = self.hits[n_hits:]
        is_open = k in self.open_slots
        if is_open:
            if got not in (k, 0) or any(h != k for h in hits):
                flag('Routing', f'bytes entering listener {k} '
                          f'({_cfgstr(c)} at {addr}) came out at destination '
                          f'{got if got > 0 else hits} instead of {k}')
            elif got == 0:
                flag('Routing', f'a connection into the open listener '
                          f'{k} ({_cfgstr(c)} at {addr}) was not served: '
                          f'{data[:40]!r}')
        else:
            if got != 0 or hits:
                flag('ClosedRefuses', f'the address of closed listener '
                          f'{k} ({_cfgstr(c)}) still serves connections')
        if is_open and c['kind'] in ('rfwd', 'rsrv', 'rpath'):
            opens = self.wire[n_wire:]
            want = ('unix', addr[1]) if c['kind'] == 'rpath' else \
                ('tcp', addr[0], addr[1])
            for w in opens:
                if w[:len(want)] != want:
                    flag('WirePort', f'channel open for a connection '
                              f'accepted by listener {k} at {addr} names '
                              f'{w[:3]} (RFC 4254 7.2: address and port that '
                              'were connected)')
                elif w[0] == 'tcp' and tuple(w[3:5]) != tuple(sockname[:2]):
                    flag('Originator', f'forwarded-tcpip open reports '
                              f'originator {w[3:5]}, the connection came '
                              f'from {sockname}')
        if is_open and c['kind'] == 'rsrv':
            for fk, oh, op in self.factory_calls[n_fact:]:
                if (oh, op) != tuple(sockname[:2]):
                    flag('Originator', f'listener {fk} was told '
                              f'originator {(oh, op)}, the connection came '
                              f'from {sockname}')
        if is_open and c['kind'] in ('lfwd', 'socks'):
            for dest, orig in self.requests[n_req:]:
                if orig is not None and tuple(orig) != tuple(sockname[:2]):
                    flag('Originator', f'server was told originator '
                              f'{orig}, the connection came from {sockname}')
                if isinstance(dest, tuple) and \
                        dest != ('127.0.0.1', ML_DEST_PORT + k):
                    flag('Routing', f'listener {k} asked the server for '
                              f'{dest} instead of its destination')
        return got if got > 0 else 0

    def finish(self):
        loop = self.loop
        addrs = [self.addr[k] for k in self.open_slots | self.closed_slots]
        self.conn.close()
        loop.run_until_idle()
        left = [a for a in addrs if a in loop.net.listeners]
        if left:
            self.flag('NoListenerLeft', f'listeners {left} survive their '
                      'connection')
        socks = [t for t in loop.net.transports
                 if isinstance(t.protocol, SSHForwarder) and not t.closed]
        if socks:
            self.flag('NoListenerLeft', f'{len(socks)} relayed socket(s) '
                      'survive the SSH connection')

    def listening(self):
        return sorted(k for k in self.addr if self.addr[k] in
                      self.loop.net.listeners and k in self.open_slots)

    def stop(self):
        _verif.set_sink(None)
        try:
            self.conn.abort()
            self.acceptor.close()
            for d in self.dests:
                d.close()
            self.loop.run_until_idle()
        except BaseException:           # pylint: disable=broad-except
            pass
        close_loop(self.loop)


def _cfgstr(c):
    return f'{c["kind"]}:{c["host"]}:{c["port"]}'


def replay_listeners(steps, nslots=4, dst_variant=0):
    """steps: [(lbl, state)] of a Listeners.tla behaviour, or bare labels
    (then there is no conformance comparison)."""
    w = MultiWorld(nslots, dst_variant)
    res = {'l1': [], 'diverged': None, 'script': []}
    try:
        for i, step in enumerate(steps):
            lbl, st = step if isinstance(step, tuple) and len(step) == 2 \
                and isinstance(step[1], dict) else (step, None)
            op, k = lbl[0], lbl[1]
            div = None
            if op == 'open':
                c, want = lbl[2], lbl[3] if len(lbl) > 3 else None
                ok = w.open(k, c)
                res['script'].append(f'open{k}={_cfgstr(c)}')
                if want is not None and ok != want:
                    div = f'open {k} {_cfgstr(c)}: code={ok} model={want}'
            elif op in ('connect', 'cclosed'):
                if k not in w.addr:
                    div = f'{op} {k}: listener was never created'
                elif op == 'cclosed' and any(w.addr[j] == w.addr[k]
                                             for j in w.open_slots):
                    # the OS gave the freed dynamic port to a newer listener:
                    # the address is not a closed listener's any more
                    res['script'].append(f'{op}{k}:reused')
                else:
                    got = w.connect(k)
                    res['script'].append(f'{op}{k}->{got}')
                    if len(lbl) > 2 and got != lbl[2]:
                        div = f'{op} {k}: code={got} model={lbl[2]}'
            elif op == 'close':
                if k in w.open_slots:
                    w.close(k)
                    res['script'].append(f'close{k}')
                else:
                    div = f'close {k}: not open'
            if st is not None and div is None:
                want_open = sorted(j + 1 for j, s in enumerate(st['st'])
                                   if s == 'open')
                if w.listening() != want_open:
                    div = (f'{op} {k}: listening code={w.listening()} '
                           f'model={want_open}')
            if div and not res['diverged']:
                res['diverged'] = f'step {i}: {div}'
        w.finish()
        res['l1'] = list(w.l1)
        res['loop_exceptions'] = [repr(c.get('exception') or c.get('message'))
                                  for c in w.loop.exceptions]
    finally:
        w.stop()
    return res


# ======================================================================
# code -> spec: forwarded connections recorded from naturally scheduled
# runs, validated by TLC against specs/Forward/ForwardTrace.tla
# ======================================================================

NAT_KINDS = ('local', 'remote', 'socks5', 'socks4a', 'lpath', 'rpath')
_SEND_MAP = {'open': 'open', 'eof_pending': 'eof', 'eof': 'eof',
             'close_pending': 'closed', 'closed': 'closed'}
_RECV_MAP = {'open': 'open', 'eof_pending': 'eof', 'eof': 'eof',
             'close_pending': 'closed', 'closed': 'closed'}
_OUT_KIND = {91: 'conf', 92: 'fail', 93: 'window', 94: 'data', 95: 'xdata',
             96: 'eof', 97: 'close', 98: 'request', 99: 'success',
             100: 'failure'}


class _NConn:
    """one forwarded connection of a natural run"""

    def __init__(self, idx):
        self.idx = idx
        self.app = {'L': None, 'R': None}
        self.fwd = {'L': None, 'R': None}       # FL / P
        self.sess = {'O': None, 'A': None}      # X / Y
        self.chan = {'O': None, 'A': None}
        self.cid = {'O': None, 'A': None}       # local channel numbers
        self.confirmed = False
        self.failed = False
        self.a_failed = False
        self.ev = []
        self.usz = {'L': [], 'R': []}
        self.sent = {'L': bytearray(), 'R': bytearray()}
        self.app_open = {'L': True, 'R': True}  # shadow of the model's appSt
        self.fin_logged = {'L': False, 'R': False}
        self.close_logged = {'L': False, 'R': False}
        self.outb = {'L': 0, 'R': 0}
        self.seen_total = {'L': 0, 'R': 0}
        self.pending_out = {'O': [], 'A': []}
        self.exempt = set()
        self.resets = set()
        self.stray = []
        self.wire_open = None
        self.skip = {'L': 0, 'R': 0}            # SOCKS replies are not payload
        self.t_fin = {'L': None, 'R': None}     # virtual time of FIN / last write
        self.t_write = {'L': None, 'R': None}
        self.t_close = {'L': None, 'R': None}


def record_natural(seed, kind='local', nconn=1, mode='mixed', window=None):
    """One SSH connection with one forward listener of `kind`; nconn
    forwarded connections driven by independent tasks at their four ends.
    Returns dict(traces=[...], l1=[...], stats, loop_exceptions)."""
    import random
    rng = random.Random(seed)
    w = World(kind, True, True, manual=False, connect_l=False, window=window)
    w.start()
    loop = w.loop
    remote = kind in REMOTE_KINDS
    connO, connA, tO, tA = w.connO, w.connA, w.tO, w.tA
    conns = []
    by_cid = {'O': {}, 'A': {}}
    by_orig = {}
    unix_order = []
    state = {'cut': None, 'logging': True, 'lsn_closed': False,
             'stop': False, 'refused': False}
    held = set()
    bounds = []                 # byte offsets (of tA's output) ending a CONF
    consumed = [0]
    l1 = []
    last_in = {'O': None, 'A': None}

    def flag(clause, detail):
        if not any(c == clause for c, _ in l1):
            l1.append((clause, detail))

    # ---- logical state of the real objects -----------------------------
    def ft(c, e):
        app = c.app[e]
        return app.t.peer if app is not None and app.t is not None else None

    def logically_closed(c, e):
        x = 'O' if e == 'L' else 'A'
        t = ft(c, e)
        if state['cut'] or t is None or t.closed or t.closing:
            return True
        if x == 'O' and c.failed:
            return True
        ch = c.chan[x]
        established = c.confirmed if x == 'O' else ch is not None
        return bool(established and ch is not None and
                    ch._recv_state == 'closed')

    def update_out(c):
        for e in 'LR':
            t = ft(c, e)
            if t is None:
                continue
            total = max(0, sum(len(x) for x in t.writes) - c.skip[e])
            delta = total - c.seen_total[e]
            c.seen_total[e] = total
            if c.app_open[e]:
                c.outb[e] += delta

    def snap(c, x):
        e = 'L' if x == 'O' else 'R'
        ch, f, se = c.chan[x], c.fwd[e], c.sess[x]
        lc = logically_closed(c, e)
        if x == 'O':
            if c.failed:
                chs = chr_ = 'closed'
                pair = 'closed'
            elif not c.confirmed:
                chs = chr_ = 'init'
                pair = 'pre'
            else:
                chs, chr_ = _SEND_MAP[ch._send_state], _RECV_MAP[ch._recv_state]
                pair = 'up' if (not lc and f._peer is not None) else 'closed'
            sock = 'closed' if lc else 'open'
        else:
            if c.a_failed:
                chs = chr_ = 'closed'
                pair, sock = 'none', 'none'
            elif ch is None:
                chs = chr_ = 'init'
                pair, sock = 'none', 'none'
            else:
                chs, chr_ = _SEND_MAP[ch._send_state], _RECV_MAP[ch._recv_state]
                pair = 'up' if (not lc and f is not None and
                                f._peer is not None) else 'closed'
                sock = 'closed' if lc else 'open'
        return {'sock': sock, 'pair': pair, 'chs': chs, 'chr': chr_,
                'buf': len(f._inpbuf) if (f is not None and x == 'O') else 0,
                'feof': bool(f._eof_received) if f is not None else False,
                'ceof': bool(se._eof_received) if se is not None else False,
                'outb': c.outb[e]}

    def log(c, kind_, side=None, **kw):
        if not state['logging']:
            return
        update_out(c)
        ev = dict(e=kind_, **kw)
        if side is not None:
            ev['side'] = side
            ev['out'] = c.pending_out[side]
            c.pending_out[side] = []
            if c.sess[side] is None:
                f = c.fwd['L' if side == 'O' else 'R']
                if f is not None and f._peer is not None:
                    c.sess[side] = f._peer
            ev['st'] = snap(c, side)
        c.ev.append(ev)
        if kind_ in ('C', 'X'):
            c.app_open[kw['end']] = False
            c.close_logged[kw['end']] = True
        if kind_ in ('E', 'C', 'X'):
            c.fin_logged[kw['end']] = True

    # ---- forwarder socket callbacks ------------------------------------
    def wrap_forwarder(c, e, f):
        c.fwd[e] = f
        x = 'O' if e == 'L' else 'A'
        o_data, o_eof = f.data_received, f.eof_received

        def data_received(data, datatype=None):
            handshake = getattr(f, '_recv_handler', None) is not None
            o_data(data, datatype)
            if handshake or logically_closed(c, e) or not state['logging']:
                return
            c.usz[e].append(len(data))
            log(c, 'W', side=x, end=e)

        def eof_received():
            res = o_eof()
            if not c.fin_logged[e]:
                log(c, 'C' if c.app[e].closed else 'E', side=x, end=e,
                    late=False)
            return res
        f.data_received = data_received
        f.eof_received = eof_received

    # ---- SSH hooks -------------------------------------------------------
    def parse_open(pl):
        from asyncssh.packet import SSHPacket
        p = SSHPacket(pl)
        p.get_byte()
        ctype = p.get_string()
        sender = p.get_uint32()
        p.get_uint32(), p.get_uint32()
        info = {'type': ctype.decode(), 'sender': sender}
        if ctype in (b'direct-tcpip', b'forwarded-tcpip'):
            info['dest'] = (p.get_string().decode(), p.get_uint32())
            info['orig'] = (p.get_string().decode(), p.get_uint32())
        return info

    def sink(name, f):
        conn = f.get('conn')
        side = 'O' if conn is connO else 'A' if conn is connA else None
        t = f.get('pkttype')
        if side is None or t is None or t < 90:
            return
        if name == 'pkt_out':
            pl = f['payload']
            if t == 90:
                info = parse_open(pl)
                c = by_orig.get(info.get('orig'))
                if c is None:
                    c = next((k for k in unix_order if k.cid['O'] is None),
                             None)
                if c is None or side != 'O':
                    return
                c.cid['O'] = info['sender']
                by_cid['O'][info['sender']] = c
                c.chan['O'] = connO._channels.get(info['sender'])
                c.wire_open = info
                return
            rcpt = int.from_bytes(pl[1:5], 'big')
            other = 'A' if side == 'O' else 'O'
            c = by_cid[other].get(rcpt)
            if c is None:
                return
            n = int.from_bytes(pl[5:9], 'big') if t == 94 else 0
            c.pending_out[side].append([_OUT_KIND.get(t, str(t)), n])
            if side == 'A' and t in (91, 92):
                bounds.append(sum(len(x) for x in tA.writes))
                if t == 91:
                    sender = int.from_bytes(pl[5:9], 'big')
                    c.cid['A'] = sender
                    by_cid['A'][sender] = c
                    ch = connA._channels.get(sender)
                    c.chan['A'] = ch
                    y = ch._session
                    c.sess['A'] = y
                    pf = y._peer
                    c.app['R'] = pf._transport.peer.protocol
                    wrap_forwarder(c, 'R', pf)
                else:
                    c.a_failed = True
                log(c, 'DOA', side='A', ok=(t == 91), first=True)
        elif name == 'pkt_in':
            pl = f['payload']
            if t == 90:
                last_in[side] = None
                return
            c = by_cid[side].get(int.from_bytes(pl[1:5], 'big'))
            last_in[side] = (c, t)
        elif name in ('pkt_done', 'pkt_handled'):
            cur, last_in[side] = last_in[side], None
            if cur is None or cur[0] is None or cur[1] != t:
                return
            c = cur[0]
            if t == 91 and side == 'O':
                hold(c)
                loop.call_soon(check_conf, c, 0)
            elif t == 92 and side == 'O':
                c.failed = True
                log(c, 'DAO', side='O', first=False)
            elif t in (94, 96, 97):
                log(c, 'DAO' if side == 'O' else 'DOA', side=side,
                    ok=True, first=False)

    def hold(c):
        held.add(c.idx)
        tO.auto = False

    def unhold(c):
        held.discard(c.idx)
        if not held:
            tO.auto = True

    def check_conf(c, n):
        ch = c.chan['O']
        if ch._session is None and ch._send_state == 'open' and n < 4:
            loop.call_soon(check_conf, c, n + 1)
            return
        c.confirmed = True
        log(c, 'DAO', side='O', first=False)
        loop.call_soon(release, c, 0)

    def release(c, n):
        ch = c.chan['O']
        if ch._recv_paused == 'starting' and n < 6 and not state['cut']:
            loop.call_soon(release, c, n + 1)
        else:
            unhold(c)

    def chunk_o(avail):
        n = avail if 'whole' in mode else rng.randint(1, max(1, avail))
        for b in bounds:
            if b > consumed[0]:
                n = min(n, b - consumed[0])
                break
        consumed[0] += n
        return n

    # ---- application actions ----------------------------------------------
    def unit(c, e, n):
        base = len(c.sent[e]) + (17 if e == 'L' else 101) + 31 * c.idx
        return bytes((base + 7 * i) % 251 for i in range(n))

    def act_write(c, e, n):
        app = c.app[e]
        data = unit(c, e, n)
        c.sent[e] += data
        c.t_write[e] = loop.time()
        app.write(data)

    def act_eof(c, e):
        app = c.app[e]
        c.t_fin[e] = loop.time()
        app.write_eof()
        if logically_closed(c, e) and not c.fin_logged[e]:
            log(c, 'E', side=None, end=e, late=True)

    def act_close(c, e):
        app = c.app[e]
        if not app.eof_seen:
            c.exempt.add(e)
        c.t_close[e] = loop.time()
        if c.t_fin[e] is None:
            c.t_fin[e] = loop.time()
        app.close()
        if (c.fin_logged[e] or logically_closed(c, e)) and \
                not c.close_logged[e]:
            log(c, 'C', side=None, end=e, late=True)

    def act_reset(c, e):
        if logically_closed(c, e) or state['cut']:
            return
        app = c.app[e]
        t = ft(c, e)
        c.resets.add(e)
        c.exempt.add(e)
        app.fin_sent = app.closed = True
        app.t.cut()
        t.cut(ConnectionResetError(104, 'Connection reset by peer'))
        log(c, 'X', side='O' if e == 'L' else 'A', end=e)

    async def app_task(c, e):
        app = None
        for _ in range(400):
            app = c.app[e]
            if app is not None and app.t is not None:
                break
            if c.failed or state['stop']:
                return
            await asyncio.sleep(0.0005)
        else:
            return
        nwrites = 0
        eager = e == 'L' and rng.random() < 0.5
        for step in range(rng.randint(2, 9)):
            await asyncio.sleep(0 if eager and step < 3 else
                                rng.choice([0, 0, 0.0003, 0.001, 0.003, 0.008]))
            if state['stop'] or app.closed or app.lost:
                return
            r = rng.random()
            if app.eof_seen and r < 0.35:
                act_close(c, e)
                return
            if r < 0.62 and not app.fin_sent and nwrites < 6:
                nwrites += 1
                act_write(c, e, rng.choice(
                    [1, 2, 5, 17, 40] if 'tiny' in mode else
                    [700, 3000, 9000, 20000] if 'big' in mode else
                    [1, 2, 17, 300, 1500, 4000]))
            elif r < 0.74 and not app.fin_sent:
                act_eof(c, e)
            elif r < 0.84:
                act_close(c, e)
                return
            elif r < 0.89 and 'noreset' not in mode:
                act_reset(c, e)
                return
        # a polite end: half-close, wait for the other side, close
        await asyncio.sleep(rng.choice([0.001, 0.004]))
        if not (state['stop'] or app.closed or app.lost):
            if not app.fin_sent and rng.random() < 0.7:
                act_eof(c, e)
            for _ in range(60):
                if app.eof_seen or state['stop']:
                    break
                await asyncio.sleep(0.005)
            if not (app.closed or app.lost or state['stop']) and \
                    rng.random() < 0.8:
                act_close(c, e)

    async def connect_l(c):
        app = App(w, 'L', True)
        c.app['L'] = app
        if w.lsn_key[0] == 'unix':
            unix_order.append(c)
            await loop.create_unix_connection(lambda: app, L_PATH)
        else:
            await loop.create_connection(lambda: app, *w.lsn_key)
            by_orig[tuple(app.t.get_extra_info('sockname')[:2])] = c
        f = app.t.peer.protocol
        wrap_forwarder(c, 'L', f)
        if kind.startswith('socks'):
            msgs, replies = socks_request(kind, 'desthost', R_PORT)
            want = 0
            c.skip['L'] = len(b''.join(replies))
            for m, rep_ in zip(msgs, replies):
                app.t.write(m)
                want += len(rep_)
                for _ in range(200):
                    if len(app.data) >= want or app.lost:
                        break
                    await asyncio.sleep(0.0002)
            app.skip = want
            if bytes(app.data[:want]) != b''.join(replies):
                flag('SocksReply', f'unexpected SOCKS reply '
                     f'{bytes(app.data[:want]).hex()}')

    async def one_connection(c, delay):
        await asyncio.sleep(delay)
        if state['stop'] or state['lsn_closed']:
            return
        try:
            await connect_l(c)
        except OSError:
            return
        conns.append(c)
        await asyncio.gather(app_task(c, 'L'), app_task(c, 'R'))

    async def cutter():
        await asyncio.sleep(rng.choice([0.0005, 0.002, 0.005, 0.012]))
        if state['stop']:
            return
        state['stop'] = True
        t = rng.choice([tO, tA])
        state['cut'] = 'O' if t is tO else 'A'
        state['logging'] = False
        held.clear()
        t.cut()
        tO.auto = tA.auto = True

    async def lsn_closer():
        await asyncio.sleep(rng.choice([0.001, 0.004, 0.009]))
        if state['stop'] or len(conns) < nconn:
            return
        state['lsn_closed'] = True
        w.lsn.close()
        for c in conns:
            log(c, 'LSN')

    async def refuser():
        await asyncio.sleep(rng.choice([0, 0.0002, 0.0006, 0.002]))
        state['refused'] = True
        w.rsrv.close()

    async def late_confirm():
        # the accepting side does not read for a while: late confirmation
        tA.auto = False
        await asyncio.sleep(rng.choice([0.0005, 0.002, 0.005]))
        tA.auto = True

    async def staller():
        for _ in range(12):
            await asyncio.sleep(rng.choice([0.0004, 0.001, 0.003]))
            if state['stop']:
                break
            t = rng.choice([tO, tA])
            if t is tO and held:
                continue
            t.auto = not t.auto
        if not held:
            tO.auto = True
        tA.auto = True

    async def go():
        tasks = [one_connection(_NConn(i), 0 if i == 0 else
                                rng.choice([0, 0.0005, 0.002, 0.006]))
                 for i in range(nconn)]
        r = rng.random()
        if 'nocut' not in mode and r < 0.2:
            tasks.append(cutter())
        elif not remote and r < 0.35 and 'nolsn' not in mode:
            tasks.append(lsn_closer())
        if rng.random() < 0.15 and 'norefuse' not in mode:
            tasks.append(refuser())
        if 'stall' in mode or mode == 'mixed':
            tasks.append(staller())
        if rng.random() < 0.4:
            tasks.append(late_confirm())
        await asyncio.gather(*tasks)

    _verif.set_sink(sink)
    consumed[0] = sum(len(x) for x in tA.writes)    # everything was read
    tO.chunker = chunk_o
    if 'whole' not in mode:
        tA.chunker = lambda avail: rng.randint(1, max(1, avail))
        sock_chunk = (lambda avail: rng.randint(1, max(1, avail))) \
            if 'tiny' not in mode else (lambda avail: rng.randint(1, 7))
        orig_connect = loop.net.connect

        def connect(factory, addr, local_addr=None):
            ct_, cp = orig_connect(factory, addr, local_addr)
            if ct_.peer is not tO and ct_.peer is not tA:
                ct_.chunker = sock_chunk
                ct_.peer.chunker = sock_chunk
            return ct_, cp
        loop.net.connect = connect
    res = {'traces': [], 'l1': l1, 'kind': kind, 'nconn': nconn,
           'mode': mode, 'seed': seed}
    outcome = 'ok'
    try:
        try:
            loop.run_until_complete(go())
        except Deadlock:
            outcome = 'deadlock'
        state['stop'] = True
        held.clear()
        tO.auto = tA.auto = True
        loop.run_until_idle()
        if state['cut']:
            state['logging'] = True
            for c in conns:
                def s_(e):
                    t = ft(c, e)
                    return 'none' if t is None else \
                        'closed' if (t.closed or t.closing) else 'open'
                c.ev.append({'e': 'CUT', 'x': state['cut'],
                             'st': {'sockL': s_('L'), 'sockR': s_('R'),
                                    'lsn': 'open' if w.lsn_key in
                                    loop.net.listeners else 'closed'}})
        state['logging'] = False
        # ---- monitors on the recording itself ----------------------------
        for c in conns:
            L, R = c.app['L'], c.app['R']
            for e, o in (('R', 'L'), ('L', 'R')):
                app = c.app[e]
                if app is None:
                    continue
                got = app.payload()
                if bytes(c.sent[o][:len(got)]) != got:
                    flag('RelayFIFO', f'connection {c.idx}: {e} received '
                         f'{len(got)} bytes that are not a prefix of what '
                         f'{o} sent')
            clean = not (c.failed or c.a_failed or c.resets or state['cut']
                         or outcome != 'ok')
            if clean and R is None:
                flag('Complete', f'connection {c.idx}: the open was not '
                     'refused but the destination was never connected')
            grace = 0.15        # virtual seconds; stalls add up to < 0.05

            def gone_early(e, t_event):
                """e closed before what o did at t_event could reach it"""
                return e in c.exempt and (
                    t_event is None or c.t_close[e] is None or
                    c.t_close[e] < t_event + grace)
            if clean and R is not None:
                for e, o in (('R', 'L'), ('L', 'R')):
                    a, b = c.app[e], c.app[o]
                    if not gone_early(e, c.t_write[o]) and \
                            a.payload() != bytes(c.sent[o]):
                        flag('Complete', f'connection {c.idx}: {e} received '
                             f'{len(a.payload())} of the {len(c.sent[o])} '
                             f'bytes {o} sent')
                    if b.fin_sent and not (a.eof_seen or
                                           gone_early(e, c.t_fin[o])):
                        flag('HalfClose', f'connection {c.idx}: {o} sent EOF '
                             f'but {e} never saw it')
            if remote and c.wire_open and 'dest' in c.wire_open and \
                    c.wire_open['dest'][1] != w.lsn_key[1]:
                flag('WirePort', f'forwarded-tcpip open names port '
                     f'{c.wire_open["dest"][1]}, the listener is bound to '
                     f'{w.lsn_key[1]}')
            if c.failed and L is not None and not (L.eof_seen or L.lost or
                                                   L.closed):
                flag('FailureClean', f'connection {c.idx}: open was refused '
                     'but the local connection was not closed')
            for x in 'OA':
                if c.pending_out[x] and not state['cut']:
                    c.stray.append((x, c.pending_out[x]))
            res['traces'].append({'ev': c.ev, 'usz': c.usz,
                                  'idx': c.idx, 'stray': c.stray})
        # the SSH connection ends: nothing of it may be left
        if not state['cut']:
            w.cconn.close()
            loop.run_until_idle()
        if w.lsn_key in loop.net.listeners:
            flag('NoListenerLeft', f'listener {w.lsn_key} survives its '
                 'connection')
        left = w.relayed_sockets()
        if left:
            flag('NoListenerLeft', f'{len(left)} relayed socket(s) survive '
                 'the SSH connection')
        for c in conns:
            for e in 'LR':
                a = c.app[e]
                if a is not None and a.t is not None and \
                        not (a.lost or a.closed or a.eof_seen):
                    flag('NoListenerLeft', f'connection {c.idx}: {e} is not '
                         'told that the connection is gone')
        res['outcome'] = outcome
        res['loop_exceptions'] = w.loop_exceptions()
        res['stats'] = {
            'events': sum(len(c.ev) for c in conns),
            'early': sum(1 for c in conns for i, e in enumerate(c.ev)
                         if e['e'] == 'W' and e['end'] == 'L' and
                         e['st']['pair'] == 'pre'),
            'cut': bool(state['cut']), 'refused': any(c.failed for c in conns),
            'resets': sum(len(c.resets) for c in conns),
            'conns': len(conns)}
    finally:
        w.stop()
    return res


# ======================================================================
# X11 forwarding (specs/Forward/X11.tla): fake X server, raw X client
# ======================================================================

X_REAL_COOKIE = bytes(range(0xa0, 0xb0))
X_PROTO = b'MIT-MAGIC-COOKIE-1'
X_WRONG_PROTO = b'XDM-AUTHORIZATION-1'
X_PAYLOAD = b'X-CLIENT-REQUESTS-FOLLOW-THE-SETUP' * 3
X_REASON = b'Invalid authentication key\n'


def _xpad(data):
    return data + b'\0' * (-len(data) % 4)


def x_setup(cookie, proto=X_PROTO, endian='l'):
    """connection setup an X client sends first"""
    order = 'little' if endian == 'l' else 'big'
    u16 = lambda v: v.to_bytes(2, order)
    return (endian.encode() + b'\0' + u16(11) + u16(0) + u16(len(proto)) +
            u16(len(cookie)) + b'\0\0' + _xpad(proto) + _xpad(cookie))


def x_refusal(endian='l'):
    """the X11 failure reply asyncssh must send for a bad cookie"""
    order = 'little' if endian == 'l' else 'big'
    u16 = lambda v: v.to_bytes(2, order)
    return (bytes((0, len(X_REASON))) + u16(11) + u16(0) +
            u16((len(X_REASON) + 3) // 4) + _xpad(X_REASON))


class FakeX(asyncio.Protocol):
    """one connection accepted by the fake X server"""

    def __init__(self, world):
        self.world = world
        self.data = bytearray()
        self.eof = self.lost = False
        world.xconns.append(self)

    def connection_made(self, transport):
        self.t = transport

    def data_received(self, data):
        first = not self.data
        self.data += data
        if first:
            self.t.write(b'\x01XSERVER-SAYS-OK')

    def eof_received(self):
        self.eof = True
        return False

    def connection_lost(self, exc):
        self.lost = True


class X11World:
    def __init__(self, workdir, server_allows=True, unix_display=False,
                 seed=0):
        import os
        import random
        import tempfile
        world = self
        self.rng = random.Random(seed)
        self.loop = loop = new_loop()
        self.tmp = tempfile.mkdtemp(prefix='C20x', dir=workdir)
        self.client_xauth = os.path.join(self.tmp, 'client.Xauthority')
        self.server_xauth = os.path.join(self.tmp, 'server.Xauthority')
        self.xconns = []
        self.cookie = {}            # session -> spoofed cookie (from the wire)
        self.single = {}
        self.proc = {}
        self.display = {}
        self.release = {}
        self.live = set()           # granted and not closed
        self.used = set()
        self.closed = set()
        self.req_order = []
        self.x11_opens = []         # originator of every x11 channel open
        self.leak = []
        self.l1 = []
        self.last_port = None
        k = keys()
        if unix_display:
            self.xaddr = ('unix', '/c20-x11/X:5')
            self.local_display = '/c20-x11/X:5'
            dpy = b'5'
        else:
            self.xaddr = ('127.0.0.1', 6077)
            self.local_display = '127.0.0.1:77'
            dpy = b'77'
        from asyncssh.x11 import SSHXAuthorityEntry, XAUTH_FAMILY_WILD
        with open(self.client_xauth, 'wb') as f:
            f.write(bytes(SSHXAuthorityEntry(XAUTH_FAMILY_WILD, b'', dpy,
                                             X_PROTO, X_REAL_COOKIE)))
        _verif.set_sink(self._sink)

        class Server(asyncssh.SSHServer):
            def connection_made(self, conn):
                world.sconn = conn

            def begin_auth(self, username):
                return False

        async def handler(process):
            name = int(process.command)
            world.display[name] = process.channel.get_x11_display()
            await world.release[name].wait()
            process.exit(0)

        async def go():
            self.acceptor = await asyncssh.listen(
                '127.0.0.1', 2222, server_factory=Server,
                server_host_keys=[k['host']], process_factory=handler,
                x11_forwarding=server_allows, x11_auth_path=self.server_xauth)
            if unix_display:
                self.xsrv = await loop.create_unix_server(
                    lambda: FakeX(world), self.xaddr[1])
            else:
                self.xsrv = await loop.create_server(lambda: FakeX(world),
                                                     *self.xaddr)
            self.conn = await asyncssh.connect(
                '127.0.0.1', 2222, known_hosts=None, config=None,
                client_keys=None, agent_path=None)
        loop.run_until_complete(go())
        loop.run_until_idle()

    def _sink(self, ev, f):
        if ev != 'pkt_out':
            return
        conn, t, pl = f['conn'], f['pkttype'], f['payload']
        is_client = conn is getattr(self, 'conn', None)
        if is_client and t >= 90 and X_REAL_COOKIE in pl:
            self.leak.append(f'client sent the real cookie in packet {t}')
        if is_client and t == 98:
            from asyncssh.packet import SSHPacket
            p = SSHPacket(pl)
            p.get_byte(), p.get_uint32()
            if p.get_string() == b'x11-req':
                p.get_boolean()
                single = p.get_boolean()
                p.get_string()
                cookie = bytes.fromhex(p.get_string().decode())
                s = self.req_order[-1]
                self.cookie[s] = cookie
                self.single[s] = single
        if not is_client and t == 90:
            from asyncssh.packet import SSHPacket
            p = SSHPacket(pl)
            p.get_byte()
            if p.get_string() == b'x11':
                p.get_uint32(), p.get_uint32(), p.get_uint32()
                self.x11_opens.append((p.get_string().decode(),
                                       p.get_uint32()))

    def flag(self, clause, detail, cause='x11'):
        if not any(c == clause and k == cause for c, _, k in self.l1):
            self.l1.append((clause, detail, cause))

    # ------------------------------------------------------------------
    def open_session(self, s, single):
        """create_process with X11 forwarding; -> granted?"""
        self.req_order.append(s)
        self.release[s] = asyncio.Event()

        async def go():
            return await self.conn.create_process(
                str(s), x11_forwarding=True, x11_display=self.local_display,
                x11_auth_path=self.client_xauth,
                x11_single_connection=single, encoding=None)
        try:
            self.proc[s] = self.loop.run_until_complete(go())
        except asyncssh.ChannelOpenError:
            self.loop.run_until_idle()
            return False
        self.loop.run_until_idle()
        if not self.display.get(s):
            return False
        self.live.add(s)
        self.last_port = 6000 + int(
            self.display[s].rsplit(':', 1)[1].split('.')[0])
        return True

    def close_session(self, s):
        self.release[s].set()

        async def go():
            await self.proc[s].wait_closed()
        self.loop.run_until_complete(go())
        self.loop.run_until_idle()
        self.live.discard(s)
        self.closed.add(s)

    def published(self):
        from asyncssh.x11 import walk_xauth
        return [e.data for e in walk_xauth(self.server_xauth)]

    def xconn(self, p, form):
        """raw X client connects to the forwarded display presenting the
        cookie of session p (0 / never requested: random bytes)"""
        loop = self.loop
        if self.last_port is None:
            return 'connrefused'
        cookie = self.cookie.get(p) or bytes(self.rng.randrange(256)
                                             for _ in range(16))
        endian = 'B' if form == 'bigendian' else 'l'
        proto = X_WRONG_PROTO if form == 'wrongproto' else X_PROTO
        setup = x_setup(cookie, proto, endian)
        sent = setup[:-5] if form == 'truncated' else setup
        if form == 'pipelined':
            # the first requests arrive in one segment with the setup
            sent = setup + X_PAYLOAD
        app = App(self, 'X', True)
        n_x, n_open = len(self.xconns), len(self.x11_opens)

        async def cl():
            await loop.create_connection(lambda: app, '127.0.0.1',
                                         self.last_port)
        try:
            loop.run_until_complete(cl())
        except OSError:
            loop.run_until_idle()
            return 'connrefused'
        loop.run_until_idle()
        sockname = app.t.get_extra_info('sockname')
        cut = self.rng.randrange(1, len(setup))
        parts = (sent,) if form == 'pipelined' else (sent[:cut], sent[cut:])
        for part in parts:
            if not app.lost:
                app.t.write(part)
            loop.run_until_idle()
        reply = bytes(app.data)
        new = self.xconns[n_x:]
        refused_now = not b''.join(bytes(x.data) for x in new) and reply
        if form not in ('truncated', 'pipelined') and not app.lost:
            # a well-behaved client goes on after the X server's answer; a
            # hostile one also after the failure reply (it ignores the EOF)
            app.t.write(X_PAYLOAD)
            loop.run_until_idle()
        xbytes = b''.join(bytes(x.data) for x in new)
        if refused_now and xbytes:
            self.flag('RefusedReply', f'after the "Invalid authentication '
                      f'key" reply the forwarder went on relaying: '
                      f'{len(xbytes)} bytes of the refused X client reached '
                      'the X server', 'bytes-after-refusal')
            xbytes = b''
        if xbytes:
            out = 'served'
        elif reply:
            out = 'invalid'
        elif (app.eof_seen or app.lost) and not new:
            out = 'disabled'
        elif form == 'truncated':
            out = 'pending'
        else:
            out = 'silent'
        # ---- monitors ----------------------------------------------------
        live = p in self.live and p not in self.used
        what = (f'cookie of session {p} ({"live" if p in self.live else "closed" if p in self.closed else "never granted"}'
                f'{", single_connection" if self.single.get(p) else ""}'
                f'{", already used" if p in self.used else ""}), {form}')
        if out == 'served' and not live:
            self.flag('ServedOnlyLive', f'an X connection presenting the '
                      f'{what} was relayed to the X server '
                      f'({len(xbytes)} bytes'
                      f'{", with the real cookie" if X_REAL_COOKIE in xbytes else ""})')
        if out == 'served':
            want = x_setup(X_REAL_COOKIE, proto, endian) + X_PAYLOAD
            if xbytes != want[:len(xbytes)] or \
                    (form != 'truncated' and xbytes != want):
                lost_tail = form == 'pipelined' and \
                    xbytes == want[:len(setup)]
                self.flag('RelayFIFO', f'X server received {len(xbytes)} '
                          f'of {len(want)} bytes' +
                          (': the requests that arrived in one segment with '
                           'the setup were dropped' if lost_tail else
                           ' that are not the setup with the real cookie '
                           'followed by the client\'s requests'),
                          'pipelined-behind-setup' if lost_tail else 'x11')
            if reply != b'\x01XSERVER-SAYS-OK':
                self.flag('RelayFIFO', f'X client did not receive the X '
                          f'server\'s answer: {reply[:30]!r}')
            if self.single.get(p):
                self.used.add(p)
        if form != 'truncated' and live and out != 'served':
            self.flag('LiveIsServed', f'an X connection presenting the '
                      f'{what} did not reach the X server ({out})')
        if out in ('invalid', 'silent') or \
                (form != 'truncated' and out != 'served' and new):
            if reply != x_refusal(endian) or xbytes or \
                    not (app.eof_seen or app.lost):
                self.flag('RefusedReply', f'refused X connection ({what}): '
                          f'reply {reply[:40]!r}, {len(xbytes)} bytes at the '
                          'X server; expected the "Invalid authentication '
                          'key" failure and nothing relayed')
        if X_REAL_COOKIE in reply:
            self.flag('RealCookieLeak', 'the real cookie was sent to the X '
                      'client')
        for o in self.x11_opens[n_open:]:
            if o[1] != sockname[1]:
                self.flag('Originator', f'x11 open reports originator {o}, '
                          f'the X client is {sockname}')
        if not app.lost:
            app.t.close()
        loop.run_until_idle()
        for x in new:
            if not (x.lost or x.eof):
                self.flag('Released', 'the X server\'s connection stays '
                          'open after the X client went away')
        return out

    def finish(self):
        loop = self.loop
        self.conn.close()
        loop.run_until_idle()
        if self.leak:
            self.flag('RealCookieLeak', self.leak[0])
        if self.last_port and ('127.0.0.1', self.last_port) in \
                loop.net.listeners:
            self.flag('NoListenerLeft', 'the X11 display listener survives '
                      'its connection')
        socks = [t for t in loop.net.transports
                 if isinstance(t.protocol, SSHForwarder) and not t.closed]
        if socks:
            self.flag('NoListenerLeft', f'{len(socks)} relayed socket(s) '
                      'survive the SSH connection')

    def stop(self):
        import shutil
        _verif.set_sink(None)
        try:
            for ev in self.release.values():
                ev.set()
            self.conn.abort()
            self.acceptor.close()
            self.xsrv.close()
            self.loop.run_until_idle()
        except BaseException:           # pylint: disable=broad-except
            pass
        close_loop(self.loop)
        shutil.rmtree(self.tmp, ignore_errors=True)


def replay_x11(steps, workdir, server_allows=True, unix_display=False,
               seed=0):
    """steps: [(lbl, state)] of an X11.tla behaviour or bare labels."""
    w = X11World(workdir, server_allows, unix_display, seed)
    res = {'l1': [], 'diverged': None, 'script': []}
    pending = {}
    try:
        for i, step in enumerate(steps):
            lbl, st = step if isinstance(step, tuple) and len(step) == 2 \
                and isinstance(step[1], dict) else (step, None)
            op = lbl[0]
            div = None
            if op == 'request':
                pending[lbl[1]] = bool(lbl[2])
                res['script'].append(f'req{lbl[1]}{"s" if lbl[2] else ""}')
            elif op == 'answer':
                s = lbl[1]
                ok = w.open_session(s, pending.pop(s))
                res['script'].append(f'ans{s}={"ok" if ok else "no"}')
                if ok != server_allows:
                    div = f'x11-req of session {s}: granted={ok}'
            elif op == 'close':
                if lbl[1] in w.live:
                    w.close_session(lbl[1])
                    res['script'].append(f'close{lbl[1]}')
                else:
                    div = f'close {lbl[1]}: not open'
            elif op == 'xconn':
                out = w.xconn(lbl[1], lbl[2])
                res['script'].append(f'x({lbl[1]},{lbl[2]})={out}')
                if len(lbl) > 3 and out != lbl[3]:
                    div = f'xconn {lbl[1]} {lbl[2]}: code={out} model={lbl[3]}'
            if st is not None and div is None and op != 'request':
                has = ('127.0.0.1', w.last_port) in w.loop.net.listeners \
                    if w.last_port else False
                if has != st['slsn']:
                    div = f'{op}: display listener code={has} model={st["slsn"]}'
                elif st['pub'] and w.cookie.get(st['pub']) not in \
                        w.published():
                    div = (f'{op}: Xauthority does not hold the cookie of '
                           f'session {st["pub"]}')
                elif (w.conn._x11_listener is not None) != st['clsn']:
                    div = f'{op}: client listener model={st["clsn"]}'
            if div and not res['diverged']:
                res['diverged'] = f'step {i}: {div}'
        w.finish()
        res['l1'] = list(w.l1)
        res['loop_exceptions'] = [repr(c.get('exception') or c.get('message'))
                                  for c in w.loop.exceptions]
    finally:
        w.stop()
    return res


def flow_case(kind, window=(4096, 1024), half='L', nwin=8, slow=True,
              chunk=None, close_while_paused=False):
    """Flow control in play: end `half` sends a request and half-closes, the
    other end then answers several channel windows (more than the socket
    buffer when `slow`: the half-closed end does not read for a while, so the
    relay pauses), WINDOW_ADJUST messages flow towards the side whose
    receive direction already ended.  Monitors: RelayFIFO, HalfClose,
    Complete, NoListenerLeft."""
    w = World(kind, True, True, manual=False, window=window)
    res = {'l1': [], 'info': {}, 'diverged': None,
           'script': [['flow', kind, half, list(window), slow,
                       close_while_paused]]}
    try:
        w.start()
    except asyncssh.ChannelOpenError as exc:
        w.stop()
        res['l1'] = [('Complete', f'open failed: {exc.reason}')]
        return res
    try:
        loop = w.loop
        if chunk:
            for t in list(loop.net.transports):
                t.chunker = lambda avail, c=chunk: c
        other = 'R' if half == 'L' else 'L'
        a, b = w.apps[half], w.apps[other]
        if b is None or a is None:
            res['l1'].append(('Complete', 'destination never connected'))
            return res
        req = bytes((i * 7 + 3) % 251 for i in range(window[0] + 300))
        w.sent[half] += req
        a.write(req)
        a.write_eof()
        loop.run_until_idle()
        w.check_prefix()
        if not b.eof_seen:
            w.flag('HalfClose', f'{half} sent EOF but {other} never saw it')
        can_pause = slow and isinstance(a, App)
        if can_pause:
            a.t.pause_reading()
        total = max(min(nwin * window[0], 400000),
                    300000 if can_pause else 0)
        piece = window[0] // 2 + 37
        n = 0
        while n < total:
            data = bytes((n + i * 5) % 251 for i in range(piece))
            w.sent[other] += data
            b.write(data)
            n += piece
            loop.run_until_idle()
        res['info']['received_while_paused'] = len(a.payload())
        res['info']['writer_paused'] = getattr(b, 'paused', None)
        if close_while_paused:
            # the answering end is done and closes while the relay towards
            # the slow end is still paused: data, EOF and CLOSE are parked
            b.close()
            loop.run_until_idle()
        if can_pause:
            a.t.resume_reading()
        loop.run_until_idle()
        w.check_prefix()
        if a.payload() != bytes(w.sent[other]):
            w.flag('Complete', f'after {half} half-closed, {half} received '
                   f'{len(a.payload())} of the {len(w.sent[other])} bytes '
                   f'{other} sent (window {window[0]})')
        if not close_while_paused:
            b.write_eof()
        loop.run_until_idle()
        if not (a.eof_seen or a.lost):
            w.flag('HalfClose', f'{other} finished but {half} never saw '
                   'EOF')
        w.check_quiescent()
        w.finish('close')
        res['l1'] = list(w.l1)
        res['loop_exceptions'] = w.loop_exceptions()
        res['features'] = []
    finally:
        w.stop()
    return res


# ======================================================================
# ListenAsync: listeners whose creation is asynchronous vs. the end of
# their connection (specs/Forward/ListenAsync.tla)
# ======================================================================

class RecListener(asyncssh.SSHListener):
    """A listener the server APPLICATION supplies: it listens by itself (an
    in-memory server, or a listener that lives on another SSH connection)
    and records what asyncssh does with it."""

    def __init__(self, world, k, server=None, inner=None, port=0):
        super().__init__()
        self.world, self.k = world, k
        self.server, self.inner, self.port = server, inner, port
        self.close_calls = 0
        self.wait_calls = 0

    def get_port(self):
        return self.inner.get_port() if self.inner is not None else self.port

    def close(self):
        self.close_calls += 1
        if self.inner is not None:
            self.inner.close()
        elif self.server is not None:
            self.server.close()

    async def wait_closed(self):
        self.wait_calls += 1


class AsyncListenWorld:
    def __init__(self):
        world = self
        self.loop = loop = new_loop()
        self.decisions = {}         # request -> future returned by the server app
        self.gates = {}             # request -> future the set-up waits for
        self.tasks = {}
        self.cfg = {}
        self.expect = None
        self.rec = {}               # request -> RecListener handed to asyncssh
        self.conn2 = None
        self.remote_order = []      # remote requests the server has not seen
        self.gating = False
        self.dead = False
        self.l1 = []
        k = keys()
        o_gai, o_unix = loop.getaddrinfo, loop.create_unix_server

        async def getaddrinfo(host, port, **kw):
            if world.gating and world.expect is not None:
                f = loop.create_future()
                world.gates[world.expect] = f
                world.expect = None
                await f
            return await o_gai(host, port, **kw)

        async def create_unix_server(factory, path=None, **kw):
            if world.gating and world.expect is not None:
                f = loop.create_future()
                world.gates[world.expect] = f
                world.expect = None
                await f
            return await o_unix(factory, path, **kw)
        loop.getaddrinfo = getaddrinfo
        loop.create_unix_server = create_unix_server

        class Server(asyncssh.SSHServer):
            def connection_made(self, conn):
                if getattr(world, 'sconn', None) is None:
                    world.sconn = conn

            def begin_auth(self, username):
                return False

            def _decide(self):
                k_ = world.remote_order.pop(0)
                if world.cfg[k_].get('sync'):
                    return world.make_answer(k_)
                f = loop.create_future()
                world.decisions[k_] = f
                return f

            def server_requested(self, listen_host, listen_port):
                return self._decide()

            def unix_server_requested(self, listen_path):
                return self._decide()

        async def go():
            self.acceptor = await asyncssh.listen(
                '127.0.0.1', 2222, server_factory=Server,
                server_host_keys=[k['host']])
            self.conn = await asyncssh.connect(
                '127.0.0.1', 2222, known_hosts=None, config=None,
                client_keys=None)
        loop.run_until_complete(go())
        loop.run_until_idle()
        self.ct, self.st = loop.net.all_transports[0], loop.net.all_transports[1]
        self.base = set(loop.net.listeners)
        self.gating = True

    def flag(self, clause, detail, cause=''):
        if not any(c == clause and k == cause for c, _, k in self.l1):
            self.l1.append((clause, detail, cause))

    def make_answer(self, k):
        """what the server application answers to listen request k"""
        c = self.cfg[k]
        ans, unix = c.get('ans', 'true'), c['fam'] == 'unix'
        loop = self.loop
        if ans == 'false':
            return False
        if ans == 'true':
            self.expect = k
            return True
        if ans == 'callable':
            self.expect = k
            return lambda orig_host, orig_port: True
        if ans == 'acallable':
            self.expect = k

            async def accept(orig_host, orig_port):
                return True
            return accept
        saved, self.expect = self.expect, None
        try:
            if ans == 'otherconn':
                if self.conn2 is None:
                    async def c2():
                        return await asyncssh.connect(
                            '127.0.0.1', 2222, known_hosts=None, config=None,
                            client_keys=None)
                    self.conn2 = self._run(c2())

                async def mk():
                    if unix:
                        return await self.conn2.forward_local_path(
                            f'c20-al{k}.sock', R_PATH)
                    return await self.conn2.forward_local_port(
                        '127.0.0.1', c.get('fixed', 0), R_HOST, R_PORT)
                rec = RecListener(self, k, inner=self._run(mk()))
            else:
                async def mk():
                    if unix:
                        return await loop.create_unix_server(
                            asyncio.Protocol, f'c20-al{k}.sock'), 0
                    port = c.get('fixed') or loop.net.alloc_port()
                    return await loop.create_server(asyncio.Protocol,
                                                    '127.0.0.1', port), port
                srv, port = self._run(mk())
                rec = RecListener(self, k, server=srv, port=port)
        finally:
            self.expect = saved
        self.rec[k] = rec
        return rec

    def _run(self, coro):
        """run a harness coroutine to completion from inside or outside a
        loop callback (everything it awaits completes at once)"""
        if not self.loop.is_running():
            return self.loop.run_until_complete(coro)
        try:
            coro.send(None)
        except StopIteration as done:
            return done.value
        raise RuntimeError('harness coroutine needs the loop inside a '
                           'callback')

    def sockets(self):
        return sorted(str(a) for a in set(self.loop.net.listeners) - self.base)

    def request(self, k, c):
        conn = self.conn
        self.cfg[k] = c
        unix = c['fam'] == 'unix'
        path = f'c20-al{k}.sock'

        async def go():
            if c['side'] == 'remote':
                if unix:
                    return await conn.forward_remote_path(path, R_PATH)
                return await conn.forward_remote_port('127.0.0.1', 0,
                                                      R_HOST, R_PORT)
            if unix:
                return await conn.forward_local_path(path, R_PATH)
            if k % 2:
                return await conn.forward_local_port('127.0.0.1', 0,
                                                     R_HOST, R_PORT)
            return await conn.forward_socks('127.0.0.1', 0)
        if c.get('ans') == 'otherconn' and self.conn2 is None:
            async def c2():
                return await asyncssh.connect(
                    '127.0.0.1', 2222, known_hosts=None, config=None,
                    client_keys=None)
            gating, self.gating = self.gating, False
            self.conn2 = self.loop.run_until_complete(c2())
            self.loop.run_until_idle()
            self.gating = gating
            self.base = self.base | set()
        if c['side'] == 'remote':
            self.remote_order.append(k)
        else:
            self.expect = k
        self.tasks[k] = self.loop.create_task(go())
        self.loop.run_until_idle()

    def decide(self, k, ok):
        f = self.decisions.get(k)
        if f is None or f.done():
            return False
        f.set_result(self.make_answer(k))
        self.loop.run_until_idle()
        self.expect = None
        self.check_port(k)
        return True

    def check_port(self, k):
        """for a port-0 request answered with the application's own listener
        the client must be told that listener's port"""
        t, rec = self.tasks.get(k), self.rec.get(k)
        if rec is None or t is None or not t.done() or t.cancelled() or \
                t.exception() is not None or self.cfg[k]['fam'] == 'unix':
            return
        if self.cfg[k].get('fixed'):
            return
        got = t.result().get_port()
        if got != rec.get_port():
            self.flag('PortReported', f'port-0 listen request {k}: the '
                      f'client was told port {got}, the listener that '
                      f'serves it is on {rec.get_port()}', 'applistener')

    def setup_done(self, k):
        f = self.gates.get(k)
        if f is None or f.done():
            return False
        f.set_result(None)
        self.loop.run_until_idle()
        return True

    def cancel(self, k):
        t = self.tasks[k]
        if not t.done() or t.cancelled() or t.exception() is not None:
            return False
        lsn = t.result()

        lsn.close()
        self.loop.run_until_idle()
        if self.cfg[k]['side'] == 'remote' and not self.dead and \
                (self.ct.closed or self.st.closed):
            self.flag('CancelKeepsConnection', f'cancelling listen request '
                      f'{k} ({self.cfg[k].get("ans", "true")} answer) tore '
                      'the whole SSH connection down',
                      self.cfg[k].get('ans', 'true'))
            self.dead = True
        rec = self.rec.get(k)
        if rec is not None and rec.close_calls != 1:
            self.flag('ClosedOnce', f'listen request {k} was cancelled: '
                      f'close() was called {rec.close_calls} times on the '
                      'application\'s listener', self.cfg[k]['ans'])
        return True

    def conn_end(self, how):
        self.dead = True
        if how == 'cclose':
            self.conn.close()
        elif how == 'sclose':
            self.sconn.close()
        else:
            self.ct.cut()
        self.loop.run_until_idle()

    def finish(self):
        """End the connection if it is still up, let every pending decision
        and set-up complete, then nothing of the connection may listen."""
        if not self.dead:
            self.conn_end('cclose')
        for k, f in sorted(self.decisions.items()):
            if not f.done():
                self.decide(k, True)
        for k, f in sorted(self.gates.items()):
            if not f.done():
                self.setup_done(k)
        self.loop.run_until_idle()
        left = self.sockets()
        if left:
            sides = sorted({self.cfg[k]['side'] for k in self.cfg})
            late = []
            for k, t in self.tasks.items():
                if t.done() and not t.cancelled() and \
                        t.exception() is None and \
                        self.cfg[k]['side'] == 'local':
                    late.append(k)
            cause = 'local' if late else 'remote'
            self.flag('ListenersReleased', f'listening socket(s) {left} '
                      'survive the end of their SSH connection '
                      f'({cause} side)', cause)
        for k, rec in sorted(self.rec.items()):
            if rec.close_calls != 1:
                self.flag('ClosedOnce', f'the connection ended: close() was '
                          f'called {rec.close_calls} times on the listener '
                          f'the application supplied for listen request {k}',
                          self.cfg[k]['ans'])
        for t in self.tasks.values():
            if t.done() and not t.cancelled():
                t.exception()           # retrieved: no "never retrieved" noise

    def stop(self):
        try:
            for f in list(self.decisions.values()) + list(self.gates.values()):
                if not f.done():
                    f.cancel()
            for t in self.tasks.values():
                t.cancel()
            self.conn.abort()
            if self.conn2 is not None:
                self.conn2.abort()
            self.acceptor.close()
            for srv in list(self.loop.net.listeners.values()):
                srv.close()
            self.loop.run_until_idle()
        except BaseException:           # pylint: disable=broad-except
            pass
        close_loop(self.loop)


def replay_listen_async(steps):
    """steps: [(lbl, state)] of a ListenAsync.tla behaviour or bare labels"""
    w = AsyncListenWorld()
    res = {'l1': [], 'diverged': None, 'script': []}
    try:
        for i, step in enumerate(steps):
            lbl, st = step if isinstance(step, tuple) and len(step) == 2 \
                and isinstance(step[1], dict) else (step, None)
            op = lbl[0]
            ok = True
            if op == 'request':
                w.request(lbl[1], lbl[2])
                if lbl[2].get('sync'):
                    w.check_port(lbl[1])
                res['script'].append(
                    f'req{lbl[1]}:{lbl[2]["side"][0]}{lbl[2]["fam"][0]}'
                    f'{"" if lbl[2].get("ans", "-") == "-" else "=" + lbl[2]["ans"]}'
                    f'{"(sync)" if lbl[2].get("sync") else ""}')
            elif op == 'decide':
                ok = w.decide(lbl[1], lbl[2])
                res['script'].append(f'dec{lbl[1]}={"y" if lbl[2] else "n"}')
            elif op == 'setup':
                ok = w.setup_done(lbl[1])
                res['script'].append(f'setup{lbl[1]}')
            elif op == 'cancel':
                ok = w.cancel(lbl[1])
                res['script'].append(f'cancel{lbl[1]}')
            elif op == 'end':
                w.conn_end(lbl[1])
                res['script'].append(f'end:{lbl[1]}')
            div = None if ok else f'{op} {lbl[1]}: not possible'
            if st is not None and div is None:
                n = len(w.sockets())
                want = len(st['socks']['$set']) if isinstance(st['socks'], dict) \
                    else len(st['socks'])
                if n != want:
                    div = f'{op}: {n} listening socket(s), model {want}'
            if div and not res['diverged']:
                res['diverged'] = f'step {i}: {div}'
        w.finish()
        res['l1'] = list(w.l1)
        res['loop_exceptions'] = [repr(c.get('exception') or c.get('message'))
                                  for c in w.loop.exceptions]
    finally:
        w.stop()
    return res


# ======================================================================
# ListenAddrs: a listen host that resolves to several addresses
# (specs/Forward/ListenAddrs.tla)
# ======================================================================

MA_IPS = ['127.0.0.1', '127.0.0.2', '127.0.0.3']


def _free_port_all():
    """a port number that is free on every address of MA_IPS right now"""
    import socket as _s
    for _ in range(200):
        socks = []
        try:
            s0 = _s.socket()
            socks.append(s0)
            s0.bind((MA_IPS[0], 0))
            p = s0.getsockname()[1]
            for ip in MA_IPS[1:]:
                s1 = _s.socket()
                socks.append(s1)
                s1.bind((ip, p))
            return p
        except OSError:
            continue
        finally:
            for s_ in socks:
                s_.close()
    raise RuntimeError('no port free on all loopback addresses')


class MultiAddrWorld:
    """One SSH connection; listen hosts c20multi<n> resolve to the first n
    loopback addresses (the resolver is the harness), a bind fails where
    the harness holds a listening socket on that address and port."""

    def __init__(self):
        import socket as _s
        world = self
        self.loop = loop = new_loop()
        self.hits = []
        self.lsn, self.port, self.cfg, self.state = {}, {}, {}, {}
        self.block_next = []
        self.blockers = []
        self.dead = False
        self.l1 = []
        k = keys()
        o_gai, o_cs = loop.getaddrinfo, loop.create_server

        async def getaddrinfo(host, port, **kw):
            if isinstance(host, str) and host.startswith('c20multi'):
                n = int(host[len('c20multi'):])
                return [(_s.AF_INET, _s.SOCK_STREAM, 6, '', (ip, port or 0))
                        for ip in MA_IPS[:n]]
            return await o_gai(host, port, **kw)

        async def create_server(factory, host=None, port=None, **kw):
            sock = kw.get('sock')
            if sock is not None and world.block_next:
                # a dynamic listener got its port with the first address:
                # now that port is busy on the addresses that are to fail
                p = sock.getsockname()[1]
                world.dyn_port = p
                ips, world.block_next = world.block_next, []
                for ip in ips:
                    world.block(ip, p)
            return await o_cs(factory, host, port, **kw)
        loop.getaddrinfo = getaddrinfo
        loop.create_server = create_server

        class Server(asyncssh.SSHServer):
            def connection_made(self, conn):
                if getattr(world, 'sconn', None) is None:
                    world.sconn = conn

            def begin_auth(self, username):
                return False

            def connection_requested(self, dest_host, dest_port, orig_host,
                                     orig_port):
                return True

            def server_requested(self, listen_host, listen_port):
                return True

        async def go():
            self.acceptor = await asyncssh.listen(
                '127.0.0.1', 2222, server_factory=Server,
                server_host_keys=[k['host']])
            self.dest = await o_cs(lambda: TagEcho(world, 1), R_HOST, R_PORT)
            self.conn = await asyncssh.connect(
                '127.0.0.1', 2222, known_hosts=None, config=None,
                client_keys=None)
        loop.run_until_complete(go())
        loop.run_until_idle()
        self.ct, self.st = loop.net.all_transports[0], loop.net.all_transports[1]

    def flag(self, clause, detail, cause=''):
        if not any(c == clause and k == cause for c, _, k in self.l1):
            self.l1.append((clause, detail, cause))

    def block(self, ip, port):
        import socket as _s
        s_ = _s.socket()
        s_.setsockopt(_s.SOL_SOCKET, _s.SO_REUSEADDR, True)
        try:
            s_.bind((ip, port))
            s_.listen(1)
            self.blockers.append(s_)
            return True
        except OSError:
            s_.close()
            return False

    def unblock(self):
        for s_ in self.blockers:
            s_.close()
        self.blockers = []
        self.block_next = []

    def endpoints(self, k):
        if k not in self.port or not self.port[k]:
            return []
        return [a + 1 for a, ip in enumerate(MA_IPS[:self.cfg[k]['n']])
                if (ip, self.port[k]) in self.loop.net.listeners]

    def listen(self, k, c):
        """-> did the listen request succeed"""
        conn, loop = self.conn, self.loop
        self.cfg[k] = c
        busy = sorted(c['busy']['$set'] if isinstance(c['busy'], dict)
                      else c['busy'])
        host = f'c20multi{c["n"]}'
        self.dyn_port = None
        if c['port'] == 'fix':
            port = _free_port_all()
            for a in busy:
                self.block(MA_IPS[a - 1], port)
        else:
            port = 0
            self.block_next = [MA_IPS[a - 1] for a in busy]

        async def go():
            if c['side'] == 'remote':
                return await conn.forward_remote_port(host, port, R_HOST,
                                                      R_PORT)
            if c['side'] == 'socks':
                return await conn.forward_socks(host, port)
            return await conn.forward_local_port(host, port, R_HOST, R_PORT)
        try:
            lsn = loop.run_until_complete(go())
            ok = lsn is not None
        except (OSError, asyncssh.ChannelListenError):
            lsn, ok = None, False
        loop.run_until_idle()
        self.unblock()
        self.lsn[k] = lsn
        self.port[k] = lsn.get_port() if ok else (port or self.dyn_port)
        self.state[k] = 'open' if ok else 'failed'
        eps = self.endpoints(k)
        what = (f'listen request {k} ({c["side"]}, {c["n"]} addresses, '
                f'port {c["port"]}, bind fails on {busy or "none"})')
        if not ok and eps:
            self.flag('NoListenerLeft', f'{what} FAILED but address(es) '
                      f'{eps} of it keep accepting', 'partial-bind')
        if ok and eps != list(range(1, c['n'] + 1)):
            self.flag('AllAddresses', f'{what} succeeded but listens only '
                      f'on {eps}', c['side'])
        if ok and busy:
            self.flag('AllAddresses', f'{what} succeeded although a bind '
                      'had to fail', c['side'])
        return ok

    def connect(self, k, a):
        loop = self.loop
        c = self.cfg[k]
        if not self.port.get(k):
            return 0
        app = App(self, 'L', True)
        n_hits = len(self.hits)

        async def cl():
            await loop.create_connection(lambda: app, MA_IPS[a - 1],
                                         self.port[k])
        try:
            loop.run_until_complete(cl())
        except OSError:
            loop.run_until_idle()
            return 0
        loop.run_until_idle()
        skip = 0
        if c['side'] == 'socks':
            p = R_PORT
            for m in (b'\x05\x01\x00', b'\x05\x01\x00\x01\x7f\x00\x00\x01' +
                      bytes((p >> 8, p & 255))):
                if not app.lost:
                    app.t.write(m)
                loop.run_until_idle()
            skip = 12
        ping = b'ping-%d-%d' % (k, a)
        if not app.lost:
            app.t.write(ping)
        loop.run_until_idle()
        data = bytes(app.data[skip:])
        served = data == b'D1:' + ping
        if not app.lost:
            app.t.close()
        loop.run_until_idle()
        live = self.state.get(k) == 'open' and not self.dead
        what = f'address {a} of listen request {k} ({self.state.get(k)})'
        if live and not served:
            self.flag('Routing', f'a connection into {what} was not relayed '
                      f'to the destination: {data[:30]!r}', c['side'])
        if not live and (served or len(self.hits) > n_hits):
            self.flag('NoListenerLeft', f'{what} still accepts and relays '
                      'over SSH', 'partial-bind'
                      if self.state.get(k) == 'failed' else 'closed')
        return k if served else 0

    def close(self, k):
        lsn = self.lsn[k]

        async def go():
            lsn.close()
            await lsn.wait_closed()
        self.loop.run_until_complete(go())
        self.loop.run_until_idle()
        self.state[k] = 'closed'
        if self.endpoints(k):
            self.flag('NoListenerLeft', f'listener {k} was closed but '
                      f'address(es) {self.endpoints(k)} keep accepting',
                      'closed')

    def end(self, how):
        self.dead = True
        if how == 'cclose':
            self.conn.close()
        elif how == 'sclose':
            self.sconn.close()
        else:
            self.ct.cut()
        self.loop.run_until_idle()
        self.check_left('the SSH connection ended')

    def check_left(self, when):
        for k in sorted(self.cfg):
            eps = self.endpoints(k)
            if eps:
                self.flag('NoListenerLeft', f'{when}: address(es) {eps} of '
                          f'listen request {k} ({self.state.get(k)}) keep '
                          'accepting', 'partial-bind'
                          if self.state.get(k) == 'failed' else 'connection-end')

    def finish(self):
        if not self.dead:
            self.end('cclose')

    def stop(self):
        try:
            self.unblock()
            self.conn.abort()
            self.acceptor.close()
            for srv in list(self.loop.net.listeners.values()):
                srv.close()
            self.loop.run_until_idle()
        except BaseException:           # pylint: disable=broad-except
            pass
        close_loop(self.loop)


def replay_listen_addrs(steps):
    """steps: [(lbl, state)] of a ListenAddrs.tla behaviour or bare labels"""
    w = MultiAddrWorld()
    res = {'l1': [], 'diverged': None, 'script': []}
    try:
        for i, step in enumerate(steps):
            lbl, st = step if isinstance(step, tuple) and len(step) == 2 \
                and isinstance(step[1], dict) else (step, None)
            op, k = lbl[0], lbl[1]
            div = None
            if op == 'listen':
                c = lbl[2]
                busy = sorted(c['busy']['$set'] if isinstance(c['busy'], dict)
                              else c['busy'])
                ok = w.listen(k, c)
                res['script'].append(f'listen{k}:{c["side"]}/{c["n"]}/'
                                     f'{c["port"]}/busy{busy}={ok}')
                if ok != (not busy):
                    div = f'listen {k}: code={ok} model={not busy}'
            elif op == 'connect':
                got = w.connect(k, lbl[2])
                res['script'].append(f'conn{k}.{lbl[2]}->{got}')
                if len(lbl) > 3 and got != lbl[3]:
                    div = f'connect {k}.{lbl[2]}: code={got} model={lbl[3]}'
            elif op == 'close':
                w.close(k)
                res['script'].append(f'close{k}')
            elif op == 'end':
                w.end(k)
                res['script'].append(f'end:{k}')
            if st is not None and div is None:
                for j in sorted(w.cfg):
                    want = st['ep'][j - 1]
                    want = sorted(want['$set'] if isinstance(want, dict)
                                  else want)
                    if w.endpoints(j) != want:
                        div = (f'{op}: endpoints of request {j}: code='
                               f'{w.endpoints(j)} model={want}')
            if div and not res['diverged']:
                res['diverged'] = f'step {i}: {div}'
        w.finish()
        res['l1'] = list(w.l1)
        res['loop_exceptions'] = [repr(c.get('exception') or c.get('message'))
                                  for c in w.loop.exceptions]
    finally:
        w.stop()
    return res
