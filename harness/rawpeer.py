"""Scriptable raw SSH peer.

The peer reuses asyncssh's own transport layer (version exchange, key
exchange, encryption) to get an authenticated-transport pipe to the endpoint
under test, and then takes over: every packet of type >= 50 that arrives is
recorded instead of interpreted, and the harness sends arbitrary packets with
send().  The endpoint under test is a *separate*, unmodified connection
object, so what is being judged is never the peer's own behaviour.
"""

import asyncio

import asyncssh
from asyncssh import connection as _c
from asyncssh.packet import Boolean, Byte, String, UInt32, SSHPacket
from asyncssh.constants import (MSG_USERAUTH_REQUEST, MSG_CHANNEL_OPEN,
                                MSG_GLOBAL_REQUEST, MSG_DISCONNECT)


class _AnyChan(dict):
    def __init__(self, handler):
        super().__init__()
        self._h = handler

    def __getitem__(self, k):
        return self._h

    def __bool__(self):
        return False

    def values(self):
        return []


class RawOwner(asyncssh.SSHClient):
    def __init__(self):
        self.lost = None
        self.is_lost = False

    def connection_lost(self, exc):
        self.lost = exc
        self.is_lost = True


class _RawMixin:
    raw = False

    def _raw_init(self):
        self.inbox = []            # (pkttype, full payload incl. type byte)
        self.raw = False

    def _enter_raw(self):
        self.raw = True
        self._auth = self
        # with per-direction algorithms (delayed compression!) the raw peer
        # must know when authentication really completes
        self._auth_complete = not self.asym
        self._saved_channels = self._channels
        self._channels = _AnyChan(self)
        if self._waiter and not self._waiter.done():
            self._waiter.set_result(None)
            self._wait = None

    # Auth-object interface used by connection clean-up
    def cancel(self):
        pass

    on_packet = None
    no_strict = False           # True: do not offer strict key exchange
    strict_first_only = False   # True: the kex-strict marker (and ext-info) only in the
                                # first KEXINIT, as the specification allows ("MUST be
                                # ignored if present in subsequent KEXINIT")
    cleartext_inject = None     # {'after_kexinit'|'before_newkeys': [(type, body)]}
    _guess_sent = False
    wrong_guess = False         # True: the first KEXINIT lists a method the other side does
                                # not have in front and sets first_kex_packet_follows: the
                                # guess is wrong, the other side must drop our next KEX packet

    def _get_extra_kex_algs(self):
        algs = super()._get_extra_kex_algs()
        if self.no_strict or (self.strict_first_only and self._session_id):
            algs = [a for a in algs if not a.startswith(b'kex-strict')]
        return algs

    async def _raw_process_kexinit(self, pkttype, pktid, packet):
        await _c.SSHConnection._process_kexinit(self, pkttype, pktid, packet)
        if self.no_strict:
            # a peer without strict key exchange ignores the other side's offer
            self._strict_kex = False
        if self.asym:
            # the other side supports everything we list: the first name of
            # each of our per-direction lists is the negotiated one
            for key, attr in (('enc', '_enc_alg'), ('mac', '_mac_alg'),
                              ('cmp', '_cmp_alg')):
                if key in self.asym:
                    cs, sc = self.asym[key]
                    setattr(self, attr + '_cs', cs[0].encode())
                    setattr(self, attr + '_sc', sc[0].encode())

    # per-direction algorithm lists: {'enc'|'mac'|'cmp': ([c->s names], [s->c names])}
    asym = None

    _last_kex_pkt = None

    def send_packet(self, pkttype, *args, **kw):
        if 30 <= pkttype <= 49:
            # remembered so that a test can REPEAT our own genuine key
            # exchange message (cleartext_inject body None)
            self._last_kex_pkt = (pkttype, b''.join(args))
        if pkttype == 20 and self.wrong_guess and not self._session_id \
                and not self._guess_sent:
            self._guess_sent = True      # our own KEXINIT only, not injected ones
            from asyncssh.packet import SSHPacket, NameList, Byte
            body = b''.join(args)
            pk = SSHPacket(body)
            cookie = pk.get_bytes(16)
            lists = [pk.get_namelist() for _ in range(10)]
            rest = pk.get_remaining_payload()
            lists[0] = [b'wrong-guess@verif.example'] + lists[0]
            body = cookie + b''.join(NameList(l) for l in lists) + \
                b'\x01' + rest[1:]
            if self.is_server():
                self._server_kexinit = Byte(20) + body
            else:
                self._client_kexinit = Byte(20) + body
            args = (body,)
        if pkttype == 20 and self.asym:
            from asyncssh.packet import SSHPacket, NameList, Byte
            body = b''.join(args)
            pk = SSHPacket(body)
            cookie = pk.get_bytes(16)
            lists = [pk.get_namelist() for _ in range(10)]
            rest = pk.get_remaining_payload()
            for key, (i, j) in (('enc', (2, 3)), ('mac', (4, 5)),
                                ('cmp', (6, 7))):
                if key in self.asym:
                    cs, sc = self.asym[key]
                    lists[i] = [x.encode() for x in cs]
                    lists[j] = [x.encode() for x in sc]
            body = cookie + b''.join(NameList(l) for l in lists) + rest
            if self.is_server():
                self._server_kexinit = Byte(20) + body
            else:
                self._client_kexinit = Byte(20) + body
            args = (body,)
        return super().send_packet(pkttype, *args, **kw)

    def _force_send(self, pkttype, body):
        """Put a packet on the wire now, bypassing the deferral of packets
        which do not belong into the current phase."""
        saved = (self._kex_complete, self._auth_complete,
                 self._auth_in_progress)
        self._kex_complete = self._auth_complete = True
        self._injecting = True      # seen by the drivers' pkt_out sinks
        try:
            self.send_packet(pkttype, body)
        finally:
            self._injecting = False
            (self._kex_complete, self._auth_complete,
             self._auth_in_progress) = saved

    def _send_kexinit(self):
        super()._send_kexinit()
        first = not self._session_id
        for t, b in (self.cleartext_inject or {}).get('after_kexinit', ()) \
                if first else ():
            self._force_send(t, b)

    def send_newkeys(self, k, h):
        first = not self._session_id
        for t, b in (self.cleartext_inject or {}).get('before_newkeys', ()) \
                if first else ():
            if b is None and self._last_kex_pkt:
                t, b = self._last_kex_pkt
            self._force_send(t, b)
        super().send_newkeys(k, h)

    def process_packet(self, pkttype, pktid, packet):
        if self.raw and (pkttype >= 50 or pkttype in (3, 5, 6, 7)):
            if pkttype == 52 and self.asym:
                self._auth_complete = True
            payload = packet.get_full_payload()
            self.inbox.append((pkttype, payload))
            if self.on_packet is not None:
                self.on_packet(pkttype, payload)
            return True
        return super().process_packet(pkttype, pktid, packet)

    def raw_send(self, pkttype, *args):
        self.send_packet(pkttype, *args)
        if pkttype == 52 and self.asym:
            self._auth_complete = True

    def take(self):
        out, self.inbox = self.inbox, []
        return out


class RawClientConnection(_RawMixin, _c.SSHClientConnection):
    hold_service = False        # True: go raw before SERVICE_REQUEST is sent
    _packet_handlers = dict(_c.SSHClientConnection._packet_handlers)
    _packet_handlers[20] = _RawMixin._raw_process_kexinit

    def __init__(self, *a, **kw):
        super().__init__(*a, **kw)
        self._raw_init()

    def try_next_auth(self, *, next_method=False):
        self._enter_raw()

    def send_service_request(self, service):
        if self.hold_service:
            self._next_service = service
            self._enter_raw()
        else:
            super().send_service_request(service)


class RawServerConnection(_RawMixin, _c.SSHServerConnection):
    """Server-side raw peer: real version exchange / key exchange (host key
    signature included), everything else is recorded and scripted."""
    _packet_handlers = dict(_c.SSHServerConnection._packet_handlers)
    _packet_handlers[20] = _RawMixin._raw_process_kexinit

    def __init__(self, *a, **kw):
        super().__init__(*a, **kw)
        self._raw_init()
        self.raw = True
        self._auth = self
        self._auth_complete = True
        self._channels = _AnyChan(self)

    def connection_made(self, transport):
        if self.asym:
            # delayed compression: authentication completes when we say so
            self._auth_complete = False
        super().connection_made(transport)


async def raw_listen(host, port, on_conn, no_strict=False, asym=None,
                     strict_first_only=False, **kwargs):
    """Listen with raw server connections; on_conn(conn) is called for each
    new connection object (before any packet is processed)."""
    loop = asyncio.get_event_loop()
    kwargs.setdefault('server_factory', asyncssh.SSHServer)
    options = await _c.SSHServerConnectionOptions.construct(
        None, config=None, host=host, port=port, **kwargs)

    def factory():
        conn = RawServerConnection(loop, options, wait=None)
        conn.no_strict = no_strict
        conn.strict_first_only = strict_first_only
        conn.asym = asym
        on_conn(conn)
        return conn

    return await _c._listen(options, None, loop, 0, 100, None, None, None,
                            factory, 'Creating raw SSH listener on')


async def raw_connect(host, port, hold_service=False, no_strict=False,
                      cleartext_inject=None, asym=None,
                      strict_first_only=False, wrong_guess=False, **kwargs):
    """Connect, run the key exchange and service request, then go raw
    (hold_service: go raw right after NEWKEYS, before SERVICE_REQUEST)."""
    loop = asyncio.get_event_loop()
    kwargs.setdefault('known_hosts', None)
    kwargs.setdefault('username', 'rawpeer')
    kwargs.setdefault('client_keys', None)
    kwargs.setdefault('client_factory', RawOwner)
    options = await _c.SSHClientConnectionOptions.construct(
        None, config=None, host=host, port=port, **kwargs)

    def factory():
        conn = RawClientConnection(loop, options, wait='auth')
        conn.hold_service = hold_service
        conn.no_strict = no_strict
        conn.strict_first_only = strict_first_only
        conn.cleartext_inject = cleartext_inject
        conn.asym = asym
        conn.wrong_guess = wrong_guess
        return conn

    return await _c._connect(options, None, loop, 0, None, factory,
                             'Opening raw SSH connection to')


def userauth_request(user, method, *rest, service=b'ssh-connection'):
    """Body of a USERAUTH_REQUEST (without the type byte)."""
    if isinstance(user, str):
        user = user.encode()
    if isinstance(method, str):
        method = method.encode()
    return String(user) + String(service) + String(method) + b''.join(rest)


def signed_pk_request(session_id, user, key, *, sign_user=None,
                      sign_sid=None, sign_service=None, sign_key=None,
                      service=b'ssh-connection'):
    """publickey request with signature.  The sign_* arguments make the
    signature cover something else than the request that is sent."""
    alg = key.sig_algorithms[0] if hasattr(key, 'sig_algorithms') else \
        key.algorithm
    pub = key.public_data

    def body(u, svc):
        return (Byte(MSG_USERAUTH_REQUEST) +
                userauth_request(u, b'publickey', Boolean(True), String(alg),
                                 String(pub), service=svc))

    sent = body(user, service)
    signed = body(sign_user if sign_user is not None else user,
                  sign_service if sign_service is not None else service)
    sid = sign_sid if sign_sid is not None else session_id
    skey = sign_key if sign_key is not None else key
    sig = skey.sign(String(sid) + signed, alg)
    return sent[1:] + String(sig)


def query_pk_request(user, key):
    alg = key.sig_algorithms[0] if hasattr(key, 'sig_algorithms') else \
        key.algorithm
    return userauth_request(user, b'publickey', Boolean(False), String(alg),
                            String(key.public_data))


def password_request(user, password):
    return userauth_request(user, b'password', Boolean(False),
                            String(password.encode()))


def kbdint_request(user):
    return userauth_request(user, b'keyboard-interactive', String(b''),
                            String(b''))


def info_response(*responses):
    return UInt32(len(responses)) + b''.join(String(r.encode())
                                             for r in responses)


def session_open(chan=0, window=65536, pktsize=32768):
    return (String(b'session') + UInt32(chan) + UInt32(window) +
            UInt32(pktsize))
