"""Thin, total wrapper around TLC for the /verif checks.

All scratch output goes to /verif/.work/<tag>/ (git-ignored); nothing is left
under /tmp.  Every function returns a result object and never raises for a
TLC-level failure; callers decide (exit 2 = machinery failure).
"""

import json
import os
import re
import shutil
import subprocess
import time

VERIF = os.path.dirname(os.path.dirname(os.path.abspath(__file__)))
# one scratch directory per check process (./check exports VERIF_WORK), so that
# two runs of the same check at the same time cannot remove each other's files
WORK = os.environ.get('VERIF_WORK') or os.path.join(VERIF, '.work')
JAR = '/opt/veriftools/tla/tla2tools.jar'
DEPS = '/opt/veriftools/tla/CommunityModules-deps.jar'


class TLCResult:
    def __init__(self):
        self.ok = False            # TLC finished, no violation, no error
        self.finished = False      # "Model checking completed" / simulate end
        self.violation = None      # name of violated invariant/property
        self.error = None          # machinery-level problem (parse, crash)
        self.generated = 0
        self.distinct = 0
        self.depth = 0
        self.output = ''
        self.wall = 0.0
        self.coverage = {}         # action name -> (distinct, total)
        self.trace = []            # counterexample states (raw text blocks)
        self.printed = []          # PrintT values (raw strings)
        self.cmd = ''
        self.timed_out = False

    def as_dict(self):
        return {'ok': self.ok, 'violation': self.violation,
                'error': self.error, 'generated': self.generated,
                'distinct': self.distinct, 'depth': self.depth,
                'wall_s': round(self.wall, 2), 'cmd': self.cmd,
                'coverage': self.coverage}


def workdir(tag):
    d = os.path.join(WORK, tag)
    shutil.rmtree(d, ignore_errors=True)
    os.makedirs(d, exist_ok=True)
    return d


def cleanup(tag):
    shutil.rmtree(os.path.join(WORK, tag), ignore_errors=True)


_RE_STATS = re.compile(r'(\d+) states generated, (\d+) distinct states found')
_RE_DEPTH = re.compile(r'The depth of the complete state graph search is (\d+)')
_RE_INV = re.compile(r'Invariant (\S+) is violated')
_RE_PROP = re.compile(r'(?:Temporal properties were violated|'
                      r'Action property (\S+) is violated)')
_RE_COV = re.compile(r'^<(\w+) line (\d+), col (\d+) to line (\d+), col (\d+) '
                     r'of module (\w+)>: (\d+):(\d+)', re.M)


def run(spec_dir, module, cfg, tag, workers=16, timeout=600, simulate=None,
        depth=None, seed=None, coverage=False, env=None, dfs=False,
        extra=(), java_heap='8g', deadlock=True):
    """Run TLC on spec_dir/module.tla with spec_dir/cfg."""
    res = TLCResult()
    meta = workdir(tag)
    # (TLC makes an empty tlc-<n> directory under java.io.tmpdir per run:
    # keep that inside the run's own scratch directory, not in /tmp)
    cmd = ['java', '-XX:+UseParallelGC', f'-Xmx{java_heap}',
           f'-Djava.io.tmpdir={meta}']
    if dfs:
        cmd.append('-Dtlc2.tool.queue.IStateQueue=StateDeque')
    cmd += ['-cp', f'{JAR}:{DEPS}', 'tlc2.TLC', '-workers', str(workers),
            '-metadir', meta, '-noGenerateSpecTE', '-config', cfg]
    if not deadlock:
        cmd.append('-deadlock')
    if coverage:
        cmd += ['-coverage', '1']
    if simulate:
        cmd += ['-simulate', simulate]
    if depth is not None:
        cmd += ['-depth', str(depth)]
    if seed is not None:
        cmd += ['-seed', str(seed)]
    cmd += list(extra)
    cmd.append(module + '.tla')
    res.cmd = ' '.join(cmd)
    e = dict(os.environ)
    e.pop('JAVA_TOOL_OPTIONS', None)
    if env:
        e.update({k: str(v) for k, v in env.items()})
    t0 = time.time()
    try:
        p = subprocess.run(cmd, cwd=spec_dir, env=e, stdout=subprocess.PIPE,
                           stderr=subprocess.STDOUT, timeout=timeout)
        out = p.stdout.decode('utf-8', 'replace')
        rc = p.returncode
    except subprocess.TimeoutExpired as exc:
        out = (exc.stdout or b'').decode('utf-8', 'replace')
        rc = -9
        res.timed_out = True
    res.wall = time.time() - t0
    res.output = out
    parse_output(res, out, rc, simulate is not None)
    return res


def parse_output(res, out, rc, simulate=False):
    m = None
    for m in _RE_STATS.finditer(out):
        pass
    if m:
        res.generated, res.distinct = int(m.group(1)), int(m.group(2))
    m = _RE_DEPTH.search(out)
    if m:
        res.depth = int(m.group(1))
    for m in _RE_COV.finditer(out):
        name = m.group(1)
        d, t = int(m.group(7)), int(m.group(8))
        od, ot = res.coverage.get(name, (0, 0))
        res.coverage[name] = (od + d, ot + t)
    m = _RE_INV.search(out)
    if m:
        res.violation = m.group(1)
    else:
        m = _RE_PROP.search(out)
        if m:
            res.violation = m.group(1) or 'temporal'
    if 'Deadlock reached' in out and res.violation is None:
        res.violation = 'Deadlock'
    res.finished = ('Model checking completed' in out or
                    (simulate and ('Finished in' in out or rc in (0, -9))))
    if res.violation:
        res.trace = re.findall(r'^State \d+:.*?(?=^State \d+:|^\d+ states gen|\Z)',
                               out, re.M | re.S)
    errs = [l for l in out.splitlines()
            if l.startswith('Error:') or 'Parsing or semantic analysis failed' in l
            or 'java.lang.' in l and 'Exception' in l]
    if res.violation is None and (errs or not res.finished):
        if res.timed_out:
            res.error = 'timeout'
        else:
            res.error = '; '.join(errs[:3]) or f'TLC exit {rc}, not finished'
    res.printed = [l for l in out.splitlines() if l.startswith('<<') or
                   l.startswith('[') or l.startswith('"')]
    res.ok = res.finished and res.violation is None and res.error is None


def sany(spec_dir, module):
    p = subprocess.run(['java', '-cp', f'{JAR}:{DEPS}', 'tla2sany.SANY',
                        module + '.tla'], cwd=spec_dir,
                       stdout=subprocess.PIPE, stderr=subprocess.STDOUT)
    out = p.stdout.decode('utf-8', 'replace')
    return ('Semantic errors' not in out and '*** Errors' not in out and
            'Parse Error' not in out and 'Fatal' not in out), out


# --------------------------------------------------------------------------
# TLA+ value parsing (enough for -simulate state files and PrintT output)
# --------------------------------------------------------------------------

class _P:
    def __init__(self, s):
        self.s = s
        self.i = 0

    def ws(self):
        while self.i < len(self.s) and self.s[self.i] in ' \t\r\n':
            self.i += 1

    def peek(self, t):
        self.ws()
        return self.s.startswith(t, self.i)

    def eat(self, t):
        self.ws()
        if not self.s.startswith(t, self.i):
            raise ValueError(f'expected {t!r} at {self.i}: '
                             f'{self.s[self.i:self.i+40]!r}')
        self.i += len(t)

    def value(self):
        self.ws()
        s = self.s
        c = s[self.i]
        if c == '"':
            j = self.i + 1
            out = []
            while s[j] != '"':
                if s[j] == '\\':
                    j += 1
                out.append(s[j])
                j += 1
            self.i = j + 1
            return ''.join(out)
        if s.startswith('<<', self.i):
            self.i += 2
            items = []
            while not self.peek('>>'):
                items.append(self.value())
                if self.peek(','):
                    self.eat(',')
            self.eat('>>')
            return items
        if c == '{':
            self.i += 1
            items = []
            while not self.peek('}'):
                items.append(self.value())
                if self.peek(','):
                    self.eat(',')
            self.eat('}')
            return {'$set': items}
        if c == '[':
            self.i += 1
            rec = {}
            while not self.peek(']'):
                self.ws()
                m = re.compile(r'[A-Za-z_][A-Za-z0-9_]*').match(s, self.i)
                if not m:
                    raise ValueError(f'bad record at {self.i}')
                k = m.group(0)
                self.i = m.end()
                self.eat('|->')
                rec[k] = self.value()
                if self.peek(','):
                    self.eat(',')
            self.eat(']')
            return rec
        if c == '(':
            # function literal (a :> b @@ c :> d)
            self.i += 1
            fn = {}
            while not self.peek(')'):
                k = self.value()
                self.eat(':>')
                v = self.value()
                fn[_key(k)] = v
                if self.peek('@@'):
                    self.eat('@@')
            self.eat(')')
            return fn
        m = re.compile(r'-?\d+').match(s, self.i)
        if m:
            self.i = m.end()
            return int(m.group(0))
        m = re.compile(r'[A-Za-z_][A-Za-z0-9_]*').match(s, self.i)
        if m:
            self.i = m.end()
            w = m.group(0)
            if w == 'TRUE':
                return True
            if w == 'FALSE':
                return False
            return w            # model value
        raise ValueError(f'cannot parse at {self.i}: {s[self.i:self.i+40]!r}')


def _key(k):
    if isinstance(k, (list, dict)):
        return json.dumps(k, sort_keys=True)
    return k


def parse_value(text):
    p = _P(text)
    v = p.value()
    return v


def parse_state(text):
    """Parse '/\\ a = 1\\n/\\ b = <<>>' into a dict."""
    st = {}
    parts = re.split(r'^/\\ ', text.strip(), flags=re.M)
    for part in parts:
        part = part.strip()
        if not part:
            continue
        m = re.match(r'([A-Za-z_][A-Za-z0-9_]*) = (.*)\Z', part, re.S)
        if not m:
            continue
        st[m.group(1)] = parse_value(m.group(2))
    return st


def read_sim_traces(prefix_dir, prefix):
    """Yield lists of (action_name, state_dict) from -simulate file= output."""
    names = sorted(n for n in os.listdir(prefix_dir) if n.startswith(prefix))
    for n in names:
        with open(os.path.join(prefix_dir, n)) as f:
            text = f.read()
        steps = []
        for m in re.finditer(r'\\\* <?(\w+)[^\n]*\nSTATE_\d+ ==[ ]*\n(.*?)(?=\n\n|\Z)',
                             text, re.S):
            steps.append((m.group(1), parse_state(m.group(2))))
        if steps:
            yield n, steps


def printed_values(res):
    vals = []
    for l in res.printed:
        try:
            vals.append(parse_value(l))
        except (ValueError, IndexError):
            pass
    return vals


def tla_str(v):
    """Render a Python value as a TLA+ expression (for generated cfg/tla)."""
    if isinstance(v, bool):
        return 'TRUE' if v else 'FALSE'
    if isinstance(v, int):
        return str(v)
    if isinstance(v, str):
        return '"' + v.replace('\\', '\\\\').replace('"', '\\"') + '"'
    if isinstance(v, (list, tuple)):
        return '<<' + ', '.join(tla_str(x) for x in v) + '>>'
    if isinstance(v, (set, frozenset)):
        return '{' + ', '.join(tla_str(x) for x in sorted(v, key=repr)) + '}'
    if isinstance(v, dict):
        return '[' + ', '.join(f'{k} |-> {tla_str(x)}' for k, x in v.items()) + ']'
    raise TypeError(type(v))


def simulate_scripts(spec_dir, module, cfg, tag, num, depth, seed,
                     marker='SCRIPT', timeout=900):
    """Run TLC in simulation mode on a cfg that has an always-true invariant
    printing ToString(<<marker, script, state>>) for complete behaviours.
    Returns (list of (script, state), TLCResult); duplicates removed."""
    res = run(spec_dir, module, cfg, tag, workers=1, timeout=timeout,
              simulate=f'num={num}', depth=depth, seed=seed)
    seen = {}
    for line in res.output.splitlines():
        if not line.startswith('"<<\\"' + marker):
            continue
        try:
            inner = parse_value(line)           # the ToString()ed text
            v = parse_value(inner)
        except (ValueError, IndexError):
            continue
        key = json.dumps(v[1], sort_keys=True)
        if key not in seen:
            seen[key] = (v[1], v[2])
    return list(seen.values()), res


def bfs_scripts(spec_dir, module, cfg, tag, marker='SCRIPT', timeout=1800,
                workers=1):
    """Exhaustive BFS on a cfg whose VIEW hides the script history and whose
    always-true invariant prints ToString(<<marker, script, state>>): TLC
    then prints, for every distinct reachable state selected by the
    invariant, ONE shortest behaviour reaching it."""
    res = run(spec_dir, module, cfg, tag, workers=workers, timeout=timeout)
    out = []
    for line in res.output.splitlines():
        if not line.startswith('"<<\\"' + marker):
            continue
        try:
            v = parse_value(parse_value(line))
        except (ValueError, IndexError):
            continue
        out.append((v[1], v[2]))
    return out, res


def novelty_order(scripts, n=3):
    """Greedy order that front-loads behaviours containing unseen label
    n-grams (labels reduced to their kind + first argument)."""
    def grams(sc):
        ks = [tuple(map(str, l[:4])) for l in sc]
        return {tuple(ks[i:i + n]) for i in range(max(1, len(ks) - n + 1))}

    if len(scripts) > 2500:             # keep the greedy pass cheap
        import random
        scripts = random.Random(len(scripts)).sample(scripts, 2500)
    pool = [(grams(sc), sc, st) for sc, st in scripts]
    seen, out = set(), []
    while pool:
        best = max(range(len(pool)), key=lambda i: len(pool[i][0] - seen))
        g, sc, st = pool.pop(best)
        if not (g - seen) and len(out) > 50:
            out += [(s2, t2) for _, s2, t2 in pool] + [(sc, st)]
            break
        seen |= g
        out.append((sc, st))
    return out


# ---------------------------------------------------------------------------
# code -> spec: batch validation of recorded traces
# ---------------------------------------------------------------------------

_RE_TRACE = re.compile(r'<<"TRACE", (\d+), (\d+), (\d+)>>')


def validate_traces(spec_dir, module, traces, tag, constants=None,
                    invariants=('TraceInv',), diag=(), timeout=900,
                    spec='TraceSpec', progress='Progress', report='Report'):
    """Validate recorded `traces` (list of JSON-able dicts with an 'ev' list)
    against spec_dir/module.tla (a *Trace module following the conventions of
    specs/Transport/RekeyTrace.tla: TraceSpec, Progress, Report, constant
    Strict, Diag* invariants).

    Returns (res, verdicts): verdicts[i] = dict(matched=n, length=len,
    accepted=bool, diagnosis=str|None).  A rejected trace is re-run alone with
    Strict = FALSE and the Diag* invariants so that the failing clause and
    the model state after the longest matched prefix are named."""
    import json
    wd = workdir(tag + '_tr')
    path = os.path.join(wd, 'traces.json')
    with open(path, 'w') as f:
        json.dump(traces, f)
    consts = dict(constants or {})

    def cfg(name, strict, invs, constraint=True):
        lines = ['CONSTANTS'] + [f'  {k} = {v}' for k, v in consts.items()]
        lines += [f'  Strict = {"TRUE" if strict else "FALSE"}',
                  f'SPECIFICATION {spec}', 'CHECK_DEADLOCK FALSE']
        if constraint:
            lines += [f'CONSTRAINT {progress}', f'POSTCONDITION {report}']
        lines += [f'INVARIANT {i}' for i in invs]
        with open(os.path.join(spec_dir, name), 'w') as f:
            f.write('\n'.join(lines) + '\n')
        return name

    name = cfg(f'_{tag}.cfg', True, invariants)
    res = run(spec_dir, module, name, tag, workers=1, timeout=timeout,
              env={'TRACE_FILE': path})
    os.remove(os.path.join(spec_dir, name))
    verdicts = {}
    for m in _RE_TRACE.finditer(res.output):
        i, got, n = int(m.group(1)), int(m.group(2)), int(m.group(3))
        verdicts[i - 1] = dict(matched=got, length=n, accepted=got == n,
                               diagnosis=None)
    if len(verdicts) != len(traces) and not res.violation:
        res.error = res.error or 'trace report incomplete'
    for i, v in sorted(verdicts.items()):
        if v['accepted'] or not diag:
            continue
        # diagnosis: follow the events only and ask which field disagrees
        with open(path, 'w') as f:
            json.dump([traces[i]], f)
        name = cfg(f'_{tag}_d.cfg', False, diag, constraint=False)
        r2 = run(spec_dir, module, name, tag + '_d', workers=1,
                 timeout=timeout, env={'TRACE_FILE': path})
        os.remove(os.path.join(spec_dir, name))
        ev = traces[i]['ev']
        k = v['matched']
        nxt = ev[k] if k < len(ev) else None
        if r2.violation:
            tail = r2.output[r2.output.find('is violated'):][:3000]
            st = re.findall(r'State \d+:.*?(?=\n\n|\Z)', tail, re.S)
            v['diagnosis'] = (f'event {k + 1} {nxt}: model disagrees on '
                              f'{r2.violation}; model state: '
                              f'{st[-1][:1200] if st else "?"}')
        else:
            v['diagnosis'] = (f'event {k + 1} {nxt}: not enabled in the '
                              f'model after the matched prefix')
        cleanup(tag + '_d')
    cleanup(tag + '_tr')
    cleanup(tag)
    return res, verdicts
