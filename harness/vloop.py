"""Deterministic virtual-time asyncio event loop with an in-memory network.

The loop is a subclass of asyncio.BaseEventLoop, so all of asyncio's real
scheduling code (call_soon FIFO, timers, tasks, futures) is used unchanged.
Only the selector is replaced:

  * time is virtual: when nothing is ready the clock jumps to the next timer;
  * I/O readiness is polled once per loop iteration exactly like a selector
    loop does (after the callbacks scheduled by the previous iteration have
    been queued), from the in-memory pipes of MemNet;
  * when nothing is ready, no timer is scheduled and no I/O is pending the
    loop is *idle*: run_until_complete() raises Deadlock (hung waiter oracle),
    run_until_idle() simply returns.

Nothing in here imports asyncssh.
"""

import asyncio
import collections
import heapq
import socket
import threading
from asyncio import events

MAX_READ = 256 * 1024


class Deadlock(BaseException):
    """The loop went idle while run_until_complete() was still waiting"""


class Spin(BaseException):
    """The loop exceeded its iteration budget"""


class _FakeSelector:
    def __init__(self, loop):
        self._loop = loop

    def select(self, timeout=None):
        loop = self._loop
        ready = loop.net._poll()
        if ready:
            return ready
        if timeout is None:
            if loop._idle_ok:
                loop._stopping = True
                return []
            raise Deadlock('event loop idle: nothing ready, no timers, no I/O')
        if timeout > 0:
            if loop.max_time is not None and loop._vtime + timeout > loop.max_time:
                if loop._idle_ok:
                    loop._stopping = True
                    return []
                raise Deadlock('virtual time horizon reached')
            if loop._no_time_advance:
                loop._stopping = True
                return []
            loop._vtime += timeout
        return []

    def close(self):
        pass


class VLoop(asyncio.BaseEventLoop):
    def __init__(self):
        super().__init__()
        self._vtime = 1000.0
        self._selector = _FakeSelector(self)
        self._idle_ok = False
        self._no_time_advance = False
        self.max_time = None
        self.max_iterations = None
        self.iterations = 0
        self.net = MemNet(self)
        self.exceptions = []
        self.unretrieved = []
        self.exec_mode = 'deferred'      # 'deferred' | 'manual'
        self.exec_jobs = []              # manual mode: [fut, func, args]
        self.set_exception_handler(self._on_exception)

    # ---- plumbing required by BaseEventLoop ----
    def time(self):
        return self._vtime

    def _process_events(self, event_list):
        for tr in event_list:
            self._ready.append(events.Handle(tr._read_ready, (), self))

    def _write_to_self(self):
        pass

    def _on_exception(self, loop, context):
        # "... exception was never retrieved" is asyncio's garbage-collection
        # time warning about a failure nobody looked at; it is not an
        # exception raised by a callback into the loop
        if 'never retrieved' in str(context.get('message', '')):
            self.unretrieved.append(context)
        else:
            self.exceptions.append(context)

    def _run_once(self):
        self.iterations += 1
        if self.max_iterations is not None and \
                self.iterations > self.max_iterations:
            raise Spin('iteration budget exceeded')
        super()._run_once()

    # ---- running ----
    def run_until_idle(self, advance_time=False):
        """Run until nothing is ready (and no I/O pending). Timers are not
        fired unless advance_time is true (then: until no timers remain)."""
        self._idle_ok = True
        self._no_time_advance = not advance_time
        try:
            self.run_forever()
        finally:
            self._idle_ok = False
            self._no_time_advance = False

    def run_callback(self, fn, *args):
        self.call_soon(fn, *args)
        self.run_until_idle()

    def advance(self, dt):
        """Advance virtual time by dt, firing timers that become due."""
        target = self._vtime + dt
        self.run_until_idle()
        while True:
            while self._scheduled and self._scheduled[0]._cancelled:
                h = heapq.heappop(self._scheduled)
                h._scheduled = False
            if not self._scheduled or self._scheduled[0]._when > target:
                break
            self._vtime = max(self._vtime, self._scheduled[0]._when)
            self.call_soon(lambda: None)
            self.run_until_idle()
        self._vtime = target

    # ---- executor ----
    def run_in_executor(self, executor, func, *args):
        fut = self.create_future()
        if self.exec_mode == 'manual':
            self.exec_jobs.append((fut, func, args))
        else:
            self.call_soon(self._run_job, fut, func, args)
        return fut

    @staticmethod
    def _run_job(fut, func, args):
        if fut.cancelled():
            return
        try:
            res = func(*args)
        except BaseException as exc:    # pylint: disable=broad-except
            fut.set_exception(exc)
        else:
            fut.set_result(res)

    def complete_job(self, idx=0):
        fut, func, args = self.exec_jobs.pop(idx)
        self._run_job(fut, func, args)

    # ---- name resolution ----
    async def getaddrinfo(self, host, port, *, family=0, type=0, proto=0,
                          flags=0):
        return self.net.getaddrinfo(host, port, family, flags)

    async def getnameinfo(self, sockaddr, flags=0):
        return self.net.getnameinfo(sockaddr, flags)

    # ---- network ----
    async def create_connection(self, protocol_factory, host=None, port=None,
                                *, ssl=None, family=0, proto=0, flags=0,
                                sock=None, local_addr=None, **kw):
        if sock is not None:
            raise NotImplementedError('create_connection(sock=) on VLoop')
        infos = self.net.getaddrinfo(host, port, family, flags)
        addr = infos[0][4][:2]
        return self.net.connect(protocol_factory, addr, local_addr)

    async def create_server(self, protocol_factory, host=None, port=None, *,
                            family=socket.AF_UNSPEC, flags=socket.AI_PASSIVE,
                            sock=None, backlog=100, ssl=None,
                            reuse_address=None, reuse_port=None, **kw):
        if sock is not None:
            addr = sock.getsockname()[:2]
            return self.net.listen(protocol_factory, [addr], sock)
        if host in (None, ''):
            hosts = ['0.0.0.0']
        elif isinstance(host, str):
            hosts = [host]
        else:
            hosts = list(host)
        addrs = []
        if not port:
            port = self.net.alloc_port()
        for h in hosts:
            addrs.append((self.net.getaddrinfo(h, port, 0, 0)[0][4][0], port))
        return self.net.listen(protocol_factory, addrs, None)

    async def create_unix_server(self, protocol_factory, path=None, *,
                                 sock=None, backlog=100, ssl=None, **kw):
        return self.net.listen(protocol_factory, [('unix', path)], None)

    async def create_unix_connection(self, protocol_factory, path=None, *,
                                     ssl=None, sock=None, **kw):
        return self.net.connect(protocol_factory, ('unix', path), None)


class MemServer(asyncio.AbstractServer):
    def __init__(self, net, factory, addrs, sock):
        self._net = net
        self.factory = factory
        self.addrs = addrs
        self._sock = sock
        self._closed = False
        self._waiters = []

    def close(self):
        if self._closed:
            return
        self._closed = True
        for a in self.addrs:
            if self._net.listeners.get(a) is self:
                del self._net.listeners[a]
        if self._sock is not None:
            self._sock.close()
        for w in self._waiters:
            if not w.done():
                w.set_result(None)

    def is_serving(self):
        return not self._closed

    def get_loop(self):
        return self._net.loop

    async def wait_closed(self):
        if self._closed:
            return
        w = self._net.loop.create_future()
        self._waiters.append(w)
        await w

    async def start_serving(self):
        pass

    @property
    def sockets(self):
        return [_FakeSock(a) for a in self.addrs] if not self._closed else []


class _FakeSock:
    def __init__(self, addr):
        self._addr = addr
        self.family = socket.AF_UNIX if addr[0] == 'unix' else socket.AF_INET

    def getsockname(self):
        return self._addr[1] if self._addr[0] == 'unix' else self._addr


_EOF = object()


class MemTransport(asyncio.Transport):
    """One end of an in-memory stream connection."""

    def __init__(self, net, name, sockname, peername):
        super().__init__()
        self.net = net
        self.loop = net.loop
        self.name = name
        self.id = net._next_id()
        self._extra = {'sockname': sockname, 'peername': peername,
                       'socket': None}
        self.protocol = None
        self.peer = None
        self.inq = collections.deque()   # undelivered inbound: bytes | _EOF
        self.in_bytes = 0
        self.writes = []                 # every write() as made by the owner
        self.filter = None               # fn(transport, idx, data)->[bytes]
        self.auto = True                 # deliver inbound data automatically
        self.chunker = None              # fn(available)->n bytes to deliver
        self.paused = False
        self.closing = False
        self.closed = False
        self.eof_written = False
        self._eof_sent = False
        self.eof_seen = False
        self.write_paused = False
        self._high = 64 * 1024
        self._low = 16 * 1024
        self.delivered = []              # chunks handed to data_received

    # -- info --
    def get_extra_info(self, name, default=None):
        return self._extra.get(name, default)

    def is_closing(self):
        return self.closing or self.closed

    def set_protocol(self, protocol):
        self.protocol = protocol

    def get_protocol(self):
        return self.protocol

    # -- reading side --
    def pause_reading(self):
        self.paused = True

    def resume_reading(self):
        self.paused = False

    def is_reading(self):
        return not self.paused and not self.closed

    def _readable(self):
        return (self.auto and not self.paused and not self.closed and
                bool(self.inq))

    def _read_ready(self):
        """One 'socket readable' event: at most one data_received call."""
        if self.closed or self.paused or not self.inq:
            return
        if self.inq[0] is _EOF:
            self.inq.popleft()
            self._got_eof()
            return
        avail = 0
        for item in self.inq:
            if item is _EOF:
                break
            avail += len(item)
        n = min(avail, MAX_READ)
        if self.chunker is not None:
            n = max(1, min(n, self.chunker(avail)))
        self._deliver(n)

    def _deliver(self, n):
        buf = bytearray()
        while n > 0 and self.inq and self.inq[0] is not _EOF:
            item = self.inq.popleft()
            if len(item) > n:
                buf += item[:n]
                self.inq.appendleft(item[n:])
                n = 0
            else:
                buf += item
                n -= len(item)
        data = bytes(buf)
        self.in_bytes -= len(data)
        self.delivered.append(data)
        peer = self.peer
        if peer is not None:
            peer._maybe_resume_writing()
        self.protocol.data_received(data)

    def deliver(self, n=None):
        """Manual mode: hand the next n pending bytes (default: all pending
        data up to an EOF marker) to the protocol, or the EOF marker."""
        if self.closed or not self.inq:
            return False
        if self.inq[0] is _EOF:
            self.inq.popleft()
            self._got_eof()
            return True
        avail = 0
        for item in self.inq:
            if item is _EOF:
                break
            avail += len(item)
        self._deliver(avail if n is None else min(n, avail))
        return True

    def pending(self):
        return sum(len(i) for i in self.inq if i is not _EOF)

    def _got_eof(self):
        self.eof_seen = True
        try:
            keep = self.protocol.eof_received()
        except Exception as exc:        # pylint: disable=broad-except
            self._fatal(exc)
            return
        if keep:
            return                      # half-open: may still write
        self.close()

    # -- writing side --
    def write(self, data):
        if not isinstance(data, (bytes, bytearray, memoryview)):
            raise TypeError('data must be bytes-like')
        if self.eof_written:
            raise RuntimeError('Cannot call write() after write_eof()')
        if self.closing or self.closed:
            return
        data = bytes(data)
        if not data:
            return
        idx = len(self.writes)
        self.writes.append(data)
        outs = [data] if self.filter is None else self.filter(self, idx, data)
        for o in outs:
            self._send(o)

    def inject(self, data):
        """Adversary/harness: put bytes on the wire towards the peer."""
        self._send(data)

    def _send(self, data):
        peer = self.peer
        if peer is None or peer.closed or not data:
            return
        peer.inq.append(bytes(data))
        peer.in_bytes += len(data)
        if peer.in_bytes > self._high and not self.write_paused:
            self.write_paused = True
            try:
                self.protocol.pause_writing()
            except Exception as exc:    # pylint: disable=broad-except
                self.loop.call_exception_handler(
                    {'message': 'pause_writing failed', 'exception': exc,
                     'transport': self})

    def _maybe_resume_writing(self):
        if self.write_paused and self.peer.in_bytes <= self._low:
            self.write_paused = False
            if not self.closed:
                try:
                    self.protocol.resume_writing()
                except Exception as exc:    # pylint: disable=broad-except
                    self.loop.call_exception_handler(
                        {'message': 'resume_writing failed', 'exception': exc,
                         'transport': self})

    def writelines(self, list_of_data):
        self.write(b''.join(list_of_data))

    def can_write_eof(self):
        return True

    def write_eof(self):
        if self.eof_written or self.closing or self.closed:
            return
        self.eof_written = True
        self._send_eof()

    def _send_eof(self):
        if self._eof_sent:
            return
        self._eof_sent = True
        if self.peer is not None and not self.peer.closed:
            self.peer.inq.append(_EOF)

    def get_write_buffer_size(self):
        return self.peer.in_bytes if self.peer is not None else 0

    def set_write_buffer_limits(self, high=None, low=None):
        if high is None:
            high = 64 * 1024 if low is None else 4 * low
        if low is None:
            low = high // 4
        self._high, self._low = high, low

    def get_write_buffer_limits(self):
        return self._low, self._high

    # -- closing --
    def close(self):
        if self.closing or self.closed:
            return
        self.closing = True
        self._send_eof()
        self.loop.call_soon(self._close, None)

    def abort(self):
        if self.closed:
            return
        self.closing = True
        self._send_eof()
        self.loop.call_soon(self._close, None)

    def _fatal(self, exc):
        self.loop.call_exception_handler(
            {'message': 'Fatal error on transport', 'exception': exc,
             'transport': self, 'protocol': self.protocol})
        self._close(exc)

    def _close(self, exc):
        if self.closed:
            return
        self.closed = True
        self.closing = True
        self.net.transports.discard(self)
        self._send_eof()
        self.protocol.connection_lost(exc)

    def cut(self, exc=None):
        """Harness: the connection is lost *now* on this end."""
        if self.closed:
            return
        self.inq.clear()
        self.in_bytes = 0
        self._close(exc)


class MemNet:
    def __init__(self, loop):
        self.loop = loop
        self.listeners = {}
        self.transports = set()
        self.all_transports = []
        self.dns = {'localhost': '127.0.0.1'}
        self.rdns = {}
        self._ids = 0
        self._port = 40000
        self.io_order = None        # fn(list[MemTransport]) -> list
        self.on_connect = None      # fn(client_transport, server_transport)

    def _next_id(self):
        self._ids += 1
        return self._ids

    def alloc_port(self):
        self._port += 1
        return self._port

    def _poll(self):
        ready = [t for t in self.transports if t._readable()]
        ready.sort(key=lambda t: t.id)
        if self.io_order is not None and len(ready) > 1:
            ready = self.io_order(ready)
        return ready

    def getaddrinfo(self, host, port, family=0, flags=0):
        if host is None:
            host = '0.0.0.0'
        if isinstance(host, bytes):
            host = host.decode()
        ip = None
        try:
            socket.inet_pton(socket.AF_INET, host)
            ip, fam = host, socket.AF_INET
        except OSError:
            try:
                socket.inet_pton(socket.AF_INET6, host)
                ip, fam = host, socket.AF_INET6
            except OSError:
                pass
        if ip is None:
            if host not in self.dns:
                raise socket.gaierror(socket.EAI_NONAME,
                                      'Name or service not known')
            ip = self.dns[host]
            fam = socket.AF_INET6 if ':' in ip else socket.AF_INET
        cname = host if flags & socket.AI_CANONNAME else ''
        port = int(port or 0)
        sa = (ip, port) if fam == socket.AF_INET else (ip, port, 0, 0)
        return [(fam, socket.SOCK_STREAM, 6, cname, sa)]

    def getnameinfo(self, sockaddr, flags=0):
        host, port = sockaddr[:2]
        if flags & socket.NI_NUMERICHOST:
            return host, str(port)
        return self.rdns.get(host, host), str(port)

    def listen(self, factory, addrs, sock):
        for a in addrs:
            if a in self.listeners:
                raise OSError(98, f'address already in use: {a!r}')
        srv = MemServer(self, factory, addrs, sock)
        for a in addrs:
            self.listeners[a] = srv
        return srv

    def _find_listener(self, addr):
        srv = self.listeners.get(addr)
        if srv is None and addr[0] != 'unix':
            srv = self.listeners.get(('0.0.0.0', addr[1])) or \
                self.listeners.get(('::', addr[1]))
        return srv

    def connect(self, factory, addr, local_addr=None):
        srv = self._find_listener(addr)
        if srv is None:
            raise ConnectionRefusedError(111, f'Connect call failed {addr!r}')
        if addr[0] == 'unix':
            csock, ssock = '', addr[1]
            cpeer, speer = addr[1], ''
        else:
            lhost = local_addr[0] if local_addr else '127.0.0.1'
            lport = (local_addr[1] if local_addr and local_addr[1]
                     else self.alloc_port())
            csock = cpeer_of_s = (lhost, lport)
            ssock = addr
            cpeer, speer = addr, cpeer_of_s
        ct = MemTransport(self, 'c', csock, cpeer)
        st = MemTransport(self, 's', ssock, speer)
        ct.peer, st.peer = st, ct
        cp = factory()
        sp = srv.factory()
        ct.protocol, st.protocol = cp, sp
        self.transports.add(ct)
        self.transports.add(st)
        self.all_transports += [ct, st]
        # like a selector loop: connection_made of the accepted side runs
        # from a callback, the connecting side's before create_connection
        # returns
        if self.on_connect is not None:
            self.on_connect(ct, st)
        self.loop.call_soon(sp.connection_made, st)
        cp.connection_made(ct)
        return ct, cp

    def pipe(self, proto_a, proto_b, name_a='a', name_b='b'):
        """A raw connected pair for two already-built protocols."""
        ta = MemTransport(self, name_a, ('127.0.0.1', self.alloc_port()),
                          ('127.0.0.1', 22))
        tb = MemTransport(self, name_b, ('127.0.0.1', 22), ta._extra['sockname'])
        ta.peer, tb.peer = tb, ta
        ta.protocol, tb.protocol = proto_a, proto_b
        self.transports.add(ta)
        self.transports.add(tb)
        self.all_transports += [ta, tb]
        return ta, tb


def new_loop():
    loop = VLoop()
    asyncio.set_event_loop(loop)
    return loop


def close_loop(loop):
    try:
        loop.run_until_idle()
    except BaseException:               # pylint: disable=broad-except
        pass
    asyncio.set_event_loop(None)
    if not loop.is_closed():
        loop._ready.clear()
        loop._scheduled.clear()
        loop.close()
