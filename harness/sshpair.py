"""A real asyncssh client/server pair on the deterministic loop with
packet-granular delivery control, built on the guarded hooks
(asyncssh/_verif.py: pkt_out, pkt_in, pkt_defer, keylog)."""

import asyncio

import asyncssh
from asyncssh import _verif

from harness.vloop import new_loop, close_loop, Deadlock

_hostkey = None


def hostkey():
    global _hostkey
    if _hostkey is None:
        _hostkey = asyncssh.generate_private_key('ssh-ed25519')
    return _hostkey


class NoAuthServer(asyncssh.SSHServer):
    pair = None

    def connection_made(self, conn):
        self.pair.sconn = conn

    def connection_lost(self, exc):
        self.pair.lost['s'] = exc
        self.pair.lost_n['s'] += 1
        self.pair.log.append(('s', 'connection_lost', _exc(exc)))

    def begin_auth(self, username):
        return False


class PairClient(asyncssh.SSHClient):
    pair = None

    def connection_lost(self, exc):
        self.pair.lost['c'] = exc
        self.pair.lost_n['c'] += 1
        self.pair.log.append(('c', 'connection_lost', _exc(exc)))


def _exc(exc):
    return None if exc is None else type(exc).__name__


class Pair:
    """conn (client side) <-> sconn (server side)."""

    def __init__(self, server_kw=None, client_kw=None, server_cls=None,
                 client_cls=None):
        self.loop = new_loop()
        self.server_kw = dict(server_kw or {})
        self.client_kw = dict(client_kw or {})
        self.conn = self.sconn = self.acceptor = None
        self.lost = {}
        self.lost_n = {'c': 0, 's': 0}
        self.log = []                # (side, event, ...)
        self.events = []             # hook events (side, name, fields)
        self.queue = {'c': [], 's': []}   # packets written by side, undelivered
        self.tracking = False
        pair = self
        self.server_cls = type('S', (server_cls or NoAuthServer,),
                               {'pair': pair})
        self.client_cls = type('C', (client_cls or PairClient,),
                               {'pair': pair})

    # -- hooks --
    def _sink(self, name, f):
        conn = f.get('conn')
        side = '?' if conn is None else 'c' if conn.is_client() else 's'
        if name == 'pkt_out' and self.tracking and side in 'cs' and \
                f.get('written', True):
            self.queue[side].append((f['pkttype'], f['wire_len'],
                                     f['payload']))
        self.events.append((side, name, f))

    def start(self):
        _verif.set_sink(self._sink)
        skw = dict(server_factory=self.server_cls,
                   server_host_keys=[hostkey()])
        skw.update(self.server_kw)
        ckw = dict(known_hosts=None, config=None, client_keys=None,
                   username='u', client_factory=self.client_cls)
        ckw.update(self.client_kw)

        async def go():
            self.acceptor = await asyncssh.listen('127.0.0.1', 2222, **skw)
            self.conn = await asyncssh.connect('127.0.0.1', 2222, **ckw)

        self.loop.run_until_complete(go())
        self.loop.run_until_idle()
        ts = self.loop.net.all_transports
        self.ct = [t for t in ts if t.name == 'c'][0]
        self.st = [t for t in ts if t.name == 's'][0]
        return self

    def run(self, coro):
        return self.loop.run_until_complete(coro)

    def call(self, fn, *args):
        self.loop.run_callback(fn, *args)

    def manual(self):
        """Switch both directions to packet-by-packet manual delivery."""
        self.loop.run_until_idle()
        assert not self.ct.inq and not self.st.inq
        self.ct.auto = self.st.auto = False
        self.queue = {'c': [], 's': []}
        self.tracking = True

    def auto(self):
        self.ct.auto = self.st.auto = True
        self.tracking = False
        self.queue = {'c': [], 's': []}

    def pending(self, side):
        """Packets written by `side` and not yet delivered to its peer."""
        return list(self.queue[side])

    def deliver(self, side, pred=lambda t: t >= 90, count=1):
        """Deliver packets written by `side` to the peer: everything up to
        and including the count-th packet satisfying pred, as ONE
        data_received call.  Returns the delivered (type, len, payload)."""
        q = self.queue[side]
        n = 0
        took = []
        hits = 0
        while q:
            p = q.pop(0)
            took.append(p)
            n += p[1]
            if pred(p[0]):
                hits += 1
                if hits >= count:
                    break
        if not took:
            return []
        dst = self.st if side == 'c' else self.ct
        self.loop.run_callback(dst.deliver, n)
        return took

    def deliver_all(self, side):
        q = self.queue[side]
        n = sum(p[1] for p in q)
        took, q[:] = list(q), []
        if n:
            dst = self.st if side == 'c' else self.ct
            self.loop.run_callback(dst.deliver, n)
        return took

    def pump(self, limit=10000):
        """Deliver everything in both directions until quiescent."""
        for _ in range(limit):
            self.loop.run_until_idle()
            if self.queue['c']:
                self.deliver_all('c')
            elif self.queue['s']:
                self.deliver_all('s')
            else:
                return True
        return False

    def stop(self):
        try:
            self.auto()
            if self.conn is not None:
                self.conn.abort()
            if self.sconn is not None:
                self.sconn.abort()
            if self.acceptor is not None:
                self.acceptor.close()
            self.loop.run_until_idle()
        except BaseException:           # pylint: disable=broad-except
            pass
        _verif.set_sink(None)
        close_loop(self.loop)
