------------------------------- MODULE Limits -------------------------------
(***************************************************************************)
(* The server's limits as a dimension of SFTP transfers (limits@openssh.com *)
(* absent or present with max-read / max-write lengths below, at and above  *)
(* the client's block size) against a server that ENFORCES them: a READ     *)
(* longer than its limit is answered with limit bytes (a short read that is *)
(* not end-of-file), a WRITE longer than its limit is refused.              *)
(* Client as coded (SFTPClientFile.__init__/read/write, _begin_copy):       *)
(*   read_len  = block_size, or the advertised max-read (default 4 units =  *)
(*               16 KiB when the server advertises nothing)                 *)
(*   read()    : one plain READ if size <= min(read_len, advertised        *)
(*               max-read), else the parallel reader with blocks of        *)
(*               read_len -- the only place where a short read is continued *)
(*   write()   : one WRITE if length <= write_len, else blocks of write_len *)
(*   get/put/copy: blocks of block_size (default min of both limits); the   *)
(*               copier continues short reads                               *)
(* All lengths in units of 4096 bytes.  Case table: TLC checks it, prints   *)
(* it, the harness serves each row with the scripted server.                *)
(***************************************************************************)
EXTENDS Integers, FiniteSets, TLC

CONSTANTS
    Emit,
    SingleReadAboveLimit  \* FALSE: a read above the ADVERTISED limit goes through the
                          \* parallel reader (the code); TRUE: only the block size counts

Default == 4                       \* SAFE_SFTP_READ_LEN / SAFE_SFTP_WRITE_LEN in units
Min(a, b) == IF a < b THEN a ELSE b

Ops == {"read", "readall", "write", "get", "put", "copy"}
Lims == {0, 2, 4, 8}               \* 0 = the server does not offer limits@openssh.com
Blocks == {-1, 2, 4, 8}            \* -1 = the caller leaves block_size at its default
Sizes == {1, 2, 3, 4, 5, 8, 9}

VARIABLE case
Init == case \in [op : Ops, lim : Lims, B : Blocks, size : Sizes, short : BOOLEAN]
Next == UNCHANGED case
Spec == Init /\ [][Next]_case

\* lim applies to reads and to writes alike; short = the file holds one unit less than asked
Adv == IF case.lim = 0 THEN Default ELSE case.lim          \* what the client believes
Cap == IF case.lim = 0 THEN 1000 ELSE case.lim             \* what the server enforces
Avail == IF case.short /\ case.size > 1 THEN case.size - 1 ELSE case.size

\* ---- SFTPClientFile.read(size, 0) / read() ----
ReadLen == IF case.B = -1 THEN Adv ELSE case.B
Asked == IF case.op = "readall" THEN Avail ELSE case.size   \* read(): size = file length
DirectRead == IF SingleReadAboveLimit THEN Asked <= ReadLen ELSE Asked <= Min(ReadLen, Adv)
ReadResult == IF DirectRead THEN Min(Min(Asked, Cap), Avail)   \* one READ, taken as it comes
              ELSE Min(Asked, Avail)                            \* short reads are continued
ShortSeen == \* some READ is answered short although the file goes on
    IF DirectRead THEN Min(Asked, Avail) > Cap
    ELSE Min(ReadLen, Avail) > Cap

\* ---- SFTPClientFile.write(size units) ----
WriteLen == IF case.B = -1 THEN Adv ELSE case.B
WriteChunk == Min(case.size, WriteLen)
\* ---- get / put / copy with block_size ----
CopyBlock == IF case.B = -1 THEN Adv ELSE case.B
CopyChunk == Min(Avail, CopyBlock)

Outcome ==
    CASE case.op \in {"read", "readall"} -> <<"data", ReadResult>>
      [] case.op = "write" -> IF WriteChunk > Cap THEN <<"error">> ELSE <<"ok", case.size>>
      [] case.op = "get" -> <<"ok", Avail>>             \* short reads continued, local writes
      \* put: the block read locally goes out as one WRITE; copy: what a (capped) READ
      \* returned is what gets written, so it never exceeds the limit
      [] case.op = "put" -> IF CopyChunk > Cap THEN <<"error">> ELSE <<"ok", Avail>>
      [] OTHER -> <<"ok", Avail>>

Expected == <<"LIMITS", case.op, case.lim, case.B, case.size, case.short, Outcome,
              IF case.op \in {"read", "readall"} THEN DirectRead ELSE FALSE>>
Table == Emit => PrintT(Expected)

-----------------------------------------------------------------------------
\* a read returns everything that was asked for and is there
ReadComplete == case.op \in {"read", "readall"} => ReadResult = Min(Asked, Avail)
\* a READ that comes back short (not at end of file) is only ever issued where it is continued
ShortReadContinued == (case.op \in {"read", "readall"} /\ ShortSeen) => ~DirectRead
\* a transfer either delivers every byte or fails
AllOrError == Outcome[1] \in {"ok", "data"} =>
                 Outcome[2] = (IF case.op = "write" THEN case.size
                               ELSE IF case.op \in {"read", "readall"} THEN Min(Asked, Avail)
                               ELSE Avail)
=============================================================================
