CONSTANTS
  MaxN = 8
  Blocks = {2, 3, 4}
  MaxReqs = {2, 3}
  Ops = {"get", "put", "copy"}
  SparseSet = {FALSE}
  MaxAns = 3
  AllowErr = FALSE
  ByOffset = TRUE
  Continue = TRUE
  ExtendDst = TRUE
SPECIFICATION Spec
