------------------------------ MODULE SftpTree ------------------------------
(***************************************************************************)
(* The tree-walking layer above the block scheduler: SFTPClient._begin_copy *)
(* and _copy (sftp.py 3958-4118), i.e. get / put / copy / mget / mput /     *)
(* mcopy of files, directories and symbolic links, as a case table.         *)
(*                                                                         *)
(* A case = a small source tree x how the call is made (named directory,    *)
(* glob, single entry) x flags (recurse, follow_symlinks, preserve, error   *)
(* handler) x what already exists at the destination.  Walk(...) is the     *)
(* driver as coded, including WHICH attributes it holds for an entry at    *)
(* each point (lstat from the directory listing, stat after following a    *)
(* link, stat / lstat at the top level) and that the number of bytes it     *)
(* asks the block copier for is the size in those attributes.  TLC checks   *)
(* the properties of the table for every case and prints the expected      *)
(* destination and the expected error reports; the harness materialises     *)
(* each case in real directories, runs the real client against the real    *)
(* server (chroot) and compares byte for byte.                              *)
(***************************************************************************)
EXTENDS Integers, Sequences, FiniteSets, TLC, Randomization

CONSTANTS
    Emit,           \* TRUE: print the table (run with -workers 1)
    NTrees, NFlags, \* 0: every tree / flag set; n > 0: a random sample of that many
    SizeFromLstat,  \* FALSE: after following a link the driver works with the TARGET's
                    \* attributes (the code); TRUE: it keeps the link's own (sensitivity)
    SkipErrors,     \* FALSE: an entry that fails is reported (the code); TRUE: dropped
                    \* silently (sensitivity)
    SkipEmpty       \* FALSE: an empty source file creates / truncates its destination like
                    \* any other (the code); TRUE: with a progress handler set it is only
                    \* reported and the destination is left alone (sensitivity)

(* ---- source trees: nodes at fixed paths below the source directory ---- *)
Paths == {"f", "d", "d/g", "d/k", "l", "m"}
Parent(p) == IF p \in {"d/g", "d/k"} THEN "d" ELSE ""
Name(p) == CASE p = "d/g" -> "g" [] p = "d/k" -> "k" [] OTHER -> p

None == [t |-> "none", sz |-> 0, to |-> "", txt |-> ""]
File(n) == [t |-> "file", sz |-> n, to |-> "", txt |-> ""]
Dir == [t |-> "dir", sz |-> 0, to |-> "", txt |-> ""]
Link(to, txt) == [t |-> "link", sz |-> 0, to |-> to, txt |-> txt]

\* file sizes in bytes (0, less than a block, more than two blocks of 8); the
\* length of every link text differs from every file size
Bytes(n) == CASE n = 0 -> 0 [] n = 1 -> 5 [] n = 2 -> 23
TextLen(txt) == CASE txt \in {"f", "d", "m", "g"} -> 1 [] txt = "nx" -> 2
                  [] txt = "d/g" -> 3 [] txt = "../f" -> 4

Choices(p) ==
    CASE p = "f"   -> {None, File(0), File(1), File(2)}
      [] p = "d"   -> {None, Dir}
      [] p = "d/g" -> {None, File(0), File(1), File(2)}
      [] p = "d/k" -> {None, Link("d/g", "g"), Link("f", "../f"), Link("nx", "nx")}
      [] p = "l"   -> {None, Link("f", "f"), Link("d", "d"), Link("nx", "nx"),
                       Link("m", "m"), Link("d/g", "d/g")}
      [] p = "m"   -> {None, Link("f", "f")}

Mk(a, b, c, d, e, g) ==
    [p \in Paths |-> CASE p = "f" -> a [] p = "d" -> b [] p = "d/g" -> c
                        [] p = "d/k" -> d [] p = "l" -> e [] p = "m" -> g]
Trees ==
    {s \in {Mk(a, b, c, d, e, g) : a \in Choices("f"), b \in Choices("d"),
                                   c \in Choices("d/g"), d \in Choices("d/k"),
                                   e \in Choices("l"), g \in Choices("m")} :
        /\ \A p \in {"d/g", "d/k"} : s[p].t # "none" => s["d"].t = "dir"
        /\ Cardinality({p \in Paths : s[p].t # "none"}) \in 1 .. 4}

(* ---- how the call is made ---- *)
\*  dir_new : get('src', 'dst'), dst does not exist       -> dst becomes the copy
\*  dir_into: get('src', 'dst'), dst is a directory       -> dst/src
\*  glob    : mget('src/*', 'dst'), dst is a directory    -> dst/<entry>
\*  one     : get('src/<entry>', 'dst'), dst a directory  -> dst/<entry>
Modes == {"dir_new", "dir_into", "glob", "one"}
\* what exists where the entries f, d, l will land
\*  big_f : a larger file at f     (must be truncated)
\*  small_f / same_f: a shorter file / a file of the source's length with other bytes
\*  dir_f : a directory at f       (file over dir: that entry fails)
\*  file_d: a file at d            (dir over file: that entry fails)
\*  ent_l : a file at l            (link over file fails; file over file is replaced)
\*  base  : only the directory the entries land in exists already
Pres == {"none", "base", "big_f", "small_f", "same_f", "dir_f", "file_d", "ent_l"}
Flags ==
    {fl \in [op : {"get", "put", "copy"}, mode : Modes, recurse : BOOLEAN,
             follow : BOOLEAN, preserve : BOOLEAN, handler : BOOLEAN, progress : BOOLEAN,
             pre : Pres] :
        /\ fl.mode = "dir_new" => fl.pre = "none"
        /\ fl.mode \in {"glob", "one"} => fl.pre # "base"}

VARIABLES src, fl
vars == <<src, fl>>

\* NTrees = NFlags = 0: every case; NFlags = 0 < NTrees: NTrees random (tree, flags)
\* pairs; both > 0: the product of two random samples
Init ==
    IF NTrees > 0 /\ NFlags = 0
    THEN \E pr \in RandomSubset(NTrees, Trees \X Flags) : src = pr[1] /\ fl = pr[2]
    ELSE /\ src \in (IF NTrees = 0 THEN Trees ELSE RandomSubset(NTrees, Trees))
         /\ fl \in (IF NFlags = 0 THEN Flags ELSE RandomSubset(NFlags, Flags))
Next == UNCHANGED vars
Spec == Init /\ [][Next]_vars

-----------------------------------------------------------------------------
(* ---- the source file system ---- *)
Present(p) == p \in Paths /\ src[p].t # "none"
Kids(p) == {q \in Paths : Present(q) /\ Parent(q) = p}     \* p = "": the source directory

\* attributes as lstat / a directory listing reports them
Lstat(p) == IF ~Present(p) THEN [t |-> "none", size |-> 0, path |-> p]
            ELSE [t |-> src[p].t, path |-> p,
                  size |-> IF src[p].t = "file" THEN Bytes(src[p].sz)
                           ELSE IF src[p].t = "link" THEN TextLen(src[p].txt) ELSE 0]
\* ... and as stat reports them (links followed; at most link -> link -> object)
RECURSIVE StatN(_, _)
StatN(p, n) == IF ~Present(p) \/ n = 0 THEN [t |-> "none", size |-> 0, path |-> p]
               ELSE IF src[p].t = "link" THEN StatN(src[p].to, n - 1)
               ELSE Lstat(p)
Stat(p) == IF p = "" THEN [t |-> "dir", size |-> 0, path |-> ""] ELSE StatN(p, 3)

(* ---- the destination before the call ---- *)
\* kind of what exists at the place where source entry e (a top-level name) lands
PreKind(e) ==
    CASE fl.pre \in {"big_f", "small_f", "same_f"} /\ e = "f" -> "file"
      [] fl.pre = "dir_f" /\ e = "f" -> "dir"
      [] fl.pre = "file_d" /\ e = "d" -> "file"
      [] fl.pre = "ent_l" /\ e = "l" -> "file"
      [] OTHER -> "none"

Join(a, b) == IF a = "" THEN b ELSE a \o "/" \o b

(* ---- the driver ---- *)
Ok(S) == [out |-> S, errs |-> {}]
Err(ap) == [out |-> {}, errs |-> IF SkipErrors THEN {} ELSE {ap}]
Merge(R) == [out |-> UNION {r.out : r \in R}, errs |-> UNION {r.errs : r \in R}]

\* _copy(srcpath, dstpath, srcattrs): ap = the path the entry was reached by,
\* dp = where it goes (relative to where the entries land), a = the attributes held,
\* top = the top-level name it lands under (for PreKind; nested entries meet nothing)
RECURSIVE Walk(_, _, _, _)
Walk(ap, dp, a, top) ==
    LET fol == fl.follow /\ a.t = "link"
        st == Stat(a.path)
    IN  IF fol /\ st.t = "none" THEN Err(ap)                  \* dangling link
        ELSE
        LET b == IF ~fol THEN a
                 ELSE IF SizeFromLstat THEN [t |-> st.t, size |-> a.size, path |-> st.path]
                 ELSE st
            pre == IF dp = top THEN PreKind(top) ELSE "none"
        IN  CASE b.t = "dir" ->
                   IF ~fl.recurse THEN Err(ap)
                   ELSE IF pre = "file" THEN Err(ap)              \* mkdir over a file
                   ELSE Merge({Ok({[p |-> dp, t |-> "dir", from |-> b.path, n |-> 0,
                                    txt |-> ""]})} \cup
                              {Walk(Join(ap, Name(q)), Join(dp, Name(q)), Lstat(q),
                                    IF dp = "" THEN Name(q) ELSE top) : q \in Kids(b.path)})
              [] b.t = "link" ->
                   IF pre # "none" THEN Err(ap)                   \* symlink over an entry
                   ELSE Ok({[p |-> dp, t |-> "link", from |-> b.path, n |-> 0,
                             txt |-> src[b.path].txt]})
              [] b.t = "file" ->
                   IF pre = "dir" THEN Err(ap)                    \* open a directory for writing
                   ELSE IF SkipEmpty /\ fl.progress /\ b.size = 0 THEN Ok({})
                   ELSE Ok({[p |-> dp, t |-> "file", from |-> Stat(a.path).path,
                             n |-> b.size, txt |-> ""]})
              [] OTHER -> Err(ap)

TopEntries == {q \in Paths : Present(q) /\ Parent(q) = ""}
OneEntry == IF Present("l") THEN "l" ELSE IF Present("f") THEN "f" ELSE
            CHOOSE q \in TopEntries : TRUE

\* attributes _begin_copy holds for a path named by the caller
TopAttrs(p) == IF fl.follow THEN Stat(p) ELSE (IF p = "" THEN Stat("") ELSE Lstat(p))

\* fatal = raised by _begin_copy itself, whatever the error handler
Result ==
    CASE fl.mode \in {"dir_new", "dir_into"} ->
           [r |-> Walk("", "", TopAttrs(""), ""), fatal |-> FALSE]
      [] fl.mode = "glob" ->
           IF TopEntries = {}
           THEN [r |-> Err("*"), fatal |-> FALSE]             \* "No matches found"
           ELSE [r |-> Merge({Walk(Name(q), Name(q), Lstat(q), Name(q)) : q \in TopEntries}),
                 fatal |-> FALSE]
      [] fl.mode = "one" ->
           LET e == OneEntry a == TopAttrs(e) IN
           IF a.t = "none" THEN [r |-> Err(e), fatal |-> TRUE]  \* stat of a dangling link
           ELSE [r |-> Walk(e, e, a, e), fatal |-> FALSE]

Out == Result.r.out
Errs == Result.r.errs

-----------------------------------------------------------------------------
(* ---- properties of the table ---- *)
\* the bytes transferred for a file entry are the bytes of the object that was opened
SizeFromTarget ==
    \A x \in Out : x.t = "file" => x.n = Bytes(src[x.from].sz)
\* links are followed or recreated as links, as the flag says
LinksAsFlagged ==
    /\ fl.follow => \A x \in Out : x.t # "link"
    /\ ~fl.follow => \A x \in Out : x.t = "link" <=> (x.from \in Paths /\ src[x.from].t = "link")
\* every directory on the way to an entry arrives with it
Names == {"f", "d", "l", "m", "g", "k"}
TreeShaped ==
    \A x \in Out : \A y \in {z.p : z \in Out} \cup {""} : \A n \in Names :
        (x.p = Join(y, n) /\ ~(y = "" /\ fl.mode \in {"glob", "one"}))
            => \E z \in Out : z.p = y /\ z.t = "dir"
\* what is in scope: every entry the walk visits either arrives or is reported
RECURSIVE Scope(_, _, _)
Scope(ap, a, depth) ==      \* access paths the walk would visit, ignoring failures
    LET st == IF fl.follow /\ a.t = "link" THEN Stat(a.path) ELSE a IN
    {ap} \cup (IF st.t = "dir" /\ fl.recurse /\ depth > 0
               THEN UNION {Scope(Join(ap, Name(q)), Lstat(q), depth - 1) : q \in Kids(st.path)}
               ELSE {})
InScope ==
    CASE fl.mode \in {"dir_new", "dir_into"} -> Scope("", TopAttrs(""), 3)
      [] fl.mode = "glob" -> UNION {Scope(Name(q), Lstat(q), 3) : q \in TopEntries}
      [] OTHER -> Scope(OneEntry, TopAttrs(OneEntry), 3)
Covered(ap) ==      \* ap itself or a directory above it was reported
    \E e \in Errs :
        \/ e = ap \/ e = ""
        \/ \E n1 \in Names : ap = Join(e, n1)
        \/ \E n1, n2 \in Names : ap = Join(Join(e, n1), n2)
ErrorsReported ==
    (fl.mode # "glob" \/ TopEntries # {}) =>
        \A ap \in InScope : (\E x \in Out : x.p = ap) \/ Covered(ap)
\* and nothing is reported that did arrive
NoFalseReport == \A e \in Errs : e = "*" \/ ~\E x \in Out : x.p = e
\* nothing lands outside the place the entries are meant for
NoExtraneous == \A x \in Out : x.p \in InScope

Present4(p) == IF Present(p) THEN <<p, src[p].t, src[p].sz, src[p].txt>> ELSE <<>>
Table == Emit => PrintT(<<"CASE", {Present4(p) : p \in Paths} \ {<<>>}, fl, Out, Errs,
                         Result.fatal>>)
=============================================================================
