------------------------------ MODULE CopyData ------------------------------
(***************************************************************************)
(* The ranged server-side copy of the copy-data extension                   *)
(* (SFTPServerHandler._process_copy_data, behind SFTPClient.remote_copy and *)
(* remote-to-remote copy()): copy L bytes (0 = to the end of the file) from *)
(* offset ro of the source to offset wo of the destination, B bytes per     *)
(* iteration.  One step = one iteration (one read and one write of the      *)
(* application).  Bytes are ids: source byte p = p + 1, destination byte p  *)
(* before the copy = 100 + p, 0 = a zero byte.                              *)
(***************************************************************************)
EXTENDS Integers, Sequences, FiniteSets, TLC

CONSTANTS
    B,                \* block size (_COPY_DATA_BLOCK_SIZE, scaled down)
    MaxS,             \* largest source
    ZeroMeansToEnd,   \* TRUE: a remaining length of 0 means "to the end" in EVERY iteration
    NoProgressAtEof,  \* TRUE: advance by what was read; stop only on an empty read when
                      \* copying to the end
    Emit

Min(a, b) == IF a < b THEN a ELSE b
Max(a, b) == IF a > b THEN a ELSE b
Ceil(a, b) == (a + b - 1) \div b

VARIABLES S, ro0, L, wo0, D, same,     \* the case
          ro, wo, left, toEnd, file, dst, iters, done
vars == <<S, ro0, L, wo0, D, same, ro, wo, left, toEnd, file, dst, iters, done>>

Src0(s) == [p \in 1 .. s |-> p]
Dst0(d) == [p \in 1 .. d |-> 100 + p]

Init ==
    /\ S \in 0 .. MaxS /\ ro0 \in 0 .. (MaxS + 1) /\ L \in 0 .. (2 * B + 2)
    /\ wo0 \in {0, 1, B, MaxS + 2} /\ D \in {0, 1, B + 1} /\ same \in BOOLEAN
    \* one file as source and destination: only ranges that do not overlap
    \* (a copy "to the end" of a file onto its own end never ends by definition)
    /\ same => (D = 0 /\ wo0 >= S /\ L > 0 /\ ro0 + L <= S)
    /\ ro = ro0 /\ wo = wo0 /\ left = L /\ toEnd = (L = 0)
    /\ file = Src0(S) /\ dst = IF same THEN <<>> ELSE Dst0(D)
    /\ iters = 0 /\ done = FALSE

Slice(f, s, n) == IF s >= Len(f) \/ n <= 0 THEN <<>> ELSE SubSeq(f, s + 1, Min(Len(f), s + n))
WriteAt(f, s, d) ==
    IF Len(d) = 0 THEN f
    ELSE [i \in 1 .. Max(Len(f), s + Len(d)) |->
            IF i > s /\ i <= s + Len(d) THEN d[i - s] ELSE IF i <= Len(f) THEN f[i] ELSE 0]

\* an upper bound on the iterations any correct loop needs
Bound == (IF L = 0 THEN Ceil(IF S > ro0 THEN S - ro0 ELSE 0, B) ELSE Ceil(L, B)) + 1

Chunk ==
    /\ ~done /\ iters <= Bound + 1
    /\ LET te == IF ZeroMeansToEnd THEN left = 0 ELSE toEnd
           size == IF te THEN B ELSE Min(left, B)
           data == Slice(file, ro, size)
           n == Len(data)
           adv == IF NoProgressAtEof THEN n ELSE size
           stop == IF NoProgressAtEof THEN (te /\ n = 0) ELSE n < size
           left2 == IF te THEN left ELSE left - adv
       IN  /\ iters' = iters + 1
           /\ IF same THEN file' = WriteAt(file, wo, data) /\ dst' = dst
              ELSE dst' = WriteAt(dst, wo, data) /\ file' = file
           /\ ro' = IF stop THEN ro ELSE ro + adv
           /\ wo' = IF stop THEN wo ELSE wo + adv
           /\ left' = IF stop THEN left ELSE left2
           /\ done' = (stop \/ (~te /\ left2 = 0 /\ ~ZeroMeansToEnd)
                            \/ (ZeroMeansToEnd /\ FALSE))
    /\ UNCHANGED <<S, ro0, L, wo0, D, same, toEnd>>

Finished == done /\ UNCHANGED vars
Next == Chunk \/ Finished
Spec == Init /\ [][Next]_vars

-----------------------------------------------------------------------------
\* what the request asks for
Want == Slice(Src0(S), ro0, IF L = 0 THEN S ELSE L)
Expected == IF same THEN WriteAt(Src0(S), wo0, Want) ELSE WriteAt(Dst0(D), wo0, Want)
Final == IF same THEN file ELSE dst

\* the destination holds the requested range, everything else is untouched
CopyExact == done => (Final = Expected /\ (~same => file = Src0(S)))
\* every iteration consumes input or ends the loop
ChunkProgress == iters <= Bound
Terminates == iters > Bound => done

Table == (Emit /\ done) => PrintT(<<"COPYDATA", S, ro0, L, wo0, D, same, iters, Final>>)
=============================================================================
