CONSTANTS
  MaxN = 6
  Blocks = {1, 2, 3}
  MaxReqs = {1, 2, 3}
  Ops = {"get", "put", "copy"}
  SparseSet = {FALSE}
  MaxAns = 3
  AllowErr = TRUE
  ByOffset = TRUE
  Continue = TRUE
  ExtendDst = TRUE
SPECIFICATION Spec
VIEW view
INVARIANT ReadCorrect
INVARIANT DirectReadCorrect
INVARIANT WriteCorrect
INVARIANT CopyCorrect
INVARIANT ShortSourceFails
INVARIANT FailLoud
INVARIANT NoSpuriousFailure
INVARIANT NoLostTask
INVARIANT Progress
INVARIANT Parallelism
INVARIANT DisjointBlocks
