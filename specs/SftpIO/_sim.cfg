CONSTANTS
  MaxN = 6
  Blocks = {1, 2, 3}
  MaxReqs = {1, 2, 3}
  Ops = {"get","put","copy"}
  SparseSet = {TRUE}
  MaxAns = 3
  ByOffset = TRUE
  Continue = TRUE
  ExtendDst = TRUE
SPECIFICATION Spec
