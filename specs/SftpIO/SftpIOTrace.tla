---------------------------- MODULE SftpIOTrace ----------------------------
(***************************************************************************)
(* Code -> spec conformance for SftpIO.tla: validates executions RECORDED   *)
(* from naturally scheduled transfers of the real SFTP client (read, write, *)
(* get, put, copy; plain and sparse) against servers that answer on their   *)
(* own clock (random delays, short reads, errors, EOF where the file ends,  *)
(* random segmentation of the byte stream) against the actions of SftpIO.   *)
(*                                                                         *)
(* A trace is [c, ev]: the configuration of the API call (in units of U     *)
(* bytes: block, max_requests, offset, size, real and announced length,     *)
(* data positions) and the events, one per spec action, logged at its       *)
(* linearization point in the client:                                       *)
(*   start       the call issued its first requests                         *)
(*   ans a       asyncio.wait() in _SFTPParallelIO.iter returned: a = the   *)
(*               answers [off, ph, size, k, n] consumed by the tasks that   *)
(*               are finished now (a batch); for copy also: a READ was      *)
(*               answered and the task went on to its WRITE (one answer);   *)
(*               for a single-request read/write: its answer                *)
(*   end         the call returned / raised; data = what the caller or the  *)
(*               destination got, as byte ids                               *)
(* start / ans carry `new': the requests <<off, size>> for NEW blocks and   *)
(* continuations the client issued as a consequence (before the next batch) *)
(* and `done': the call is over after this step.                            *)
(* Nothing is inferred: S and f of Answer(S, f) are given by the event.     *)
(***************************************************************************)
EXTENDS SftpIO, Json, IOUtils, TLCExt

CONSTANT Strict   \* TRUE: bind all logged fields; FALSE: follow the events only (diagnosis)

Traces == JsonDeserialize(IOEnv.TRACE_FILE)

VARIABLES tid, l
tvars == <<c, started, offset, bl, pending, ri, result, dst, copied, done, raised,
           errInjected, lbl, tid, l>>

ToSet(s) == {s[i] : i \in 1 .. Len(s)}

CfgOf(t) == [op |-> t.c.op, B |-> t.c.B, M |-> t.c.M, off0 |-> t.c.off0, size |-> t.c.size,
             L |-> t.c.L, A |-> t.c.A, sparse |-> t.c.sparse, data |-> ToSet(t.c.data)]

TraceInit ==
    /\ tid \in 1 .. Len(Traces)
    /\ l = 1
    /\ c = CfgOf(Traces[tid])
    /\ started = FALSE /\ offset = 0 /\ bl = 0 /\ pending = {} /\ ri = 0
    /\ result = <<>> /\ dst = <<>> /\ copied = 0
    /\ done = FALSE /\ raised = FALSE /\ errInjected = FALSE
    /\ lbl = <<"init">>

\* the pending task an answer refers to
TaskOf(x) == {t \in pending : t.off = x.off /\ t.ph = x.ph}
Tasks(e) == UNION {TaskOf(x) : x \in ToSet(e.a)}
AnsFor(e, t) == CHOOSE x \in ToSet(e.a) : x.off = t.off /\ x.ph = t.ph

\* requests for blocks that did not exist before the step
Fresh == {t \in pending' : ~\E u \in pending : u.off = t.off /\ u.size = t.size}
MatchNew(e)  == {<<t.off, t.size>> : t \in Fresh} = ToSet(e.new)
MatchDone(e) == done' = e.done
MatchSize(e) == \A t \in Tasks(e) :
                   AnsFor(e, t).size = (IF t.ph = "rd" THEN t.size ELSE t.n)
Match(e) == MatchNew(e) /\ MatchDone(e)

MatchRaised(e) == raised = e.raised
MatchData(e)   == ~raised => (IF c.op = "read" THEN result ELSE dst) = e.data

\* (bound variables instead of LET: TLC evaluates them once; a LET body that
\* refers to Traces would re-read the JSON file at every use)
TraceStep ==
    /\ l <= Len(Traces[tid].ev)
    /\ \E e \in {Traces[tid].ev[l]} :
         \/ /\ e.e = "start" /\ Start
            /\ Strict => Match(e)
         \/ /\ e.e = "ans"
            /\ \E S \in {Tasks(e)} :
                 /\ Cardinality(S) = Len(e.a)      \* every answer names a pending request
                 /\ \E f \in {[t \in S |-> [k |-> AnsFor(e, t).k, n |-> AnsFor(e, t).n]]} :
                      /\ \A t \in S : f[t] \in Choices(t)   \* ... and is what a file server may say
                      /\ Strict => MatchSize(e)
                      /\ Answer(S, f)
            /\ Strict => Match(e)
         \/ /\ e.e = "end" /\ done
            /\ Strict => (MatchRaised(e) /\ MatchData(e))
            /\ UNCHANGED vars
    /\ l' = l + 1
    /\ UNCHANGED tid

TraceSpec == TraceInit /\ [][TraceStep]_tvars

\* bookkeeping: longest matched prefix per trace (needs -workers 1)
TraceProgress ==
    /\ IF l = 1 THEN TLCSet(tid, 0) ELSE TRUE
    /\ IF l - 1 > TLCGet(tid) THEN TLCSet(tid, l - 1) ELSE TRUE
TraceReport ==
    \A i \in 1 .. Len(Traces) :
        PrintT(<<"TRACE", i, TLCGet(i), Len(Traces[i].ev)>>)

\* the properties of SftpIO.tla, evaluated in every state of every recorded execution
\* (the last state of an accepted trace carries the bytes the caller really got)
TraceInv ==
    /\ ReadCorrect /\ DirectReadCorrect /\ WriteCorrect /\ CopyCorrect
    /\ ShortSourceFails /\ FailLoud /\ NoSpuriousFailure
    /\ NoLostTask /\ Progress /\ Parallelism /\ DisjointBlocks

\* diagnosis (Strict = FALSE, one trace): which logged field the model disagrees with.
\* Evaluated on the state reached AFTER event l-1.
Prev == Traces[tid].ev[l - 1]
DiagDone == (l > 1 /\ Prev.e \in {"start", "ans"}) => done = Prev.done
DiagNewIssued ==        \* every request the code issued for a new block exists in the model
    (l > 1 /\ Prev.e \in {"start", "ans"} /\ ~done) =>
        \A r \in ToSet(Prev.new) : \E t \in pending : <<t.off, t.size>> = r
DiagRaised == (l > 1 /\ Prev.e = "end") => raised = Prev.raised
DiagData == (l > 1 /\ Prev.e = "end" /\ ~raised) =>
                (IF c.op = "read" THEN result ELSE dst) = Prev.data
=============================================================================
