CONSTANTS
  MaxN = 4
  Blocks = {1, 2}
  MaxReqs = {1, 2}
  Ops = {"read", "write", "get", "put", "copy"}
  SparseSet = {FALSE, TRUE}
  MaxAns = 2
  AllowErr = TRUE
  ByOffset = TRUE
  Continue = TRUE
  ExtendDst = TRUE
SPECIFICATION Spec
VIEW view
INVARIANT NeverParallelOk
