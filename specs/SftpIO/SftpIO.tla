------------------------------- MODULE SftpIO -------------------------------
(***************************************************************************)
(* Parallel block I/O of asyncssh's SFTP client: _SFTPParallelIO           *)
(* (sftp.py 702-771) and its three users _SFTPFileReader (774-807),        *)
(* _SFTPFileWriter (810-835), _SFTPFileCopier (837-939), reached through   *)
(* SFTPClientFile.read/write (3394-3575) and SFTPClient.get/put/copy.      *)
(*                                                                         *)
(* Granularity: one step = the environment (the SFTP server) answers a     *)
(* non-empty set of outstanding READ/WRITE requests at once, and the       *)
(* client runs until it is quiescent again.  Everything the client does in *)
(* between (tasks wake, asyncio.wait(FIRST_COMPLETED) returns the set of   *)
(* finished tasks, results are consumed, continuations and new blocks are  *)
(* requested, errors cancel the rest) is deterministic up to the order in  *)
(* which the finished tasks of one batch are consumed (a Python set), which*)
(* is the existential `ord' below.                                         *)
(*                                                                         *)
(* The file server is *consistent*: the source is a fixed byte string; a   *)
(* READ(off, size) is answered with any non-empty prefix of what the file  *)
(* holds in that range (short read), EOF when nothing is there, or an      *)
(* error; a WRITE is acknowledged or refused.                              *)
(***************************************************************************)
EXTENDS Integers, Sequences, FiniteSets, TLC

CONSTANTS
    MaxN,       \* largest file length / request length
    Blocks,     \* block sizes explored
    MaxReqs,    \* max_requests values explored
    Ops,        \* subset of {"read", "write", "get", "put", "copy"}
    SparseSet,  \* subset of BOOLEAN: kinds of transfer explored for get/put/copy
    MaxAns,     \* at most this many requests are answered in one step
    AllowErr,   \* TRUE: the server may answer a request with an error status
    ByOffset,   \* TRUE: the reader reassembles by absolute offset (the code)
    Continue,   \* TRUE: a short count is followed by a continuation request (the code)
    ExtendDst   \* TRUE: a sparse copy extends the destination to the announced size
                \* (repair of finding F11); FALSE: the pinned tree

Min(a, b) == IF a < b THEN a ELSE b
Max(a, b) == IF a > b THEN a ELSE b
Monus(a, b) == IF a > b THEN a - b ELSE 0

CopyOps == {"get", "put", "copy"}

(* One configuration = one API call.                                        *)
(*   read : f.read(size, off0) on a file of length L, block B, max_req M    *)
(*   write: f.write(data, off0) with Len(data) = size                       *)
(*   copy ops: announced size A (what stat said), real length L, data =     *)
(*          positions that hold data (the rest of 0..L-1 is a hole)         *)
Positions == 0 .. (MaxN - 1)

Runs(data, A) ==     \* maximal runs of data positions, in order, as <<off, len>>
    LET starts == {p \in data : p = 0 \/ (p - 1) \notin data}
        EndOf(s) == CHOOSE e \in s .. A : (\A q \in s .. (e - 1) : q \in data) /\ (e = A \/ e \notin data)
        n == Cardinality(starts)
        Nth(i) == CHOOSE s \in starts : Cardinality({x \in starts : x < s}) = i - 1
    IN  [i \in 1 .. n |-> <<Nth(i), EndOf(Nth(i)) - Nth(i)>>]

\* (every definition is guarded so that TLC's eager evaluation of constant
\* definitions does not build sets that the configuration does not use)
ReadCfgs ==
    IF "read" \notin Ops THEN {} ELSE
    {[op |-> "read", B |-> b, M |-> m, off0 |-> o, size |-> s, L |-> l, A |-> l,
      sparse |-> FALSE, data |-> {p \in Positions : p < l}] :
        b \in Blocks, m \in MaxReqs, o \in 0 .. MaxN, s \in 1 .. MaxN, l \in 0 .. MaxN}
WriteCfgs ==
    IF "write" \notin Ops THEN {} ELSE
    {[op |-> "write", B |-> b, M |-> m, off0 |-> o, size |-> s, L |-> 0, A |-> 0,
      sparse |-> FALSE, data |-> {}] :
        b \in Blocks, m \in MaxReqs, o \in 0 .. 2, s \in 1 .. MaxN}
PlainCopyCfgs ==
    IF FALSE \notin SparseSet THEN {} ELSE
    {c \in {[op |-> op, B |-> b, M |-> m, off0 |-> 0, size |-> a, L |-> l, A |-> a,
             sparse |-> FALSE, data |-> {p \in Positions : p < l}] :
               op \in Ops \cap CopyOps, b \in Blocks, m \in MaxReqs,
               a \in 0 .. MaxN, l \in 0 .. MaxN} :
        c.L <= c.A /\ (c.op = "put" => c.L = c.A)}
SparseCopyCfgs ==
    IF TRUE \notin SparseSet THEN {} ELSE
    UNION {{[op |-> op, B |-> b, M |-> m, off0 |-> 0, size |-> a, L |-> a, A |-> a,
             sparse |-> TRUE, data |-> d] :
               op \in Ops \cap CopyOps, b \in Blocks, m \in MaxReqs, d \in SUBSET (0 .. (a - 1))} :
           a \in 0 .. MaxN}

Cfgs == ReadCfgs \cup WriteCfgs \cup PlainCopyCfgs \cup SparseCopyCfgs

VARIABLES
    c,          \* the configuration (constant during a behaviour)
    started,    \* the API call has issued its first requests
    offset,     \* _SFTPParallelIO._offset
    bl,         \* _SFTPParallelIO._bytes_left
    pending,    \* outstanding tasks: set of [off, size, ph, n]; ph = "rd": READ(off, size)
                \* outstanding; ph = "wr": WRITE(off, n bytes) outstanding
    ri,         \* copy: index of the data range being copied
    result,     \* read: reassembled bytes
    dst,        \* write / copy: destination file (sequence of byte ids, 0 = zero byte)
    copied,     \* copy: _bytes_copied
    done, raised,
    errInjected,\* history: the server answered some request with an error
    lbl         \* label of the last step (replay); hidden by VIEW

vars == <<c, started, offset, bl, pending, ri, result, dst, copied, done, raised,
          errInjected, lbl>>
view == <<c, started, offset, bl, pending, ri, result, dst, copied, done, raised,
          errInjected>>

-----------------------------------------------------------------------------
Direct == c.op \in {"read", "write"} /\ c.size <= c.B   \* single request, no scheduler

\* byte found at 0-based position p of the source
Src(p) == IF p \in c.data THEN p + 1 ELSE 0
SrcSeq == [i \in 1 .. c.L |-> Src(i - 1)]

\* byte the client puts at / expects from absolute file position p
Content(p) == IF c.op = "write" THEN (p - c.off0) + 1 ELSE Src(p)
Bytes(off, n) == [i \in 1 .. n |-> Content(off + i - 1)]

WriteAt(f, off, d) ==
    IF Len(d) = 0 THEN f
    ELSE [i \in 1 .. Max(Len(f), off + Len(d)) |->
            IF i > off /\ i <= off + Len(d) THEN d[i - off]
            ELSE IF i <= Len(f) THEN f[i] ELSE 0]

Ranges == IF c.sparse THEN Runs(c.data, c.A) ELSE <<<<0, c.A>>>>

NewTask(off, size) ==
    IF c.op \in {"write", "put"}
    THEN [off |-> off, size |-> size, ph |-> "wr", n |-> size]
    ELSE [off |-> off, size |-> size, ph |-> "rd", n |-> 0]

\* _start_tasks: returns <<pending, offset, bytes_left>>
StartTasks(pend, off, left) ==
    LET room == Monus(c.M, Cardinality(pend))
        need == (left + c.B - 1) \div c.B
        k == Min(room, need)
        take == Min(left, k * c.B)
        new == {NewTask(off + i * c.B, Min(c.B, left - i * c.B)) : i \in 0 .. (k - 1)}
    IN  <<pend \cup new, off + take, left - take>>

\* what a consistent server may answer to task t
Avail(t) == IF c.L > t.off THEN Min(t.size, c.L - t.off) ELSE 0
ErrAns == IF AllowErr THEN {[k |-> "err", n |-> 0]} ELSE {}
Choices(t) ==
    IF t.ph = "wr" THEN {[k |-> "ok", n |-> t.n]} \cup ErrAns
    ELSE IF Avail(t) = 0 THEN {[k |-> "eof", n |-> 0]} \cup ErrAns
    ELSE {[k |-> "data", n |-> j] : j \in 1 .. Avail(t)} \cup ErrAns

-----------------------------------------------------------------------------
(* Finishing: after the last range / the whole request *)
Finish(res, d, cp) ==
    LET short == c.op \in CopyOps /\ ~c.sparse /\ cp # c.A
        d2 == IF c.op \in CopyOps /\ c.sparse /\ ExtendDst /\ Len(d) < c.A
              THEN [i \in 1 .. c.A |-> IF i <= Len(d) THEN d[i] ELSE 0] ELSE d
    IN  /\ done' = TRUE /\ raised' = short
        /\ result' = res /\ dst' = d2 /\ copied' = cp
        /\ pending' = {} /\ offset' = offset /\ bl' = 0 /\ ri' = ri

\* run _start_tasks, move on to the next range(s) when the current one is exhausted
Proceed(pend, off, left, r, res, d, cp) ==
    LET st == StartTasks(pend, off, left)
    IN  IF st[1] # {}
        THEN /\ pending' = st[1] /\ offset' = st[2] /\ bl' = st[3] /\ ri' = r
             /\ result' = res /\ dst' = d /\ copied' = cp
             /\ done' = FALSE /\ raised' = FALSE
        ELSE IF c.op \in CopyOps /\ r < Len(Ranges)
        THEN LET nx == Ranges[r + 1]
                 st2 == StartTasks({}, nx[1], nx[2])
             IN  /\ pending' = st2[1] /\ offset' = st2[2] /\ bl' = st2[3] /\ ri' = r + 1
                 /\ result' = res /\ dst' = d /\ copied' = cp
                 /\ done' = FALSE /\ raised' = FALSE
        ELSE Finish(res, d, cp)

Start ==
    /\ ~started /\ started' = TRUE
    /\ lbl' = <<"start">>
    /\ UNCHANGED <<c, errInjected>>
    /\ IF Direct
       THEN /\ pending' = {NewTask(c.off0, c.size)}
            /\ UNCHANGED <<offset, bl, ri, result, dst, copied, done, raised>>
       ELSE IF c.op \in CopyOps
       THEN IF Len(Ranges) = 0 THEN Finish(<<>>, <<>>, 0)
            ELSE \* a zero-length non-sparse range finishes at once, as in iter()
                 Proceed({}, Ranges[1][1], Ranges[1][2], 1, <<>>, <<>>, 0)
       ELSE Proceed({}, c.off0, c.size, 0, <<>>, <<>>, 0)

-----------------------------------------------------------------------------
(* The answer step *)

\* what happens to task t when it is answered with a: "moved" (READ done, WRITE
\* issued), or completed with kind "data" / "eof" / "err" and count n
Moves(t, a) == c.op \in {"put", "copy"} /\ t.ph = "rd" /\ a.k \in {"data", "eof"}
Outcome(t, a) ==
    IF a.k = "err" THEN [off |-> t.off, size |-> t.size, kind |-> "err", n |-> 0]
    ELSE IF a.k = "eof" /\ c.op = "read"
         THEN [off |-> t.off, size |-> t.size, kind |-> "eof", n |-> 0]
    ELSE [off |-> t.off, size |-> t.size, kind |-> "data", n |-> a.n]

\* bytes that reach the destination file because of this answer
Writes(t, a) ==
    IF t.ph = "wr" /\ a.k = "ok" THEN {<<t.off, t.n>>}
    ELSE IF c.op = "get" /\ t.ph = "rd" /\ a.k = "data" THEN {<<t.off, a.n>>}
    ELSE {}

ApplyWrites(d, W) ==
    LET WW == {w \in W : w[2] > 0}
        top == IF WW = {} THEN 0 ELSE CHOOSE m \in {w[1] + w[2] : w \in WW} :
                                          \A w \in WW : w[1] + w[2] <= m
    IN  [i \in 1 .. Max(Len(d), top) |->
            IF \E w \in WW : i > w[1] /\ i <= w[1] + w[2] THEN Content(i - 1)
            ELSE IF i <= Len(d) THEN d[i] ELSE 0]

\* consume one finished task (body of `for task in done')
One(acc, o) ==
    IF o.kind = "err" THEN [acc EXCEPT !.errs = TRUE]
    ELSE IF o.kind = "eof" THEN [acc EXCEPT !.left = 0]
    ELSE [acc EXCEPT
            !.res = IF c.op # "read" THEN @
                    ELSE IF ByOffset THEN WriteAt(@, o.off - c.off0, Bytes(o.off, o.n))
                    ELSE @ \o Bytes(o.off, o.n),
            !.cp = @ + o.n,
            !.newt = IF Continue /\ o.n > 0 /\ o.n < o.size
                     THEN @ \cup {NewTask(o.off + o.n, o.size - o.n)} ELSE @]

\* (CHOOSE from a singleton / bound variables force TLC to evaluate the
\* accumulator once per element instead of re-evaluating the lazy argument
\* at every use, which is exponential in the size of the batch)
RECURSIVE Fold(_, _)
Fold(acc, ord) == IF ord = <<>> THEN acc
                  ELSE Fold(CHOOSE x \in {One(acc, Head(ord))} : TRUE, Tail(ord))

RECURSIVE Perms(_)      \* all orders in which the finished tasks of a batch may be consumed
Perms(D) == IF D = {} THEN {<<>>}
            ELSE UNION {{<<x>> \o p : p \in Perms(D \ {x})} : x \in D}

Answer(S, f) ==
    /\ started /\ ~done
    /\ lbl' = <<"ans", {[off |-> t.off, ph |-> t.ph, k |-> f[t].k, n |-> f[t].n] : t \in S}>>
    /\ errInjected' = (errInjected \/ \E t \in S : f[t].k = "err")
    /\ UNCHANGED <<c, started>>
    /\ LET moved == {t \in S : Moves(t, f[t])}
           D == {Outcome(t, f[t]) : t \in S \ moved}
           d1 == ApplyWrites(dst, UNION {Writes(t, f[t]) : t \in S})
           pend1 == (pending \ S) \cup
                    {[off |-> t.off, size |-> t.size, ph |-> "wr", n |-> f[t].n] : t \in moved}
       IN  IF Direct
           THEN LET o == CHOOSE x \in D : TRUE
                IN  /\ done' = TRUE /\ raised' = (o.kind = "err")
                    /\ result' = IF c.op = "read" /\ o.kind = "data"
                                 THEN Bytes(o.off, o.n) ELSE <<>>
                    /\ dst' = d1 /\ pending' = {}
                    /\ UNCHANGED <<offset, bl, ri, copied>>
           ELSE IF D = {}
           THEN /\ pending' = pend1 /\ dst' = d1
                /\ UNCHANGED <<offset, bl, ri, result, copied, done, raised>>
           ELSE \E ord \in Perms(D) :
                  \E acc \in {Fold([res |-> result, left |-> bl, errs |-> FALSE,
                                     cp |-> copied, newt |-> {}], ord)} :
                      IF acc.errs
                      THEN \* pending tasks are cancelled, the first error is raised
                           /\ done' = TRUE /\ raised' = TRUE /\ pending' = {}
                           /\ result' = acc.res /\ dst' = d1 /\ copied' = acc.cp
                           /\ bl' = acc.left /\ UNCHANGED <<offset, ri>>
                      ELSE Proceed(pend1 \cup acc.newt, offset, acc.left, ri,
                                   acc.res, d1, acc.cp)

Finished == done /\ UNCHANGED vars

Init ==
    /\ c \in Cfgs
    /\ started = FALSE /\ offset = 0 /\ bl = 0 /\ pending = {} /\ ri = 0
    /\ result = <<>> /\ dst = <<>> /\ copied = 0
    /\ done = FALSE /\ raised = FALSE /\ errInjected = FALSE
    /\ lbl = <<"init">>

Next ==
    \/ Start
    \/ \E S \in SUBSET pending :
         /\ S # {} /\ Cardinality(S) <= MaxAns
         /\ \E f \in [S -> UNION {Choices(t) : t \in S}] :
              /\ \A t \in S : f[t] \in Choices(t)
              /\ Answer(S, f)
    \/ Finished

Spec == Init /\ [][Next]_vars

-----------------------------------------------------------------------------
(* Properties *)
ExpLen == IF c.L > c.off0 THEN Min(c.size, c.L - c.off0) ELSE 0
Expected == [i \in 1 .. ExpLen |-> Src(c.off0 + i - 1)]
IsPrefix(s, t) == Len(s) <= Len(t) /\ \A i \in 1 .. Len(s) : s[i] = t[i]

ReadCorrect ==
    (done /\ ~raised /\ c.op = "read" /\ ~Direct) => result = Expected
DirectReadCorrect ==     \* "up to size bytes": a single request is not retried
    (done /\ ~raised /\ c.op = "read" /\ Direct) =>
        IsPrefix(result, Expected) /\ (ExpLen > 0 => Len(result) > 0)
WriteCorrect ==
    (done /\ ~raised /\ c.op = "write") =>
        /\ Len(dst) = c.off0 + c.size
        /\ \A i \in 1 .. Len(dst) : dst[i] = IF i > c.off0 THEN i - c.off0 ELSE 0
CopyCorrect ==
    (done /\ ~raised /\ c.op \in CopyOps) => dst = SrcSeq
ShortSourceFails ==
    (done /\ c.op \in CopyOps /\ ~c.sparse /\ c.L < c.A) => raised
FailLoud == (done /\ errInjected) => raised
NoSpuriousFailure ==     \* an error is only reported when something did go wrong
    (done /\ raised) => (errInjected \/ (c.op \in CopyOps /\ ~c.sparse /\ c.L < c.A))
NoLostTask == done => pending = {}
Progress == (started /\ ~done) => pending # {}      \* never waits with nothing outstanding
Parallelism == Cardinality(pending) <= c.M
DisjointBlocks ==
    \A s, t \in pending : s # t => (s.off + s.size <= t.off \/ t.off + t.size <= s.off)

\* vacuity witnesses (each must be reported violated = reachable)
NeverRaised == ~(done /\ raised)
NeverParallelOk == ~(done /\ ~raised /\ ~Direct /\ c.size > 2 * c.B)
=============================================================================
