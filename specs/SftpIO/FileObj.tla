------------------------------ MODULE FileObj ------------------------------
(***************************************************************************)
(* SFTPClientFile (sftp.py 3303-3720) as a state machine, next to a        *)
(* reference byte-level file.                                              *)
(*                                                                         *)
(* impl : what the code keeps and does -- _offset (None while appending    *)
(*        and not sought), _appending, the encoding; every read / write    *)
(*        goes to the server at the offset the object computes; a file     *)
(*        opened for append is appended to by the server whatever the      *)
(*        offset says.                                                     *)
(* ref  : a plain file: bytes and one position, with the semantics of a    *)
(*        Python file object opened in the same mode; an explicit offset   *)
(*        argument is "seek there, then do it".                            *)
(* All sizes, offsets and positions are BYTES.  In text mode a write of n  *)
(* characters puts Bom + n*W bytes (W = bytes per character of the case's  *)
(* encoding, Bom = the byte-order mark some encodings emit per encode).    *)
(* The invariant Agree says that the bytes on the server and every value   *)
(* the caller got equal the reference.                                     *)
(***************************************************************************)
EXTENDS Integers, Sequences, FiniteSets, TLC

CONSTANTS
    Widths,         \* bytes per character explored (1 = binary / ASCII)
    Boms,           \* byte-order-mark lengths explored (0; 2 = utf-16, 4 = utf-32)
    MaxOps,         \* operations after open()
    MaxLen,         \* files longer than this are not explored further
    PosByChars,     \* TRUE: write() advances the position by characters (sensitivity)
    AppendTracks,   \* TRUE: after a write in append mode the object believes it is at
                    \* offset + length instead of "at the end" (sensitivity)
    ReadNoAdvance,  \* TRUE: read() does not advance the position (sensitivity)
    ReadAllCrashes  \* TRUE: read-to-the-end from a position beyond the end of the file
                    \* fails with an internal error (the pinned tree: size = end - offset
                    \* is negative, finding F-C12-readpastend); FALSE: it returns nothing

NoneOff == -1
Modes == {"r", "w", "a", "r+", "w+", "a+", "x"}
Readable(m) == m \in {"r", "r+", "w+", "a+"}
Writable(m) == m # "r"
Appending(m) == m \in {"a", "a+"}

VARIABLES
    W, bom, mode, existed,
    srv,        \* bytes of the file on the server (0 = zero byte, else a byte id)
    off,        \* impl: _offset (NoneOff = None)
    ref, pos,   \* reference file and its position
    ret, rret,  \* what the last call returned: impl / reference
    nops, nwr,  \* operations / writes so far
    open_, lbl

vars == <<W, bom, mode, existed, srv, off, ref, pos, ret, rret, nops, nwr, open_, lbl>>
view == <<W, bom, mode, existed, srv, off, ref, pos, ret, rret, nops, nwr, open_>>

Initial(w) == [i \in 1 .. 2 * w |-> i]        \* two characters already in the file

Init ==
    /\ W \in Widths /\ bom \in Boms /\ (bom > 0 => W = bom)
    /\ mode \in Modes /\ existed \in BOOLEAN
    /\ srv = IF existed THEN Initial(W) ELSE <<>>
    /\ ref = srv /\ off = 0 /\ pos = 0
    /\ ret = <<"none">> /\ rret = <<"none">> /\ nops = 0 /\ nwr = 0
    /\ open_ = "no" /\ lbl = <<"init">>

Min(a, b) == IF a < b THEN a ELSE b
Max(a, b) == IF a > b THEN a ELSE b
Slice(f, s, n) == IF s >= Len(f) \/ n <= 0 THEN <<>> ELSE SubSeq(f, s + 1, Min(Len(f), s + n))
WriteAt(f, s, d) ==
    [i \in 1 .. Max(Len(f), s + Len(d)) |->
        IF i > s /\ i <= s + Len(d) THEN d[i - s] ELSE IF i <= Len(f) THEN f[i] ELSE 0]
Resize(f, n) == [i \in 1 .. n |-> IF i <= Len(f) THEN f[i] ELSE 0]
NewBytes(k, n) == [i \in 1 .. n |-> 100 * k + i]      \* the bytes of write number k

Open ==
    /\ open_ = "no"
    /\ lbl' = <<"open", mode>>
    /\ IF (mode = "x" /\ existed) \/ (mode \in {"r", "r+"} /\ ~existed)
       THEN /\ open_' = "failed" /\ ret' = <<"error">> /\ rret' = <<"error">>
            /\ UNCHANGED <<srv, ref, off, pos>>
       ELSE /\ open_' = "yes" /\ ret' = <<"ok">> /\ rret' = <<"ok">>
            /\ srv' = IF mode \in {"w", "w+"} THEN <<>> ELSE srv
            /\ ref' = srv'
            /\ off' = IF Appending(mode) THEN NoneOff ELSE 0
            /\ pos' = IF Appending(mode) THEN Len(srv') ELSE 0
    /\ UNCHANGED <<W, bom, mode, existed, nops, nwr>>

Op == /\ open_ = "yes" /\ nops < MaxOps /\ Len(srv) <= MaxLen /\ nops' = nops + 1
      /\ UNCHANGED <<W, bom, mode, existed, open_>>

\* read(size, offset): size < 0 = to the end; o = NoneOff: at the position
\* (not explored: an offset-less read through a write-only append-mode object -- the
\* code answers "nothing there" without asking the server, a plain file refuses)
Read(size, o) ==
    /\ Op /\ lbl' = <<"read", size, o>>
    /\ ~(~Readable(mode) /\ o = NoneOff /\ off = NoneOff)
    \* (not explored either: an explicit offset at or beyond the end of the file --
    \* whether the position then moves to that offset depends on whether the read is
    \* split into blocks; reads from the current position cover the end of file)
    /\ o # NoneOff => o < Len(srv)
    /\ UNCHANGED <<srv, ref, nwr>>
    /\ IF ~Readable(mode)
       THEN ret' = <<"error">> /\ rret' = <<"error">> /\ UNCHANGED <<off, pos>>
       ELSE
       LET s == IF o # NoneOff THEN o ELSE off          \* impl
           d == IF s = NoneOff THEN <<>>
                ELSE Slice(srv, s, IF size < 0 THEN Len(srv) - s ELSE size)
           rs == IF o # NoneOff THEN o ELSE pos          \* reference
           rd == Slice(ref, rs, IF size < 0 THEN Len(ref) - rs ELSE size)
       IN  /\ ret' = IF ReadAllCrashes /\ size < 0 /\ s # NoneOff /\ s > Len(srv)
                     THEN <<"crash">> ELSE <<"data", d>>
           /\ rret' = <<"data", rd>>
           /\ off' = IF s = NoneOff \/ d = <<>> \/ ReadNoAdvance THEN off ELSE s + Len(d)
           /\ pos' = IF rd = <<>> THEN pos ELSE rs + Len(rd)

\* write(n characters, offset)
Write(n, o) ==
    /\ Op /\ lbl' = <<"write", n, o>>
    /\ IF ~Writable(mode)
       THEN ret' = <<"error">> /\ rret' = <<"error">> /\ UNCHANGED <<srv, ref, off, pos, nwr>>
       ELSE
       LET d == NewBytes(nwr + 1, bom + n * W)
           s == IF o # NoneOff THEN o ELSE (IF off = NoneOff THEN 0 ELSE off)
           rs == IF o # NoneOff THEN o ELSE pos
       IN  /\ nwr' = nwr + 1
           /\ srv' = IF Appending(mode) THEN srv \o d ELSE WriteAt(srv, s, d)
           /\ ref' = IF Appending(mode) THEN ref \o d ELSE WriteAt(ref, rs, d)
           /\ off' = IF Appending(mode) /\ ~AppendTracks THEN NoneOff
                     ELSE s + (IF PosByChars THEN n ELSE Len(d))
           /\ pos' = IF Appending(mode) THEN Len(ref') ELSE rs + Len(d)
           /\ ret' = <<"int", IF PosByChars THEN n ELSE Len(d)>> /\ rret' = <<"int", Len(d)>>

Seek(k, whence) ==
    /\ Op /\ lbl' = <<"seek", k, whence>>
    /\ UNCHANGED <<srv, ref, nwr>>
    /\ LET t == CASE whence = 0 -> k
                  [] whence = 1 -> (IF off = NoneOff THEN Len(srv) ELSE off) + k
                  [] whence = 2 -> Len(srv) + k
           rt == CASE whence = 0 -> k [] whence = 1 -> pos + k [] whence = 2 -> Len(ref) + k
       IN  /\ t >= 0 /\ rt >= 0
           /\ off' = t /\ pos' = rt /\ ret' = <<"int", t>> /\ rret' = <<"int", rt>>

Tell ==
    /\ Op /\ lbl' = <<"tell">>
    /\ UNCHANGED <<srv, ref, nwr, pos>>
    /\ off' = IF off = NoneOff THEN Len(srv) ELSE off
    /\ ret' = <<"int", off'>> /\ rret' = <<"int", pos>>

\* truncate(size); size = NoneOff: at the position
\* (not explored: resizing an append-mode file through an object that has no
\* concrete position yet -- the code's "at the end" then follows the new end while a
\* plain file keeps its old position; see the C12 notes)
Truncate(size) ==
    /\ Op /\ lbl' = <<"truncate", size>>
    /\ (Appending(mode) /\ off = NoneOff) => (size = NoneOff \/ size = Len(srv))
    /\ UNCHANGED <<off, pos, nwr>>
    /\ IF ~Writable(mode)
       THEN ret' = <<"error">> /\ rret' = <<"error">> /\ UNCHANGED <<srv, ref>>
       ELSE LET t == IF size # NoneOff THEN size ELSE off      \* None -> no size is sent
                rt == IF size # NoneOff THEN size ELSE pos
            IN  /\ srv' = IF t = NoneOff THEN srv ELSE Resize(srv, t)
                /\ ref' = Resize(ref, rt)
                /\ ret' = <<"ok">> /\ rret' = <<"ok">>

Stat ==
    /\ Op /\ lbl' = <<"stat">>
    /\ UNCHANGED <<srv, ref, off, pos, nwr>>
    /\ ret' = <<"int", Len(srv)>> /\ rret' = <<"int", Len(ref)>>

Offsets == {NoneOff, 0} \cup {W, 2 * W}
Next ==
    \/ Open
    \/ \E size \in {-1, W, 2 * W}, o \in Offsets : Read(size, o)
    \/ \E n \in {1, 2}, o \in Offsets : Write(n, o)
    \/ \E k \in {0, W, 2 * W, 0 - W}, wh \in {0, 1, 2} : Seek(k, wh)
    \/ Tell
    \/ \E size \in {NoneOff, 0, W} : Truncate(size)
    \/ Stat

Spec == Init /\ [][Next]_vars

-----------------------------------------------------------------------------
\* the bytes on the server and everything the caller was told equal the reference
Agree == srv = ref /\ ret = rret
\* the object's idea of where it is equals the reference position
SamePosition == open_ = "yes" => (IF off = NoneOff THEN Len(srv) ELSE off) = pos
\* vacuity witnesses
NeverAppendNone == ~(open_ = "yes" /\ off = NoneOff /\ nwr > 0)
NeverTwoWrites == nwr < 2
=============================================================================
