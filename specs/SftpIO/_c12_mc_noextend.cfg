CONSTANTS
  MaxN = 4
  Blocks = {1, 2}
  MaxReqs = {1, 2}
  Ops = {"get", "put", "copy"}
  SparseSet = {TRUE}
  MaxAns = 2
  AllowErr = TRUE
  ByOffset = TRUE
  Continue = TRUE
  ExtendDst = FALSE
SPECIFICATION Spec
VIEW view
INVARIANT ReadCorrect
INVARIANT DirectReadCorrect
INVARIANT WriteCorrect
INVARIANT CopyCorrect
INVARIANT ShortSourceFails
INVARIANT FailLoud
INVARIANT NoSpuriousFailure
INVARIANT NoLostTask
INVARIANT Progress
INVARIANT Parallelism
INVARIANT DisjointBlocks
