------------------------------- MODULE Sparse -------------------------------
(***************************************************************************)
(* The sparse-copy protocol above the block scheduler: how the client      *)
(* learns which ranges of the source hold data.                            *)
(*   server  SFTPServerHandler._process_ranges (sftp.py): the data ranges  *)
(*           of [offset, offset+length) from SEEK_DATA / SEEK_HOLE, at     *)
(*           most MaxPerReply per reply, at_end = the reply is not full;   *)
(*           no range at all -> FX_EOF                                     *)
(*   client  SFTPClientFile.request_ranges: asks again from the end of the *)
(*           last range until at_end or EOF; a server without the          *)
(*           extension (or a local source: one unpaged listing) is         *)
(*           "everything in one page"                                      *)
(*   copier  _SFTPFileCopier.run: copies exactly the ranges it was given   *)
(*           and extends the destination to the announced size             *)
(* A behaviour is deterministic given the case (size, hole layout, page    *)
(* size, extension or not): one step per request.  TLC checks every case   *)
(* and prints the request / reply sequence, which the harness compares     *)
(* with what the real client and the real server exchange.                 *)
(***************************************************************************)
EXTENDS Integers, Sequences, FiniteSets, TLC

CONSTANTS
    MaxA,             \* largest file size (units)
    Pages,            \* page sizes (MaxPerReply) explored; 0 = the server lacks the
                      \* extension (the client takes the whole range); a page size above
                      \* MaxA = a local source (SEEK_DATA / SEEK_HOLE listing in one go)
    Alt,              \* 0: every hole layout of every size <= MaxA;
                      \* n > 0: the single layout with n one-unit extents at even positions
    AtEndOnFullPage,  \* FALSE: a full page is not the end (the code); TRUE: sensitivity
    ResumeAtRequest,  \* FALSE: the next request starts where the last range ended (the
                      \* code); TRUE: it repeats the previous offset + page (sensitivity)
    Emit

VARIABLES
    A, data, K,     \* the case: size, data positions, page size
    off, len,       \* next request
    got,            \* ranges the client has been given, in order
    reqs,           \* history: <<offset, length, <<ranges>>, at_end | "eof">>
    done

vars == <<A, data, K, off, len, got, reqs, done>>

AltData(n) == {2 * i : i \in 0 .. (n - 1)}
Init ==
    /\ IF Alt = 0
       THEN A \in 0 .. MaxA /\ data \in SUBSET (0 .. (A - 1))
       ELSE A = 2 * Alt /\ data = AltData(Alt)
    /\ K \in Pages
    /\ off = 0 /\ len = A /\ got = <<>> /\ reqs = <<>> /\ done = FALSE

\* maximal runs of data inside [o, o+l), in order, as <<start, length>>
RunStarts(o, l) == {p \in data : p >= o /\ p < o + l /\ (p = o \/ (p - 1) \notin data)}
RunEnd(s, lim) == CHOOSE e \in (s + 1) .. lim :
                     (\A q \in s .. (e - 1) : q \in data) /\ (e = lim \/ e \notin data)
RECURSIVE FirstRuns(_, _, _)
FirstRuns(S, lim, n) ==
    IF S = {} \/ n = 0 THEN <<>>
    ELSE LET s == CHOOSE x \in S : \A y \in S : x <= y
         IN  <<<<s, RunEnd(s, lim) - s>>>> \o FirstRuns(S \ {s}, lim, n - 1)

\* the server's reply to ranges(o, l)
Reply(o, l) ==
    LET S == RunStarts(o, l)
        n == Cardinality(S)
    IN  IF K = 0 THEN [ranges |-> <<<<o, l>>>>, at_end |-> TRUE, eof |-> FALSE]  \* whole range
        ELSE IF n = 0 THEN [ranges |-> <<>>, at_end |-> TRUE, eof |-> TRUE]
        ELSE LET m == IF n < K THEN n ELSE K
             IN  [ranges |-> FirstRuns(S, o + l, m), eof |-> FALSE,
                  \* (the code looks at the number of ranges it RETURNS)
                  at_end |-> IF AtEndOnFullPage THEN m <= K ELSE m < K]

Request ==
    /\ ~done
    /\ LET r == Reply(off, len) IN
         /\ reqs' = Append(reqs, <<off, len, r.ranges,
                                   IF r.eof THEN "eof" ELSE IF r.at_end THEN "end" ELSE "more">>)
         /\ got' = got \o r.ranges
         /\ IF r.eof \/ r.at_end
            THEN done' = TRUE /\ UNCHANGED <<off, len>>
            ELSE LET last == r.ranges[Len(r.ranges)]
                     nx == IF ResumeAtRequest THEN off + 1 ELSE last[1] + last[2]
                 IN  /\ off' = nx /\ len' = A - nx /\ done' = FALSE
    /\ UNCHANGED <<A, data, K>>

Finished == done /\ UNCHANGED vars
Next == Request \/ Finished
Spec == Init /\ [][Next]_vars

-----------------------------------------------------------------------------
Covered == UNION {{p \in 0 .. (A - 1) : p >= got[i][1] /\ p < got[i][1] + got[i][2]} :
                  i \in 1 .. Len(got)}
Src == [p \in 0 .. (A - 1) |-> IF p \in data THEN p + 1 ELSE 0]
\* what the copier leaves: the given ranges copied, the rest zero, length A
Dst == [p \in 0 .. (A - 1) |-> IF p \in Covered THEN Src[p] ELSE 0]

\* the ranges the client copies are exactly the source's data (paged listing) or
\* everything (unpaged whole-range fallback)
RangesExact == done => (IF K = 0 THEN Covered = 0 .. (A - 1) ELSE Covered = data)
\* the destination equals the source
DestEqual == done => Dst = Src
\* ranges come in order, do not overlap, are never empty
Ordered == \A i \in 1 .. Len(got) :
              /\ got[i][2] > 0 \/ K = 0
              /\ i > 1 => got[i - 1][1] + got[i - 1][2] <= got[i][1]
\* every reply but the last is a full page, and nothing is asked twice
FullPages == \A i \in 1 .. Len(reqs) :
                (i < Len(reqs) /\ K > 0) => (Len(reqs[i][3]) = K /\ reqs[i][4] = "more")
\* the listing ends: one request per full page, at most one more
Terminates == K > 0 => Len(reqs) <= (Cardinality(RunStarts(0, A)) \div K) + 1

Table == (Emit /\ done) => PrintT(<<"SPARSE", A, data, K, reqs>>)
=============================================================================
