-------------------------------- MODULE X11 --------------------------------
(***************************************************************************)
(* X11 forwarding of asyncssh on one SSH connection (x11.py, channel.py    *)
(* 1250-1290 / 1652-1690, connection.py attach_x11_listener /              *)
(* detach_x11_listener / _process_x11_open / create_x11_connection).       *)
(*                                                                         *)
(* Client side (SSHX11ClientListener, one per connection while sessions    *)
(* use it): every session that asks for X11 forwarding is attached with a  *)
(* spoofed cookie of its own (_remote_auth: session -> cookie, _channel:   *)
(* cookie -> session, single_connection); the cookie travels in the        *)
(* session's x11-req.  An "x11" channel opened by the server is connected  *)
(* to the user's X server and the first bytes of the X client are parsed   *)
(* (SSHX11ClientForwarder): when the authorization data is the cookie of   *)
(* an attached session it is replaced by the REAL cookie and everything is *)
(* relayed, otherwise the X client gets the X11 failure reply "Invalid     *)
(* authentication key" and nothing is relayed.  A single_connection cookie *)
(* is good for one connection.  Note: only the authorization DATA is       *)
(* compared, the authorization protocol NAME sent by the X client is not.  *)
(*                                                                         *)
(* Server side (SSHX11ServerListener, one per connection): created with a  *)
(* display number when the first session is granted X11 forwarding; that   *)
(* session's cookie is written to the server's Xauthority file; the        *)
(* listener is closed when the last attached session ends.                 *)
(*                                                                         *)
(* An X connection (XConn) presents: the cookie of session p (whatever the *)
(* state of p) or garbage (p = 0), under the right or a wrong protocol     *)
(* name, complete or truncated, in either byte order.                      *)
(***************************************************************************)
EXTENDS Naturals, FiniteSets, Sequences, TLC

CONSTANTS
    N,                  \* sessions
    MaxX,               \* X connections
    ServerAllows,       \* the server grants x11-req (x11_forwarding option)
    AtomicOpen,         \* generation only: a request is answered before anything
                        \*   else happens (create_process returns after the
                        \*   answer), X connections only once a display exists
    KeepClosedCookies   \* sensitivity: detach() forgets to drop the cookie

Sessions == 1..N
Forms == {"ok", "wrongproto", "truncated", "bigendian", "pipelined"}
\* pipelined: the first requests arrive in one segment with the setup

VARIABLES
    ss,       \* session -> "none" | "requested" | "attached" | "denied" | "closed"
    single,   \* session -> asked for single_connection
    reg,      \* client _remote_auth: sessions currently registered
    valid,    \* client _channel: sessions whose cookie validate_auth accepts
    used,     \* sessions whose single_connection cookie was consumed
    clsn,     \* client X11 listener object exists
    satt,     \* server: sessions attached to the server listener
    slsn,     \* server X11 listener (display) exists
    pub,      \* session whose cookie the server published in Xauthority (0: none)
    nx,
    last,     \* last X connection: [p, form, out]
    badServe, \* history: an X connection was served that should not have been
    badRefuse,\* history: a complete request with a live session's cookie was refused
    lbl

vars == <<ss, single, reg, valid, used, clsn, satt, slsn, pub, nx, last, badServe, badRefuse, lbl>>
view == <<ss, single, reg, valid, used, clsn, satt, slsn, pub, nx, last, badServe, badRefuse>>

NoLast == [p |-> 0, form |-> "none", out |-> "none"]

Init ==
    /\ ss = [s \in Sessions |-> "none"] /\ single = [s \in Sessions |-> FALSE]
    /\ reg = {} /\ valid = {} /\ used = {} /\ clsn = FALSE
    /\ satt = {} /\ slsn = FALSE /\ pub = 0
    /\ nx = 0 /\ last = NoLast /\ badServe = FALSE /\ badRefuse = FALSE
    /\ lbl = <<"init">>

\* a session is opened with x11_forwarding: the client attaches it and sends
\* x11-req (sessions are opened in order)
Quiet == AtomicOpen => \A t \in Sessions : ss[t] # "requested"

Request(s, sc) ==
    /\ Quiet
    /\ ss[s] = "none" /\ \A t \in 1..(s-1) : ss[t] # "none"
    /\ ss' = [ss EXCEPT ![s] = "requested"]
    /\ single' = [single EXCEPT ![s] = sc]
    /\ reg' = reg \cup {s} /\ valid' = valid \cup {s} /\ clsn' = TRUE
    /\ lbl' = <<"request", s, sc>>
    /\ UNCHANGED <<used, satt, slsn, pub, nx, last, badServe, badRefuse>>

\* client detach(): drop the session's entries; the listener goes with the last one
Detach(s) ==
    /\ reg' = reg \ {s}
    /\ valid' = IF KeepClosedCookies THEN valid ELSE valid \ {s}
    /\ clsn' = (clsn /\ reg \ {s} # {})

\* the server answers the x11-req
Answer(s) ==
    /\ ss[s] = "requested"
    /\ IF ServerAllows
       THEN /\ ss' = [ss EXCEPT ![s] = "attached"]
            /\ satt' = satt \cup {s} /\ slsn' = TRUE
            /\ pub' = IF slsn THEN pub ELSE s
            /\ UNCHANGED <<reg, valid, clsn>>
       ELSE /\ ss' = [ss EXCEPT ![s] = "denied"]
            /\ Detach(s)
            /\ UNCHANGED <<satt, slsn, pub>>
    /\ lbl' = <<"answer", s, ServerAllows>>
    /\ UNCHANGED <<single, used, nx, last, badServe, badRefuse>>

\* the session ends: both sides detach it
Close(s) ==
    /\ Quiet
    /\ ss[s] = "attached"
    /\ ss' = [ss EXCEPT ![s] = "closed"]
    /\ Detach(s)
    /\ satt' = satt \ {s}
    /\ slsn' = (satt \ {s} # {})
    /\ pub' = IF satt \ {s} = {} THEN 0 ELSE pub
    /\ lbl' = <<"close", s>>
    /\ UNCHANGED <<single, used, nx, last, badServe, badRefuse>>

\* may the X connection presenting p's cookie reach the X server?
Live(p) == p \in Sessions /\ ss[p] \in {"requested", "attached"} /\ p \notin used

\* what validate_auth does with p's cookie (0 = garbage)
Accepts(p) ==
    /\ p \in valid
    \* a consumed or closed single_connection entry raises KeyError on
    \* _remote_auth[chan] even when its cookie was left behind
    /\ (single[p] => p \in reg)

Outcome(p, form) ==
    IF ~slsn THEN "connrefused"          \* no listener on the display's port
    ELSE IF ~clsn THEN "disabled"        \* channel open refused: no reply at all
    ELSE IF form = "truncated" THEN "pending"
    ELSE IF Accepts(p) THEN "served" ELSE "invalid"

XConn(p, form) ==
    /\ nx < MaxX
    /\ Quiet
    /\ (AtomicOpen => \E s \in Sessions : ss[s] \in {"attached", "closed"})
    /\ LET out == Outcome(p, form) IN
       /\ last' = [p |-> p, form |-> form, out |-> out]
       /\ badServe' = (badServe \/ (out = "served" /\ ~Live(p)))
       /\ badRefuse' = (badRefuse \/ (out = "invalid" /\ Live(p)))
       /\ IF out = "served" /\ single[p]
          THEN /\ valid' = valid \ {p} /\ reg' = reg \ {p} /\ used' = used \cup {p}
          ELSE UNCHANGED <<valid, reg, used>>
       \* the x11 channel of this connection ends: SSHChannel._cleanup calls
       \* detach_x11_listener for every channel, which drops the listener
       \* when no session is registered any more (channel.py 269)
       /\ clsn' = IF out \in {"served", "invalid", "pending"} THEN reg' # {} ELSE clsn
       /\ lbl' = <<"xconn", p, form, out>>
    /\ nx' = nx + 1
    /\ UNCHANGED <<ss, single, satt, slsn, pub>>

Next ==
    \/ \E s \in Sessions, sc \in BOOLEAN : Request(s, sc)
    \/ \E s \in Sessions : Answer(s) \/ Close(s)
    \/ \E p \in 0..N, f \in Forms : XConn(p, f)

Spec == Init /\ [][Next]_vars

-----------------------------------------------------------------------------
\* an X connection reaches the X server iff it presents the cookie of a live
\* session that asked for X11 (a single_connection cookie: at most once)
ServedOnlyLive == ~badServe
LiveIsServed == ~badRefuse
\* the table validate_auth consults names exactly the live sessions
ValidExact ==
    valid = {s \in Sessions : ss[s] \in {"requested", "attached"} /\ s \notin used}
RegExact == reg = valid
\* listeners exist exactly while sessions need them
ClientListener == (reg # {} => clsn) /\ (clsn => \E s \in Sessions :
                                              ss[s] \in {"requested", "attached"})
ServerListener == slsn = (satt # {}) /\ satt = {s \in Sessions : ss[s] = "attached"}
Published == (slsn => pub \in Sessions) /\ (~slsn => pub = 0)
SingleOnce == \A s \in used : single[s]

\* witnesses (expected to be violated = reachable)
NeverServed == last.out # "served"
NeverClosedCookieRefused ==
    ~(last.out = "invalid" /\ last.p \in Sessions /\ ss[last.p] = "closed")
NeverSingleReuse == ~(last.out = "invalid" /\ last.p \in used)
=============================================================================
