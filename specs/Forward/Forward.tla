------------------------------ MODULE Forward ------------------------------
(***************************************************************************)
(* One forwarded connection of asyncssh (forward_local_port,               *)
(* forward_remote_port, forward_socks, forward_local_path,                 *)
(* forward_remote_path), at the granularity "one SSH channel message is    *)
(* delivered" / "one application action is taken and the event loop runs   *)
(* until idle".                                                            *)
(*                                                                         *)
(*   L app == socket ==> FL  ~~  X ==chO==  SSH  ==chA== Y  ~~  P == socket ==> R app *)
(*                                                                         *)
(* FL  SSHLocalForwarder (forward.py 192-252 / socks.py) created by the    *)
(*     listener for the accepted local socket: early-data buffer _inpbuf   *)
(*     and _eof_received until the channel is confirmed (_forward 200-221) *)
(* X   SSHForwarder(FL) made by the session factory when the confirmation  *)
(*     arrives (channel.py _open_forward); its transport is the channel    *)
(* Y,P SSHForwarder pair made by SSHConnection.forward_connection on the   *)
(*     accepting side (connection.py 3169-3197); P owns the socket to R    *)
(* chO/chA: the two ends of the SSH channel (channel.py send/recv state)   *)
(*                                                                         *)
(* "O" is the side that opens the channel (the one with the listener), "A" *)
(* the accepting side.  For forward_local_* / forward_socks O is the SSH   *)
(* client, for forward_remote_* O is the SSH server.                       *)
(*                                                                         *)
(* The sockets to the two applications are in-memory stream transports     *)
(* with TCP semantics: close() of an application end is a FIN (seen as     *)
(* eof_received by the forwarder), a reset is connection_lost(exc).        *)
(***************************************************************************)
EXTENDS Naturals, Sequences, FiniteSets, TLC

CONSTANTS
    MaxW,        \* data units each application end may write
    Keeps,       \* subset of {"TT","TF","FT","FF"} (L, R): does the application
                 \*   end keep its socket open when it sees EOF (half-close
                 \*   capable, T) or close it (asyncio's default, F); chosen
                 \*   initially
    AllowFail,   \* the open request may be refused (destination unreachable)
    AllowReset,  \* an application socket may be reset (connection_lost(exc))
    AllowCut,    \* the SSH connection may be lost
    AllowLsn,    \* the listener may be closed while the connection is relayed
    FixLost,     \* TRUE: model of the code with fixes/F11 applied
    FixCross,    \* TRUE: model of the code with fixes/F12 applied
    Win,         \* channel window in data units (one unit = one maximum packet);
                 \*   0: flow control not modelled (window never exhausted)
    CreditDropped, \* TRUE: model of the code with fixes/C20_close_pending_window_deadlock
                 \*   (data dropped by a close_pending channel is given back to the
                 \*   peer's window)
    AdjustOnlyOpen, \* sensitivity: WINDOW_ADJUST refused once the peer's EOF arrived
    FlowBias,    \* generation only: ends close / reset only after MaxW units were
                 \*   written in total (more behaviours with data in flight)
    EarlyBias,   \* generation only: the confirmation is held back until L
                 \*   wrote two units or sent its FIN (more early-data behaviours)
    DropEarly,   \* sensitivity: early data is dropped at confirmation
    NoEofRelay   \* sensitivity: forwarders do not pass EOF on

Ends == {"L", "R"}
Other(e) == IF e = "L" THEN "R" ELSE "L"
Side(e) == IF e = "L" THEN "O" ELSE "A"
End(x) == IF x = "O" THEN "L" ELSE "R"
Msg(t, ds) == [t |-> t, ds |-> ds]

VARIABLES S, lbl
vars == <<S, lbl>>
view == S

IsPrefix(a, b) == Len(a) <= Len(b) /\ SubSeq(b, 1, Len(a)) = a
B2 == [L |-> FALSE, R |-> FALSE]

Init ==
    /\ \E kp \in Keeps :
       S = [keep |-> [L |-> kp \in {"TT", "TF"}, R |-> kp \in {"TT", "FT"}],
            sent |-> [L |-> <<>>, R |-> <<>>],      \* written by the application end
            rcvd |-> [L |-> <<>>, R |-> <<>>],      \* received by the application end
            appSt |-> [L |-> "open", R |-> "none"], \* none (not connected) / open / closed
            appFin |-> B2,                          \* application sent FIN (write_eof or close)
            appEof |-> B2,                          \* application saw eof_received
            sock |-> [L |-> "open", R |-> "none"],  \* the forwarder's socket transport
            fEof |-> B2,                            \* FL / P ._eof_received
            fFin |-> B2,                            \* FL / P sent FIN on its socket
            buf |-> <<>>,                           \* FL._inpbuf
            pair |-> [O |-> "pre", A |-> "none"],   \* pre: FL alone; up; zombie: X attached to a dead FL; closed
            cEof |-> [O |-> FALSE, A |-> FALSE],    \* X / Y ._eof_received
            ch |-> [O |-> [s |-> "init", r |-> "init"],
                    A |-> [s |-> "init", r |-> "init"]],
            qOA |-> <<Msg("open", <<>>)>>,          \* channel messages in flight O -> A
            qAO |-> <<>>,
            lsn |-> "open", conn |-> "up",
            \* history for the properties
            failed |-> FALSE, confirmed |-> FALSE, reset |-> B2,
            win |-> [O |-> Win, A |-> Win],        \* channel _send_window (units)
            rwin |-> [O |-> Win, A |-> Win],       \* channel _recv_window
            sbuf |-> [O |-> <<>>, A |-> <<>>],     \* channel _send_buf
            perr |-> "",                            \* side that hit a protocol error
            envcut |-> FALSE,                       \* the environment cut the connection
            exempt |-> B2,                          \* e closed before it saw EOF: data towards e may be lost
            finAfterEof |-> FALSE]                  \* an end sent its FIN after it had seen EOF
    /\ lbl = <<"init">>

-----------------------------------------------------------------------------
(* Building blocks: functions from state record to state record *)

Send(s, x, m) == IF x = "O" THEN [s EXCEPT !.qOA = Append(@, m)]
                            ELSE [s EXCEPT !.qAO = Append(@, m)]

\* SSHChannel.write / write_eof / close as used by X and Y (forward.py 85-105
\* swallow the BrokenPipeError of a channel that is not open for sending)
\* channel.py _flush_send_buf: one packet per unit while the window allows,
\* then the pending EOF / CLOSE ("eofp" / "closep" = eof_pending / close_pending)
RECURSIVE FlushSend(_, _)
FlushSend(s, x) ==
    IF s.sbuf[x] # <<>> /\ s.win[x] > 0
    THEN FlushSend(Send([s EXCEPT !.sbuf[x] = Tail(@), !.win[x] = @ - 1], x,
                        Msg("data", <<Head(s.sbuf[x])>>)), x)
    ELSE IF s.sbuf[x] = <<>> /\ s.ch[x].s = "eofp"
    THEN Send([s EXCEPT !.ch[x].s = "eof"], x, Msg("eof", <<>>))
    ELSE IF s.sbuf[x] = <<>> /\ s.ch[x].s = "closep"
    THEN Send([s EXCEPT !.ch[x].s = "closed"], x, Msg("close", <<>>))
    ELSE s
ChanWrite(s, x, ds) ==
    IF s.ch[x].s # "open" THEN s
    ELSE IF Win = 0 THEN Send(s, x, Msg("data", ds))
    ELSE FlushSend([s EXCEPT !.sbuf[x] = @ \o ds], x)
ChanEof(s, x) == IF s.ch[x].s = "open"
                 THEN FlushSend([s EXCEPT !.ch[x].s = "eofp"], x) ELSE s
ChanClose(s, x) == IF s.ch[x].s \in {"open", "eofp", "eof"}
                   THEN FlushSend([s EXCEPT !.ch[x].s = "closep"], x) ELSE s

\* SSHForwarder.close() reached from either member of the pair on side x:
\* the socket transport is closed (FIN to the application, which may react
\* by closing, which nobody notices any more), the channel is closed.
PairClose(s, x) ==
    LET e == End(x)
        s1 == IF s.sock[e] = "open"
              THEN LET t == [s EXCEPT !.sock[e] = "closed", !.fFin[e] = TRUE]
                   IN IF ~s.fFin[e] /\ s.appSt[e] = "open" /\ ~s.appEof[e]
                      THEN [t EXCEPT !.appEof[e] = TRUE,
                                     !.appSt[e] = IF s.keep[e] THEN "open" ELSE "closed",
                                     !.appFin[e] = IF s.keep[e] THEN @ ELSE TRUE]
                      ELSE t
              ELSE s
        s2 == IF s1.pair[x] \in {"up", "zombie"} THEN ChanClose(s1, x) ELSE s1
    IN [s2 EXCEPT !.pair[x] = "closed"]

\* FL / P .eof_received (forward.py 155-165); the socket transport closes
\* itself when the result is false
FwdEof(s, e) ==
    LET x == Side(e)
        s1 == [s EXCEPT !.fEof[e] = TRUE]
    IN IF s1.pair[x] = "up"
       THEN LET s2 == IF NoEofRelay THEN s1 ELSE ChanEof(s1, x)
            IN IF ~s1.cEof[x] THEN s2 ELSE PairClose(s2, x)
       ELSE s1

\* FL / P .data_received (forward.py 144-153)
FwdData(s, e, ds) ==
    LET x == Side(e)
    IN IF s.pair[x] = "up" THEN ChanWrite(s, x, ds)
       ELSE IF s.pair[x] = "pre" THEN [s EXCEPT !.buf = @ \o ds]
       ELSE s

\* FL / P .write(ds): towards the application
AppDeliver(s, e, ds) ==
    IF s.sock[e] = "open" /\ s.appSt[e] = "open"
    THEN [s EXCEPT !.rcvd[e] = @ \o ds] ELSE s

\* channel.py _process_data -> _accept_data -> _deliver_data: data that arrives
\* after the local close is dropped unaccounted; otherwise the receive
\* window shrinks and is refilled once less than half of it is left
RecvData(s, x, ds) ==
    IF s.ch[x].s \in {"closep", "closed"} \/ s.pair[x] \notin {"up", "zombie"}
    THEN IF CreditDropped /\ Win > 0 /\ s.ch[x].s = "closep"
         THEN Send(s, x, Msg("adjust", <<Len(ds)>>)) ELSE s
    ELSE LET r == s.rwin[x] - Len(ds)
             s1 == IF Win > 0 /\ 2 * r < Win
                   THEN Send([s EXCEPT !.rwin[x] = Win], x, Msg("adjust", <<Win - r>>))
                   ELSE [s EXCEPT !.rwin[x] = IF Win = 0 THEN @ ELSE r]
         IN AppDeliver(s1, End(x), ds)

\* channel.py _process_window_adjust
RecvAdjust(s, x, n) ==
    IF s.ch[x].r \notin {"open", "eof"} \/ (AdjustOnlyOpen /\ s.ch[x].r # "open")
    THEN [s EXCEPT !.perr = x]
    ELSE FlushSend([s EXCEPT !.win[x] = @ + n], x)

\* FL / P .write_eof(): the application sees EOF; one that does not keep
\* half-open connections closes, which the forwarder sees as EOF
AppGetsFin(s, e) ==
    IF s.sock[e] # "open" \/ s.fFin[e] THEN s
    ELSE LET s1 == [s EXCEPT !.fFin[e] = TRUE]
         IN IF s1.appSt[e] = "open" /\ ~s1.appEof[e]
            THEN LET s2 == [s1 EXCEPT !.appEof[e] = TRUE]
                 IN IF s.keep[e] THEN s2
                    ELSE LET s3 == [s2 EXCEPT !.appSt[e] = "closed"]
                         IN IF s3.appFin[e] THEN s3
                            ELSE FwdEof([s3 EXCEPT !.appFin[e] = TRUE,
                                                   !.finAfterEof = TRUE], e)
            ELSE s1

\* channel EOF delivered to X / Y (channel.py _process_eof -> session.eof_received)
RecvEof(s, x) ==
    LET e == End(x)
        s1 == [s EXCEPT !.ch[x].r = "eof", !.cEof[x] = TRUE]
    IN IF s1.pair[x] \in {"up", "zombie"} /\ ~NoEofRelay
       THEN IF FixCross /\ s1.fEof[e]
            THEN PairClose(s1, x)
            ELSE AppGetsFin(s1, e)
       ELSE s1

\* channel CLOSE delivered (channel.py _process_close -> _cleanup -> connection_lost)
RecvClose(s, x) ==
    LET s1 == IF s.ch[x].s \in {"open", "eofp", "eof", "closep"}   \* _close_send: unsent data is discarded
              THEN Send([s EXCEPT !.ch[x].s = "closed", !.sbuf[x] = <<>>], x,
                        Msg("close", <<>>)) ELSE s
        s2 == [s1 EXCEPT !.ch[x].r = "closed"]
    IN IF s2.pair[x] \in {"up", "zombie"} THEN PairClose(s2, x) ELSE s2

\* _forward continues after the confirmation (forward.py 214-221)
Flush(s) ==
    LET s2 == IF s.buf # <<>> /\ ~DropEarly THEN ChanWrite(s, "O", s.buf) ELSE s
        s3 == [s2 EXCEPT !.buf = <<>>]
    IN IF s3.fEof.L /\ ~NoEofRelay THEN ChanEof(s3, "O") ELSE s3

\* one message taken by the opening side
StepO(s) ==
    LET m == Head(s.qAO)
        s0 == [s EXCEPT !.qAO = Tail(@)]
    IN CASE m.t = "conf" ->
              LET s1 == [s0 EXCEPT !.ch.O = [s |-> "open", r |-> "open"],
                                   !.confirmed = TRUE]
              IN IF s1.sock.L = "closed"       \* FL was lost while the open was pending
                 THEN IF FixLost
                      THEN ChanClose([s1 EXCEPT !.pair.O = "closed", !.buf = <<>>], "O")
                      ELSE Flush([s1 EXCEPT !.pair.O = "zombie"])
                 ELSE Flush([s1 EXCEPT !.pair.O = "up"])
         [] m.t = "fail" ->
              PairClose([s0 EXCEPT !.ch.O = [s |-> "closed", r |-> "closed"]], "O")
         [] m.t = "data" -> RecvData(s0, "O", m.ds)
         [] m.t = "adjust" -> RecvAdjust(s0, "O", m.ds[1])
         [] m.t = "eof" -> RecvEof(s0, "O")
         [] m.t = "close" -> RecvClose(s0, "O")

\* one message taken by the accepting side
StepA(s, ok) ==
    LET m == Head(s.qOA)
        s0 == [s EXCEPT !.qOA = Tail(@)]
    IN CASE m.t = "open" ->
              IF ok
              THEN Send([s0 EXCEPT !.sock.R = "open", !.appSt.R = "open",
                                   !.pair.A = "up",
                                   !.ch.A = [s |-> "open", r |-> "open"]],
                        "A", Msg("conf", <<>>))
              ELSE Send([s0 EXCEPT !.failed = TRUE,
                                   !.ch.A = [s |-> "closed", r |-> "closed"]],
                        "A", Msg("fail", <<>>))
         [] m.t = "data" -> RecvData(s0, "A", m.ds)
         [] m.t = "adjust" -> RecvAdjust(s0, "A", m.ds[1])
         [] m.t = "eof" -> RecvEof(s0, "A")
         [] m.t = "close" -> RecvClose(s0, "A")

\* the SSH connection object on side x is cleaned up (connection.py _cleanup)
ConnLost(s, x) ==
    LET s1 == [s EXCEPT !.ch[x] = [s |-> "closed", r |-> "closed"], !.sbuf[x] = <<>>]
        s2 == IF s1.pair[x] \in {"pre", "up", "zombie"} THEN PairClose(s1, x) ELSE s1
    IN IF x = "O" THEN [s2 EXCEPT !.lsn = "closed"] ELSE s2

RECURSIVE DrainO(_), DrainA(_)
DrainO(s) == IF s.qAO = <<>> \/ s.perr # "" THEN s ELSE DrainO(StepO(s))
DrainA(s) == IF s.qOA = <<>> \/ s.perr # "" THEN s ELSE DrainA(StepA(s, TRUE))

\* the SSH transport is lost at side x (or x disconnects after a protocol
\* error): x forgets its unread input and cleans up; the other side still
\* reads what was in flight, then cleans up
LoseAt(s, x) ==
    LET s1 == IF x = "O" THEN [s EXCEPT !.qAO = <<>>] ELSE [s EXCEPT !.qOA = <<>>]
        s2 == ConnLost(s1, x)
        s3 == IF x = "O" THEN DrainA(s2) ELSE DrainO(s2)
        s4 == ConnLost(s3, IF x = "O" THEN "A" ELSE "O")
    IN [s4 EXCEPT !.conn = "cut", !.qOA = <<>>, !.qAO = <<>>]
AfterStep(t) == IF t.perr # "" THEN LoseAt(t, t.perr) ELSE t

-----------------------------------------------------------------------------
(* Actions *)

Live == S.conn = "up"

Write(e) ==
    /\ Live /\ S.appSt[e] = "open" /\ ~S.appFin[e] /\ Len(S.sent[e]) < MaxW
    /\ LET d == Len(S.sent[e]) + 1
           s1 == [S EXCEPT !.sent[e] = Append(@, d)]
       IN /\ S' = IF s1.sock[e] = "open" THEN FwdData(s1, e, <<d>>) ELSE s1
          /\ lbl' = <<"W", e, d>>

Eof(e) ==
    /\ Live /\ S.appSt[e] = "open" /\ ~S.appFin[e]
    /\ LET s1 == [S EXCEPT !.appFin[e] = TRUE,
                           !.finAfterEof = @ \/ S.appEof[e]]
       IN S' = IF s1.sock[e] = "open" THEN FwdEof(s1, e) ELSE s1
    /\ lbl' = <<"E", e>>

Flowed == FlowBias => Len(S.sent.L) + Len(S.sent.R) >= MaxW

Close(e) ==
    /\ Flowed
    /\ Live /\ S.appSt[e] = "open"
    /\ LET s1 == [S EXCEPT !.appSt[e] = "closed", !.appFin[e] = TRUE,
                           !.exempt[e] = @ \/ ~S.appEof[e],
                           !.finAfterEof = @ \/ (~S.appFin[e] /\ S.appEof[e])]
       IN S' = IF ~S.appFin[e] /\ s1.sock[e] = "open" THEN FwdEof(s1, e) ELSE s1
    /\ lbl' = <<"C", e>>

Reset(e) ==
    /\ Flowed
    /\ AllowReset /\ Live /\ S.appSt[e] = "open" /\ S.sock[e] = "open"
    /\ LET x == Side(e)
           s1 == [S EXCEPT !.appSt[e] = "closed", !.appFin[e] = TRUE,
                           !.reset[e] = TRUE]
       IN S' = IF s1.pair[x] = "pre"
               THEN [s1 EXCEPT !.sock[e] = "closed"]    \* FL.close(): no peer yet
               ELSE PairClose(s1, x)
    /\ lbl' = <<"X", e>>

DeliverOA(ok) ==
    /\ Live /\ S.qOA # <<>>
    /\ (~ok => AllowFail /\ Head(S.qOA).t = "open")
    /\ S' = AfterStep(StepA(S, ok))
    /\ lbl' = <<"DOA", ok>>

DeliverAO ==
    /\ Live /\ S.qAO # <<>>
    /\ (EarlyBias /\ Head(S.qAO).t = "conf" /\ S.appSt.L = "open" =>
            Len(S.sent.L) >= 2 \/ S.appFin.L)
    /\ S' = AfterStep(StepO(S))
    /\ lbl' = <<"DAO">>

Cut(x) ==
    /\ AllowCut /\ Live
    /\ S' = [LoseAt(S, x) EXCEPT !.envcut = TRUE]
    /\ lbl' = <<"CUT", x>>

LsnClose ==
    /\ AllowLsn /\ Live /\ S.lsn = "open"
    /\ S' = [S EXCEPT !.lsn = "closed"]
    /\ lbl' = <<"LSN">>

Next ==
    \/ \E e \in Ends : Write(e) \/ Eof(e) \/ Close(e) \/ Reset(e)
    \/ \E ok \in BOOLEAN : DeliverOA(ok)
    \/ DeliverAO
    \/ \E x \in {"O", "A"} : Cut(x)
    \/ LsnClose

Spec == Init /\ [][Next]_vars

-----------------------------------------------------------------------------
(* Properties (C20) *)

Quiescent == S.qOA = <<>> /\ S.qAO = <<>>
Clean == S.confirmed /\ ~S.failed /\ ~S.reset.L /\ ~S.reset.R /\ S.conn = "up"

\* what comes out is a prefix of what went in, in both directions, always
RelayFIFO == IsPrefix(S.rcvd.R, S.sent.L) /\ IsPrefix(S.rcvd.L, S.sent.R)

\* ... and all of it once nothing is in flight, unless the connection was
\* aborted or the receiver closed before it had seen the sender's EOF
Complete ==
    Quiescent /\ Clean =>
        \A e \in Ends : ~S.exempt[e] => S.rcvd[e] = S.sent[Other(e)]

\* half-close is passed on (the other direction keeps flowing: Complete)
HalfClose ==
    Quiescent /\ Clean =>
        \A e \in Ends : S.appFin[e] => S.appEof[Other(e)] \/ S.exempt[Other(e)]

\* an end that closes in answer to the other's EOF ends the whole connection
Teardown ==
    Quiescent /\ S.finAfterEof /\ S.conn = "up" =>
        /\ S.sock.L # "open" /\ S.sock.R # "open"
        /\ S.ch.O.s \in {"closed"} /\ S.ch.A.s \in {"closed"}

\* a lost application connection ends the other one
CloseBoth ==
    Quiescent /\ ~S.failed /\ S.conn = "up" =>
        \A e \in Ends : S.reset[e] =>
            /\ S.sock.L # "open" /\ S.sock.R # "open"
            /\ LET o == Other(e) IN S.appSt[o] # "open" \/ S.appEof[o]

\* relayed sockets are released when both applications have closed
Released ==
    Quiescent /\ S.appSt.L = "closed" /\ S.appSt.R \in {"closed", "none"} =>
        S.sock.L # "open" /\ S.sock.R # "open"

\* a refused open closes the local connection and relays nothing
FailureClean ==
    Quiescent /\ S.failed /\ S.conn = "up" =>
        S.sock.L = "closed" /\ S.rcvd.R = <<>> /\ S.appSt.R = "none"

\* after the SSH connection is gone nothing of it is left
NoListenerLeft ==
    S.conn = "cut" =>
        /\ S.lsn = "closed" /\ S.sock.L # "open" /\ S.sock.R # "open"
        /\ \A e \in Ends : S.appSt[e] = "open" => S.appEof[e]

\* the branch "eof_received() is false and the channel still sends" of
\* channel.py 357-359 is never taken by forwarders (modelled as absent)
\* flow control never strands data or kills the connection: with nothing in
\* flight no channel is waiting for window, and only the environment cuts
NoStall == Quiescent /\ S.conn = "up" =>
               \A x \in {"O", "A"} : S.ch[x].s \in {"open", "eofp"} => S.sbuf[x] = <<>>
\* NOT an invariant of the code as it is (witness, expected to be violated with
\* Win > 0): both ends reset while both directions wait for window - each
\* closing channel drops the other's data unaccounted, no WINDOW_ADJUST is
\* ever sent, neither close_pending channel gets to send its CLOSE
ChannelsEnd == Quiescent /\ S.conn = "up" /\ S.pair.O = "closed" /\ S.pair.A = "closed"
                   => S.ch.O.s = "closed" /\ S.ch.A.s = "closed"
NoProtocolError == S.conn = "cut" => S.envcut

NoLateChanEof ==
    NoEofRelay \/ \A x \in {"O", "A"} :
        S.pair[x] = "up" /\ S.fEof[End(x)] => S.ch[x].s # "open"

TypeOK ==
    /\ S.appSt.L \in {"open", "closed"} /\ S.appSt.R \in {"none", "open", "closed"}
    /\ S.sock.L \in {"open", "closed"} /\ S.sock.R \in {"none", "open", "closed"}
    /\ S.pair.O \in {"pre", "up", "zombie", "closed"}
    /\ S.pair.A \in {"none", "up", "closed"}
    /\ Len(S.qOA) <= 2 * MaxW + 4 /\ Len(S.qAO) <= 2 * MaxW + 4

\* vacuity witnesses (expected to be violated = reachable)
NeverZombie == S.pair.O # "zombie"
NeverBothHalfDead ==
    ~(Quiescent /\ S.conn = "up" /\ S.appSt.L = "closed" /\ S.appSt.R = "closed"
      /\ S.sock.L = "open" /\ S.sock.R = "open" /\ ~S.reset.L /\ ~S.reset.R)
NeverEarlyFlush == ~(S.confirmed /\ Len(S.rcvd.R) >= 2 /\ Len(S.qOA) = 0 /\ S.ch.O.s = "eof")
=============================================================================
