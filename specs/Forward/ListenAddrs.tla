---------------------------- MODULE ListenAddrs ----------------------------
(***************************************************************************)
(* A listen host that resolves to several addresses                        *)
(* (listener.py create_tcp_local_listener 274-343, used by                 *)
(* forward_local_port, forward_socks and - on the server, for              *)
(* tcpip-forward - forward_remote_port): the addresses returned by the     *)
(* resolver are bound one after the other; a listener on port 0 takes the  *)
(* port the first address got for all others; each bind succeeds or fails  *)
(* on its own (port busy on that address, no permission).  When a bind     *)
(* fails the servers already started for earlier addresses are closed and  *)
(* the request fails; when all succeed the listener accepts on every       *)
(* address and every endpoint is released by close / cancel / the end of   *)
(* the connection.  Connections into any address are relayed to the same   *)
(* destination.                                                            *)
(***************************************************************************)
EXTENDS Naturals, FiniteSets, Sequences, TLC

CONSTANTS
    N,                  \* listen requests (one after the other)
    Resolver,           \* possible numbers of addresses a listen host has: subset of 1..3
    Sides,              \* subset of {"local", "socks", "remote"}
    MaxConn,
    LeakOnPartialBind   \* sensitivity: earlier servers stay open when a later bind fails

Reqs == 1..N
Addrs == 1..3
NoCfg == [side |-> "-", n |-> 0, port |-> "-", busy |-> {}]

VARIABLES
    conn,     \* "up" | "dead"
    cfg,      \* request -> [side, n addresses, port "dyn"|"fix", busy: addresses whose bind fails]
    st,       \* request -> "none" | "open" | "failed" | "closed"
    ep,       \* request -> set of addresses with an accepting endpoint
    nconn,
    last,     \* last connection: [k, a, got]  got = k served | 0 refused
    lbl

vars == <<conn, cfg, st, ep, nconn, last, lbl>>

Init ==
    /\ conn = "up" /\ cfg = [k \in Reqs |-> NoCfg] /\ st = [k \in Reqs |-> "none"]
    /\ ep = [k \in Reqs |-> {}] /\ nconn = 0 /\ last = [k |-> 0, a |-> 0, got |-> 0]
    /\ lbl = <<"init">>

\* addresses bound before the first failing one
Before(c) == {a \in 1..c.n : \A b \in c.busy : a < b}
Cfgs == {c \in [side : Sides, n : Resolver, port : {"dyn", "fix"}, busy : SUBSET Addrs] :
            /\ c.busy \subseteq 1..c.n
            \* the port of a dynamic listener is only known after the first bind
            /\ (c.port = "dyn" => 1 \notin c.busy)}

Listen(k, c) ==
    /\ conn = "up" /\ st[k] = "none" /\ \A j \in 1..(k-1) : st[j] \notin {"none", "open"}
    /\ cfg' = [cfg EXCEPT ![k] = c]
    /\ IF c.busy = {}
       THEN st' = [st EXCEPT ![k] = "open"]
            /\ ep' = [ep EXCEPT ![k] = {a \in Addrs : a <= c.n}]   \* (not 1..n: printed enumerated)
       ELSE /\ st' = [st EXCEPT ![k] = "failed"]
            /\ ep' = [ep EXCEPT ![k] = IF LeakOnPartialBind THEN Before(c) ELSE {}]
    /\ lbl' = <<"listen", k, [side |-> c.side, n |-> c.n, port |-> c.port,
                             busy |-> c.busy], c.busy = {}>>
    /\ UNCHANGED <<conn, nconn, last>>

\* a connection into address a of request k's listen host
Connect(k, a) ==
    /\ st[k] # "none" /\ a \in 1..cfg[k].n /\ nconn < MaxConn
    /\ a \notin cfg[k].busy     \* (a busy address belongs to somebody else)
    /\ last' = [k |-> k, a |-> a, got |-> IF a \in ep[k] /\ conn = "up" THEN k ELSE 0]
    /\ nconn' = nconn + 1
    /\ lbl' = <<"connect", k, a, last'.got>>
    /\ UNCHANGED <<conn, cfg, st, ep>>

\* listener.close() / cancel by its holder
Close(k) ==
    /\ conn = "up" /\ st[k] = "open"
    /\ st' = [st EXCEPT ![k] = "closed"] /\ ep' = [ep EXCEPT ![k] = {}]
    /\ lbl' = <<"close", k>>
    /\ UNCHANGED <<conn, cfg, nconn, last>>

ConnEnd(h) ==
    /\ conn = "up"
    /\ conn' = "dead"
    /\ st' = [k \in Reqs |-> IF st[k] = "open" THEN "closed" ELSE st[k]]
    \* _cleanup closes the listeners that are recorded: leaked endpoints of a
    \* failed request are not
    /\ ep' = [k \in Reqs |-> IF st[k] = "open" THEN {} ELSE ep[k]]
    /\ lbl' = <<"end", h>>
    /\ UNCHANGED <<cfg, nconn, last>>

Next ==
    \/ \E k \in Reqs, c \in Cfgs : Listen(k, c)
    \/ \E k \in Reqs, a \in Addrs : Connect(k, a)
    \/ \E k \in Reqs : Close(k)
    \/ \E h \in {"cclose", "sclose", "loss"} : ConnEnd(h)

Spec == Init /\ [][Next]_vars

-----------------------------------------------------------------------------
\* a listen request that fails leaves no endpoint accepting; nor does a
\* closed listener or an ended connection
NoListenerLeft == \A k \in Reqs : st[k] \in {"failed", "closed", "none"} => ep[k] = {}
\* one that succeeds listens on all addresses
AllAddresses == \A k \in Reqs : st[k] = "open" => ep[k] = {a \in Addrs : a <= cfg[k].n}
\* a connection is served exactly by an open listener
ServedIffOpen == last.k # 0 => (last.got = last.k) = (st[last.k] = "open" /\ conn = "up")
                              \/ lbl[1] # "connect"

\* witness
NeverPartial == ~(\E k \in Reqs : st[k] = "failed" /\ Before(cfg[k]) # {})
=============================================================================
