---------------------------- MODULE ForwardTrace ----------------------------
(***************************************************************************)
(* Code -> spec conformance for Forward.tla: forwarded connections         *)
(* RECORDED from naturally scheduled runs (independent asyncio tasks at    *)
(* the application ends L and R writing / half-closing / closing /         *)
(* resetting at seeded random virtual times, early data before the channel *)
(* is confirmed, refusals, SSH connection loss, listener close, random     *)
(* segmentation and stalls on the SSH link and on both application         *)
(* sockets) are checked to be behaviours of Forward.tla.                   *)
(*                                                                         *)
(* One event per spec action, logged at its linearization point, which is  *)
(* always a callback of a forwarder or of an SSH connection (the           *)
(* application ends are only seen through their sockets):                  *)
(*   W e      FL / P .data_received returned (one call = one data unit of  *)
(*            end e; usz[e] lists the unit sizes in bytes)                 *)
(*   E e, C e FL / P .eof_received returned (C: the application had closed *)
(*            rather than half-closed); or, when the forwarder's socket is *)
(*            already gone / the FIN was already seen, the application's   *)
(*            own call                                                     *)
(*   X e      the forwarder's socket got connection_lost(ConnectionReset)  *)
(*   DOA ok   the accepting side finished the next channel message         *)
(*            (pkt_done hook; for the open: the moment it wrote the        *)
(*            confirmation / failure, ok = which)                          *)
(*   DAO      the opening side finished the next channel message (for the  *)
(*            confirmation: the moment SSHLocalForwarder._forward had      *)
(*            flushed the early data, one loop iteration after pkt_done)   *)
(*   CUT x    the SSH transport was cut at side x and both sides cleaned up*)
(*   LSN      listener.close()                                             *)
(* Each event carries what the acting side put on the wire during the step *)
(* (out: <<message kind, payload bytes>>) and that side's state afterwards *)
(* (socket, forwarder pair, channel send / receive state, early buffer in  *)
(* bytes, the _eof_received flags, bytes handed to the application so      *)
(* far).  "closed" is logical: a channel whose CLOSE has been processed    *)
(* counts as closed although asyncssh runs its clean-up one loop iteration *)
(* later.  Every variable the step can change is bound, the search is      *)
(* linear.                                                                 *)
(***************************************************************************)
EXTENDS Forward, Json, IOUtils, TLCExt

CONSTANT Strict

Traces == JsonDeserialize(IOEnv.TRACE_FILE)

VARIABLES tid, l
tvars == <<S, lbl, tid, l>>

TraceInit == Init /\ tid \in 1..Len(Traces) /\ l = 1

\* bytes of a sequence of data units written by end e
RECURSIVE Bytes(_, _)
Bytes(e, seq) == IF seq = <<>> THEN 0
                 ELSE Traces[tid].usz[e][Head(seq)] + Bytes(e, Tail(seq))

\* messages side x appended to its outgoing queue in this step, as <<kind, bytes>>
Appended(x) ==
    LET q0 == IF x = "O" THEN S.qOA ELSE S.qAO
        q1 == IF x = "O" THEN S'.qOA ELSE S'.qAO
    IN [i \in 1..(Len(q1) - Len(q0)) |->
          LET m == q1[Len(q0) + i] IN <<m.t, Bytes(End(x), m.ds)>>]
AsPairs(o) == [i \in 1..Len(o) |-> <<o[i][1], o[i][2]>>]

MOut(e, T)   == Appended(e.side) = AsPairs(e.out)
MSock(e, T)  == T.sock[End(e.side)] = e.st.sock
MPair(e, T)  == T.pair[e.side] = e.st.pair
MChs(e, T)   == T.ch[e.side].s = e.st.chs
MChr(e, T)   == T.ch[e.side].r = e.st.chr
MBuf(e, T)   == (e.side = "O" /\ T.pair.O = "pre") => Bytes("L", T.buf) = e.st.buf
MFeof(e, T)  == T.sock[End(e.side)] = "open" => T.fEof[End(e.side)] = e.st.feof
MCeof(e, T)  == T.pair[e.side] = "up" => T.cEof[e.side] = e.st.ceof
MOutb(e, T)  == Bytes(Other(End(e.side)), T.rcvd[End(e.side)]) = e.st.outb
MState(e, T) == /\ MSock(e, T) /\ MPair(e, T) /\ MChs(e, T) /\ MChr(e, T)
                /\ MBuf(e, T) /\ MFeof(e, T) /\ MCeof(e, T) /\ MOutb(e, T)

Match(e) ==
    CASE e.e = "CUT" -> /\ (S'.sock.L = "open") = (e.st.sockL = "open")
                        /\ (S'.sock.R = "open") = (e.st.sockR = "open")
                        /\ S'.lsn = e.st.lsn
      [] e.e = "LSN" -> S'.lsn = "closed"
      [] e.e \in {"E", "C"} /\ e.late -> TRUE     \* the application's own call
      [] e.e = "DOA" /\ e.first -> MOut(e, S') /\ (e.ok => S'.sock.R = "open")
      [] OTHER -> MOut(e, S') /\ MState(e, S')

TraceStep ==
    /\ l <= Len(Traces[tid].ev)
    /\ LET e == Traces[tid].ev[l] IN
         /\ \/ e.e = "W" /\ Write(e.end)
            \/ e.e = "E" /\ Eof(e.end)
            \/ e.e = "C" /\ Close(e.end)
            \/ e.e = "X" /\ Reset(e.end)
            \/ e.e = "DOA" /\ DeliverOA(e.ok)
            \/ e.e = "DAO" /\ DeliverAO
            \/ e.e = "CUT" /\ Cut(e.x)
            \/ e.e = "LSN" /\ LsnClose
         /\ Strict => Match(e)
    /\ l' = l + 1
    /\ UNCHANGED tid

TraceSpec == TraceInit /\ [][TraceStep]_tvars

TraceProgress ==
    /\ IF l = 1 THEN TLCSet(tid, 0) ELSE TRUE
    /\ IF l - 1 > TLCGet(tid) THEN TLCSet(tid, l - 1) ELSE TRUE
TraceReport ==
    \A i \in 1..Len(Traces) :
        PrintT(<<"TRACE", i, TLCGet(i), Len(Traces[i].ev)>>)

\* the C20 properties of Forward.tla in every state of every recorded execution
TraceInv == /\ RelayFIFO /\ Complete /\ HalfClose /\ Teardown /\ CloseBoth
            /\ Released /\ FailureClean /\ NoListenerLeft /\ NoLateChanEof

\* diagnosis (Strict = FALSE, one trace): evaluated on the state reached after event l-1
Prev == Traces[tid].ev[l - 1]
HasSt == l > 1 /\ Prev.e \in {"W", "E", "C", "X", "DOA", "DAO"}
         /\ ~(Prev.e = "DOA" /\ Prev.first) /\ ~(Prev.e \in {"E", "C"} /\ Prev.late)
DiagSock == HasSt => MSock(Prev, S)
DiagPair == HasSt => MPair(Prev, S)
DiagChs  == HasSt => MChs(Prev, S)
DiagChr  == HasSt => MChr(Prev, S)
DiagBuf  == HasSt => MBuf(Prev, S)
DiagFeof == HasSt => MFeof(Prev, S)
DiagCeof == HasSt => MCeof(Prev, S)
DiagOutb == HasSt => MOutb(Prev, S)
\* the messages of the last step are the tail of the side's outgoing queue
\* unless the other side has consumed some since: only a lower bound
DiagOut == HasSt =>
    LET q == IF Prev.side = "O" THEN S.qOA ELSE S.qAO
        n == Len(Prev.out)
    IN Len(q) >= n /\
       [i \in 1..n |-> <<q[Len(q) - n + i].t,
                         Bytes(End(Prev.side), q[Len(q) - n + i].ds)>>] = AsPairs(Prev.out)
DiagCut == (l > 1 /\ Prev.e = "CUT") =>
               /\ (S.sock.L = "open") = (Prev.st.sockL = "open")
               /\ (S.sock.R = "open") = (Prev.st.sockR = "open") /\ S.lsn = Prev.st.lsn
=============================================================================
