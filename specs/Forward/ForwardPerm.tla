---------------------------- MODULE ForwardPerm ----------------------------
(***************************************************************************)
(* Which forwarding requests an asyncssh server serves.                    *)
(*                                                                         *)
(* One case (row) = request kind x options of the authorized_keys entry    *)
(* the client authenticated with x user certificate x what the server      *)
(* application's callback answers x destination.  Every row is an initial  *)
(* state; the behaviour of a row is: the request is decided (Decide, the   *)
(* procedure of connection.py 6370-6434, 6436-6501, 6529-6634 with its     *)
(* early exits), for listen requests the listener may then be cancelled    *)
(* (6503-6527, 6636-6658), finally the SSH connection ends (_cleanup       *)
(* 1078-1079).                                                             *)
(*                                                                         *)
(* Requirement (C20): a request is served only if the credential's         *)
(* restrictions and the application permit that destination                *)
(*   - authorized_keys option no-port-forwarding forbids all forwarding    *)
(*   - a user certificate must carry permit-port-forwarding                *)
(*   - permitopen="host:port" / "host:*" restricts the destinations of     *)
(*     direct-tcpip opens (also those made for a SOCKS client) to the      *)
(*     listed literal host with that / any port; like OpenSSH it does not  *)
(*     restrict listens or UNIX-domain destinations                        *)
(*   - the application callback (connection_requested, server_requested,   *)
(*     unix_connection_requested, unix_server_requested) must accept       *)
(* and no listener survives its cancellation or its connection.            *)
(***************************************************************************)
EXTENDS Naturals, Sequences, FiniteSets, TLC

CONSTANTS
    SkipPermitOpen,     \* sensitivity: the permitopen test is skipped
    SkipCert,           \* sensitivity: the certificate permission is not consulted
    EmptySetMeansNoCert, \* sensitivity: a certificate whose option set is empty
                        \*   is treated like a login without certificate
    LeakOnCancel        \* sensitivity: cancel forgets the listener without closing it

OpenReqs == {"direct-tcpip", "socks", "direct-streamlocal"}
ListenReqs == {"tcpip-forward", "streamlocal-forward"}
Reqs == OpenReqs \cup ListenReqs
KeyOpts == {"none", "no-port-forwarding", "permitopen-hp", "permitopen-hstar"}
\* the user certificate: none, or the set of permit-* extensions it carries
\* ("without" = all but permit-port-forwarding, "with" = all five; the others:
\* the empty set, each single extension)
Certs == {"none", "without", "with"}
CertSets == {"empty", "pf", "pty", "x11", "agent", "rc", "without", "with"}
HasPF(c) == c \in {"pf", "with"}
\* critical options of the certificate: none, force-command, source-address
\* that matches the client / does not (then the login itself fails)
Crits == {"none", "force-command", "source-ok", "source-bad"}
KeyOpts2 == {"none", "restrict", "no-port-forwarding", "permitopen-hp"}
Apps == {"false", "true", "raises", "factory"}
Dests == {"permitted", "otherhost", "otherport", "alias"}

\* "alias" is a host name that resolves to the permitted address; "factory"
\* means: the callback returns a session handler (opens) / a listener or an
\* accept handler (listens) instead of True; only open callbacks may raise
\* ChannelOpenError; only TCP opens have several destinations
ValidRow(r) ==
    /\ (r.req \notin {"direct-tcpip", "socks"} => r.dest = "permitted")
    /\ (r.req \in ListenReqs => r.app # "raises")

Rows1 == {r \in [req : Reqs, key : KeyOpts, cert : Certs, crit : {"none"},
                  app : Apps, dest : Dests] : ValidRow(r)}
\* the certificate's option set x critical options x options of the CA line
Rows2 == {r \in [req : Reqs \ {"socks"}, key : KeyOpts2, cert : CertSets, crit : Crits,
                  app : {"true", "false"}, dest : {"permitted"}] :
            r.crit # "none" => r.cert \in {"empty", "pf", "without", "with"}}
Rows == Rows1 \cup Rows2

VARIABLES row, phase, served, listeners, lbl
vars == <<row, phase, served, listeners, lbl>>

-----------------------------------------------------------------------------
(* The requirement, declaratively *)

CredentialAllows(r) ==
    /\ r.key \notin {"no-port-forwarding", "restrict"}
    /\ (r.cert = "none" \/ HasPF(r.cert))    \* no certificate # empty certificate
    /\ r.crit # "source-bad"

DestinationAllowed(r) ==
    IF r.req \in {"direct-tcpip", "socks"}
    THEN CASE r.key = "permitopen-hp"    -> r.dest = "permitted"
           [] r.key = "permitopen-hstar" -> r.dest \in {"permitted", "otherport"}
           [] OTHER -> TRUE
    ELSE TRUE

AppAccepts(r) == r.app \in {"true", "factory"}

Permitted(r) == CredentialAllows(r) /\ DestinationAllowed(r) /\ AppAccepts(r)

-----------------------------------------------------------------------------
(* The decision procedure of the code *)

\* authorized_keys options / certificate options as the connection holds them
KeyNoPF(r) == r.key \in {"no-port-forwarding", "restrict"}
PermitOpens(r) == CASE r.key = "permitopen-hp"    -> {<<"H", "P">>}
                    [] r.key = "permitopen-hstar" -> {<<"H", "ANY">>}
                    [] OTHER -> {}
\* _cert_options: None without certificate, else the dict of its options
CertOptions(r) == CASE r.cert = "none" -> "nocert"
                    [] r.cert = "empty" /\ r.crit \in {"none", "source-bad"}
                                       /\ EmptySetMeansNoCert -> "nocert"
                    [] HasPF(r.cert)   -> "permit"
                    [] OTHER -> "nopermit"
Dest(r) == CASE r.dest = "permitted" -> <<"H", "P">>
             [] r.dest = "otherhost" -> <<"H2", "P">>
             [] r.dest = "otherport" -> <<"H", "P2">>
             [] OTHER -> <<"Halias", "P">>

CheckKeyPermission(r) == ~KeyNoPF(r)
CheckCertPermission(r) == SkipCert \/ CertOptions(r) \in {"nocert", "permit"}

Decide(r) ==
    IF r.crit = "source-bad" THEN "noauth"
    ELSE IF ~CheckKeyPermission(r) \/ ~CheckCertPermission(r) THEN "prohibited"
    ELSE IF r.req \in {"direct-tcpip", "socks"} /\ ~SkipPermitOpen
            /\ PermitOpens(r) # {}
            /\ Dest(r) \notin PermitOpens(r)
            /\ <<Dest(r)[1], "ANY">> \notin PermitOpens(r) THEN "prohibited"
    ELSE CASE r.app = "false"  -> "refused"
           [] r.app = "raises" -> "refused"
           [] OTHER -> "served"

-----------------------------------------------------------------------------
Init ==
    /\ row \in Rows
    /\ phase = "new" /\ served = FALSE /\ listeners = {}
    /\ lbl = <<"init">>

Request ==
    /\ phase = "new"
    /\ served' = (Decide(row) = "served")
    /\ listeners' = IF Decide(row) = "served" /\ row.req \in ListenReqs
                    THEN {"fwd"} ELSE {}
    /\ phase' = "decided"
    /\ lbl' = <<"request", Decide(row)>>
    /\ UNCHANGED row

Cancel ==
    /\ phase = "decided" /\ listeners # {}
    /\ listeners' = IF LeakOnCancel THEN listeners ELSE {}
    /\ phase' = "cancelled"
    /\ lbl' = <<"cancel">>
    /\ UNCHANGED <<row, served>>

ConnClose ==
    /\ phase \in {"decided", "cancelled"}
    \* _cleanup closes what is still in _local_listeners; a listener that
    \* cancel forgot without closing is not there any more
    /\ listeners' = IF phase = "cancelled" THEN listeners ELSE {}
    /\ phase' = "closed"
    /\ lbl' = <<"connclose">>
    /\ UNCHANGED <<row, served>>

Next == Request \/ Cancel \/ ConnClose
Spec == Init /\ [][Next]_vars

-----------------------------------------------------------------------------
ServedOnlyIfPermitted == served => Permitted(row)
ServedIffPermitted == phase # "new" => (served <=> Permitted(row))
ListenerOnlyIfServed == listeners # {} => served /\ row.req \in ListenReqs
NoListenerAfterCancel == phase = "cancelled" => listeners = {}
NoListenerLeft == phase = "closed" => listeners = {}

\* the case table: one line per row
Dump == phase = "new" =>
            PrintT(ToString(<<"ROW", row, Decide(row), Permitted(row)>>))

\* vacuity witnesses
NeverServed == ~served
NeverProhibitedByPermitOpen ==
    ~(phase = "decided" /\ ~served /\ CredentialAllows(row) /\ AppAccepts(row))
=============================================================================
