---------------------------- MODULE ListenAsync ----------------------------
(***************************************************************************)
(* Forwarding listeners whose creation is asynchronous, against the end of *)
(* their SSH connection.                                                   *)
(*                                                                         *)
(* A listen request k is either "remote" (tcpip-forward /                  *)
(* streamlocal-forward global request: connection.py                       *)
(* _process_tcpip_forward_global_request -> task _finish_port_forward:     *)
(* the server application's server_requested() / unix_server_requested()   *)
(* may return an awaitable that completes later (Decide); on acceptance    *)
(* the listener is set up by forward_local_port / forward_local_path,      *)
(* which awaits name resolution and the socket set-up (SetupDone); only    *)
(* then is the listener stored in _local_listeners and the request         *)
(* answered) or "local" (the application called forward_local_port /       *)
(* forward_socks / forward_local_path on its own connection: only the      *)
(* set-up phase).  Meanwhile the connection may end: closed by the client, *)
(* closed by the server, or lost (ConnEnd): _cleanup closes the listeners  *)
(* that are stored at that moment.  A listener the client holds can be     *)
(* cancelled (Cancel) while the connection is up.                          *)
(*                                                                         *)
(* ListenersReleased: once the connection has ended and no decision or     *)
(* set-up is still pending, no listening socket of it is left.             *)
(***************************************************************************)
EXTENDS Naturals, FiniteSets, Sequences, TLC

CONSTANTS
    N,            \* listen requests
    Sides,        \* subset of {"remote", "local"}
    Fams,         \* subset of {"tcp", "unix"}
    LateStore     \* sensitivity / model of the code before e495612 and of the
                  \*   client side as it is: a listener that becomes ready after
                  \*   the connection ended is stored (and stays open) instead
                  \*   of being closed; set of sides for which this happens

Reqs == 1..N
NoReq == [side |-> "-", fam |-> "-"]

VARIABLES
    conn,     \* "up" | "dead"
    how,      \* how it ended: "-" | "cclose" | "sclose" | "loss"
    cfg,      \* request -> [side, fam]
    st,       \* request -> "none" | "queued" | "deciding" | "setup" | "open" | "refused"
              \*            | "cancelled" | "closed" | "late"
    socks,    \* requests whose listening socket is open
    lbl

vars == <<conn, how, cfg, st, socks, lbl>>

Init ==
    /\ conn = "up" /\ how = "-"
    /\ cfg = [k \in Reqs |-> NoReq] /\ st = [k \in Reqs |-> "none"]
    /\ socks = {} /\ lbl = <<"init">>

\* the server handles global requests one at a time: the next one is looked
\* at when the previous one has been answered (connection.py 2220-2246), and
\* none any more once the connection was cleaned up
RemoteBusy(f, g) == \E j \in Reqs : g[j].side = "remote" /\ f[j] \in {"deciding", "setup", "queued"}
Advance(f) ==
    IF conn = "up" /\ ~(\E j \in Reqs : cfg[j].side = "remote" /\ f[j] \in {"deciding", "setup"})
       /\ (\E j \in Reqs : f[j] = "queued")
    THEN LET j == CHOOSE j \in Reqs : f[j] = "queued" /\ \A i \in Reqs : f[i] = "queued" => j <= i
         IN [f EXCEPT ![j] = "deciding"]
    ELSE f

Request(k, c) ==
    /\ conn = "up" /\ st[k] = "none" /\ \A j \in 1..(k-1) : st[j] # "none"
    /\ cfg' = [cfg EXCEPT ![k] = c]
    /\ st' = [st EXCEPT ![k] = IF c.side = "local" THEN "setup"
                               ELSE IF RemoteBusy(st, cfg) THEN "queued" ELSE "deciding"]
    /\ lbl' = <<"request", k, c>>
    /\ UNCHANGED <<conn, how, socks>>

\* the server application's awaitable completes
Decide(k, ok) ==
    /\ st[k] = "deciding"
    /\ st' = IF ok THEN [st EXCEPT ![k] = "setup"]
             ELSE Advance([st EXCEPT ![k] = "refused"])
    /\ lbl' = <<"decide", k, ok>>
    /\ UNCHANGED <<conn, how, cfg, socks>>

\* name resolution / socket set-up completes: the listening socket exists
SetupDone(k) ==
    /\ st[k] = "setup"
    /\ IF conn = "up"
       THEN st' = Advance([st EXCEPT ![k] = "open"]) /\ socks' = socks \cup {k}
       ELSE IF cfg[k].side \in LateStore
       THEN st' = [st EXCEPT ![k] = "late"] /\ socks' = socks \cup {k}
       ELSE st' = [st EXCEPT ![k] = "closed"] /\ UNCHANGED socks
    /\ lbl' = <<"setup", k>>
    /\ UNCHANGED <<conn, how, cfg>>

\* listener.close() by its holder (the client) while the connection is up
\* (a remote listener is cancelled by a global request of its own, which
\* waits its turn: only modelled when the server is idle)
Cancel(k) ==
    /\ conn = "up" /\ st[k] = "open"
    /\ (cfg[k].side = "remote" => ~RemoteBusy(st, cfg))
    /\ st' = [st EXCEPT ![k] = "cancelled"] /\ socks' = socks \ {k}
    /\ lbl' = <<"cancel", k>>
    /\ UNCHANGED <<conn, how, cfg>>

ConnEnd(h) ==
    /\ conn = "up"
    /\ conn' = "dead" /\ how' = h
    /\ st' = [k \in Reqs |-> IF st[k] = "open" THEN "closed" ELSE st[k]]
    /\ socks' = {k \in socks : st[k] # "open"}
    /\ lbl' = <<"end", h>>
    /\ UNCHANGED cfg

Cfgs == [side : Sides, fam : Fams]
Next ==
    \/ \E k \in Reqs, c \in Cfgs : Request(k, c)
    \/ \E k \in Reqs, ok \in BOOLEAN : Decide(k, ok)
    \/ \E k \in Reqs : SetupDone(k) \/ Cancel(k)
    \/ \E h \in {"cclose", "sclose", "loss"} : ConnEnd(h)

Spec == Init /\ [][Next]_vars

-----------------------------------------------------------------------------
Pending == \E k \in Reqs : st[k] \in {"deciding", "setup"}
ListenersReleased == (conn = "dead" /\ ~Pending) => socks = {}
\* while the connection is up exactly the open listeners listen
SocketsExact == conn = "up" => socks = {k \in Reqs : st[k] = "open"}
NoLateListener == \A k \in Reqs : st[k] # "late"

\* witnesses
NeverSetupAfterEnd == ~(\E k \in Reqs : st[k] = "closed" /\ conn = "dead" /\ lbl[1] = "setup")
=============================================================================
