---------------------------- MODULE ListenAsync ----------------------------
(***************************************************************************)
(* Forwarding listeners whose creation is asynchronous, against the end of *)
(* their SSH connection.                                                   *)
(*                                                                         *)
(* A listen request k is either "remote" (tcpip-forward /                  *)
(* streamlocal-forward global request: connection.py                       *)
(* _process_tcpip_forward_global_request -> task _finish_port_forward:     *)
(* the server application's server_requested() / unix_server_requested()   *)
(* may return an awaitable that completes later (Decide); on acceptance    *)
(* the listener is set up by forward_local_port / forward_local_path,      *)
(* which awaits name resolution and the socket set-up (SetupDone); only    *)
(* then is the listener stored in _local_listeners and the request         *)
(* answered) or "local" (the application called forward_local_port /       *)
(* forward_socks / forward_local_path on its own connection: only the      *)
(* set-up phase).  Meanwhile the connection may end: closed by the client, *)
(* closed by the server, or lost (ConnEnd): _cleanup closes the listeners  *)
(* that are stored at that moment.  A listener the client holds can be     *)
(* cancelled (Cancel) while the connection is up.                          *)
(*                                                                         *)
(* ListenersReleased: once the connection has ended and no decision or     *)
(* set-up is still pending, no listening socket of it is left.             *)
(***************************************************************************)
EXTENDS Naturals, FiniteSets, Sequences, TLC

CONSTANTS
    N,            \* listen requests
    Sides,        \* subset of {"remote", "local"}
    Fams,         \* subset of {"tcp", "unix"}
    Answers,      \* what the server application answers to a listen request:
                  \*   subset of {"false", "true", "callable", "applistener",
                  \*   "otherconn"}: refuse / let asyncssh listen / an accept
                  \*   callable (asyncssh listens) / an SSHListener object of its
                  \*   own / one that lives on another connection
    UntrackedAppListener, \* sensitivity: a listener object supplied by the
                  \*   application is not recorded in _local_listeners
    LateStore     \* sensitivity / model of the code before e495612 and of the
                  \*   client side as it is: a listener that becomes ready after
                  \*   the connection ended is stored (and stays open) instead
                  \*   of being closed; set of sides for which this happens

Reqs == 1..N
NoReq == [side |-> "-", fam |-> "-", ans |-> "-"]
AppAns == {"applistener", "otherconn"}

VARIABLES
    conn,     \* "up" | "dead"
    how,      \* how it ended: "-" | "cclose" | "sclose" | "loss"
    cfg,      \* request -> [side, fam]
    st,       \* request -> "none" | "queued" | "deciding" | "setup" | "open" | "refused"
              \*            | "cancelled" | "closed" | "late"
    socks,    \* requests whose listening socket is open
    closes,   \* request -> number of close() calls on the listener that served it
    lbl

vars == <<conn, how, cfg, st, socks, closes, lbl>>

Init ==
    /\ conn = "up" /\ how = "-"
    /\ cfg = [k \in Reqs |-> NoReq] /\ st = [k \in Reqs |-> "none"]
    /\ socks = {} /\ closes = [k \in Reqs |-> 0] /\ lbl = <<"init">>

\* the server handles global requests one at a time: the next one is looked
\* at when the previous one has been answered (connection.py 2220-2246), and
\* none any more once the connection was cleaned up
RemoteBusy(f, g) == \E j \in Reqs : g[j].side = "remote" /\ f[j] \in {"deciding", "setup", "queued"}
Advance(f) ==
    IF conn = "up" /\ ~(\E j \in Reqs : cfg[j].side = "remote" /\ f[j] \in {"deciding", "setup"})
       /\ (\E j \in Reqs : f[j] = "queued")
    THEN LET j == CHOOSE j \in Reqs : f[j] = "queued" /\ \A i \in Reqs : f[i] = "queued" => j <= i
         IN [f EXCEPT ![j] = "deciding"]
    ELSE f

Request(k, c) ==
    /\ conn = "up" /\ st[k] = "none" /\ \A j \in 1..(k-1) : st[j] # "none"
    /\ cfg' = [cfg EXCEPT ![k] = c]
    /\ st' = [st EXCEPT ![k] = IF c.side = "local" THEN "setup"
                               ELSE IF RemoteBusy(st, cfg) THEN "queued" ELSE "deciding"]
    /\ lbl' = <<"request", k, c>>
    /\ UNCHANGED <<conn, how, socks, closes>>

\* the server application's awaitable completes
Untracked(k) == UntrackedAppListener /\ cfg[k].ans \in AppAns

Decide(k, ok) ==
    /\ st[k] = "deciding"
    /\ ok = (cfg[k].ans # "false")
    /\ IF ~ok
       THEN st' = Advance([st EXCEPT ![k] = "refused"]) /\ UNCHANGED <<socks, closes>>
       ELSE IF cfg[k].ans \notin AppAns
       THEN st' = [st EXCEPT ![k] = "setup"] /\ UNCHANGED <<socks, closes>>
       \* the application hands over a listener that is already listening
       ELSE IF conn = "up"
       THEN st' = Advance([st EXCEPT ![k] = "open"]) /\ socks' = socks \cup {k}
            /\ UNCHANGED closes
       ELSE st' = [st EXCEPT ![k] = "closed"] /\ UNCHANGED socks
            /\ closes' = [closes EXCEPT ![k] = @ + 1]
    /\ lbl' = <<"decide", k, ok>>
    /\ UNCHANGED <<conn, how, cfg>>

\* name resolution / socket set-up completes: the listening socket exists
SetupDone(k) ==
    /\ st[k] = "setup"
    /\ IF conn = "up"
       THEN st' = Advance([st EXCEPT ![k] = "open"]) /\ socks' = socks \cup {k}
       ELSE IF cfg[k].side \in LateStore
       THEN st' = [st EXCEPT ![k] = "late"] /\ socks' = socks \cup {k}
       ELSE st' = [st EXCEPT ![k] = "closed"] /\ UNCHANGED socks
    /\ closes' = IF conn # "up" /\ cfg[k].side \notin LateStore
                 THEN [closes EXCEPT ![k] = @ + 1] ELSE closes
    /\ lbl' = <<"setup", k>>
    /\ UNCHANGED <<conn, how, cfg>>

\* listener.close() by its holder (the client) while the connection is up
\* (a remote listener is cancelled by a global request of its own, which
\* waits its turn: only modelled when the server is idle)
Cancel(k) ==
    /\ conn = "up" /\ st[k] = "open"
    /\ (cfg[k].side = "remote" => ~RemoteBusy(st, cfg))
    /\ IF Untracked(k)
       THEN \* cancel-tcpip-forward does not find it: ProtocolError, the whole
            \* connection goes down; _cleanup closes what IS recorded
            /\ conn' = "dead" /\ how' = "perr"
            /\ st' = [j \in Reqs |-> IF st[j] = "open" /\ ~Untracked(j)
                                     THEN "closed" ELSE st[j]]
            /\ socks' = {j \in socks : st[j] # "open" \/ Untracked(j)}
            /\ closes' = [j \in Reqs |-> IF st[j] = "open" /\ ~Untracked(j)
                                         THEN closes[j] + 1 ELSE closes[j]]
       ELSE /\ st' = [st EXCEPT ![k] = "cancelled"] /\ socks' = socks \ {k}
            /\ closes' = [closes EXCEPT ![k] = @ + 1]
            /\ UNCHANGED <<conn, how>>
    /\ lbl' = <<"cancel", k>>
    /\ UNCHANGED cfg

ConnEnd(h) ==
    /\ conn = "up"
    /\ conn' = "dead" /\ how' = h
    /\ st' = [k \in Reqs |-> IF st[k] = "open" /\ ~Untracked(k) THEN "closed" ELSE st[k]]
    /\ socks' = {k \in socks : st[k] # "open" \/ Untracked(k)}
    /\ closes' = [k \in Reqs |-> IF st[k] = "open" /\ ~Untracked(k)
                                 THEN closes[k] + 1 ELSE closes[k]]
    /\ lbl' = <<"end", h>>
    /\ UNCHANGED cfg

\* (unix_server_requested has no accept-handler answer)
Cfgs == {c \in [side : Sides \cap {"remote"}, fam : Fams, ans : Answers] :
            ~(c.fam = "unix" /\ c.ans = "callable")}
          \cup [side : Sides \cap {"local"}, fam : Fams, ans : {"-"}]
Next ==
    \/ \E k \in Reqs, c \in Cfgs : Request(k, c)
    \/ \E k \in Reqs, ok \in BOOLEAN : Decide(k, ok)
    \/ \E k \in Reqs : SetupDone(k) \/ Cancel(k)
    \/ \E h \in {"cclose", "sclose", "loss"} : ConnEnd(h)

Spec == Init /\ [][Next]_vars

-----------------------------------------------------------------------------
Pending == \E k \in Reqs : st[k] \in {"deciding", "setup"}
ListenersReleased == (conn = "dead" /\ ~Pending) => socks = {}
\* close() is called exactly once on whatever listener served a request, when
\* the forward is cancelled or the connection ends - never twice, never on a
\* listener that is still serving
ClosedOnce ==
    /\ \A k \in Reqs : closes[k] <= 1
    /\ \A k \in Reqs : st[k] \in {"cancelled", "closed"} => closes[k] = 1
    /\ \A k \in Reqs : st[k] = "open" /\ conn = "up" => closes[k] = 0
\* a cancel is answered and leaves the connection up
CancelKeepsConnection == how # "perr"
\* while the connection is up exactly the open listeners listen
SocketsExact == conn = "up" => socks = {k \in Reqs : st[k] = "open"}
NoLateListener == \A k \in Reqs : st[k] # "late"

\* witnesses
NeverSetupAfterEnd == ~(\E k \in Reqs : st[k] = "closed" /\ conn = "dead" /\ lbl[1] = "setup")
=============================================================================
