CONSTANTS
  MaxIn = 27
  MaxName = 255
  Runs = {255, 256}
  Fixed = TRUE
SPECIFICATION Spec
CHECK_DEADLOCK FALSE
VIEW view
INVARIANT TypeOK
PROPERTY AfterClose
INVARIANT NoRaise
INVARIANT ClosedIsFinal
INVARIANT Progress
INVARIANT ConnectWellFormed
INVARIANT NoReplyUnlessAsked
INVARIANT OutOnlyWhenConnected
