CONSTANTS
  MaxIn = 27
  MaxName = 255
  Runs = {255, 256}
  Fixed = TRUE
SPECIFICATION Spec
CHECK_DEADLOCK FALSE
VIEW view
INVARIANT NeverV6
