------------------------------- MODULE Tunnel -------------------------------
(***************************************************************************)
(* SSH connections opened THROUGH another SSH connection                   *)
(* (asyncssh.connect(..., tunnel=conn), ProxyJump-style chains).           *)
(*                                                                         *)
(* Level 1 is the outer connection A (client -> jump server, a real        *)
(* transport); level i > 1 is carried by a direct-tcpip channel of level   *)
(* i-1 (the jump server relays it to the next server).  A level may have   *)
(* waiters: a session with a pending read, an SFTP request in flight, a    *)
(* wait_closed().  Anything can end at any moment: close / abort of a      *)
(* level, close of the channel that carries it, loss of A's transport      *)
(* (at either end), the level's own server going away - also while the     *)
(* level's key exchange / authentication is still in flight (Progress      *)
(* steps) and right after connect() returned.                              *)
(*                                                                         *)
(* InnerEndsWithOuter   when a level ends, every level above it has its    *)
(*                      connection_lost called exactly once, with an error,*)
(*                      all its waiters resolve, nothing of it stays open  *)
(* OuterSurvivesInner   ending level i leaves the levels below it up and   *)
(*                      usable and releases the channel that carried i     *)
(* ConnectFailsCleanly  a connect() whose carrier dies raises; no          *)
(*                      half-open connection, task or channel is left      *)
(* RelayFIFO            data through the tunnel arrives complete, in order *)
(***************************************************************************)
EXTENDS Naturals, Sequences, FiniteSets, TLC

CONSTANTS
    L,                      \* levels (2 or 3)
    MaxProg,                \* handshake rounds that may be observed
    MaxData,
    InnerOutlivesOuter,     \* wrong: the end of a level is not passed up
    ConnectHangsOnOuterLoss \* wrong: a pending connect() is not woken

Levels == 1..L
Waiters == {"read", "sftp", "wait_closed"}

VARIABLES
    st,      \* level -> "none" | "connecting" | "up" | "dead"
    prog,    \* level -> handshake rounds seen while connecting
    call,    \* level -> connect() call: "none" | "pending" | "ok" | "raised"
    lost,    \* level -> number of connection_lost calls
    err,     \* level -> connection_lost carried an error
    wait,    \* level -> waiters still pending
    hung,    \* level -> waiters that were pending when the level died and stayed so
    carrier, \* level (>1) -> channel on level-1 that carries it: "none"|"open"|"closed"
    sent, rcvd,  \* data units echoed through the top level
    lbl

vars == <<st, prog, call, lost, err, wait, hung, carrier, sent, rcvd, lbl>>

Init ==
    /\ st = [i \in Levels |-> IF i = 1 THEN "up" ELSE "none"]
    /\ prog = [i \in Levels |-> 0]
    /\ call = [i \in Levels |-> IF i = 1 THEN "ok" ELSE "none"]
    /\ lost = [i \in Levels |-> 0] /\ err = [i \in Levels |-> FALSE]
    /\ wait = [i \in Levels |-> {}] /\ hung = [i \in Levels |-> {}]
    /\ carrier = [i \in Levels |-> "none"]
    /\ sent = 0 /\ rcvd = 0 /\ lbl = <<"init">>

\* levels that go down when level i ends by itself (cause: "local" = its own
\* close(), no error for i; anything else = error)
Above(i) == {j \in Levels : j > i}
Falls(i) == IF InnerOutlivesOuter THEN {} ELSE {j \in Above(i) : st[j] \in {"connecting", "up"}}

\* the end of level i (withErr: does i itself see an error)
End(i, withErr) ==
    LET down == {i} \cup Falls(i) IN
    /\ st' = [j \in Levels |-> IF j \in down THEN "dead" ELSE st[j]]
    /\ lost' = [j \in Levels |-> IF j \in down /\ st[j] \in {"up", "connecting"}
                                  /\ (st[j] = "up" \/ call[j] = "ok")
                               THEN lost[j] + 1 ELSE lost[j]]
    /\ err' = [j \in Levels |-> IF j \in down THEN (IF j = i THEN withErr ELSE TRUE)
                              ELSE err[j]]
    /\ call' = [j \in Levels |-> IF j \in down /\ call[j] = "pending"
                               THEN (IF ConnectHangsOnOuterLoss /\ j # i THEN "pending"
                                     ELSE "raised")
                               ELSE call[j]]
    /\ wait' = [j \in Levels |-> IF j \in down THEN {} ELSE wait[j]]
    /\ hung' = hung
    /\ carrier' = [j \in Levels |-> IF j \in down /\ carrier[j] = "open" THEN "closed"
                                  ELSE carrier[j]]

Connect(i) ==
    /\ i > 1 /\ st[i] = "none" /\ st[i-1] = "up"
    /\ st' = [st EXCEPT ![i] = "connecting"] /\ call' = [call EXCEPT ![i] = "pending"]
    /\ carrier' = [carrier EXCEPT ![i] = "open"]
    /\ lbl' = <<"connect", i>>
    /\ UNCHANGED <<prog, lost, err, wait, hung, sent, rcvd>>

Progress(i) ==
    /\ st[i] = "connecting" /\ prog[i] < MaxProg
    /\ prog' = [prog EXCEPT ![i] = @ + 1]
    /\ lbl' = <<"progress", i>>
    /\ UNCHANGED <<st, call, lost, err, wait, hung, carrier, sent, rcvd>>

Connected(i) ==
    /\ st[i] = "connecting"
    /\ st' = [st EXCEPT ![i] = "up"] /\ call' = [call EXCEPT ![i] = "ok"]
    /\ lbl' = <<"connected", i>>
    /\ UNCHANGED <<prog, lost, err, wait, hung, carrier, sent, rcvd>>

AddWaiter(i, w) ==
    /\ st[i] = "up" /\ w \notin wait[i]
    /\ \A j \in Above(i) : st[j] = "none"      \* (the driver adds waiters on the top level)
    /\ wait' = [wait EXCEPT ![i] = @ \cup {w}]
    /\ lbl' = <<"wait", i, w>>
    /\ UNCHANGED <<st, prog, call, lost, err, hung, carrier, sent, rcvd>>

Data(i) ==
    /\ st[i] = "up" /\ i = L /\ sent < MaxData /\ wait[i] = {}
    /\ sent' = sent + 1 /\ rcvd' = rcvd + 1
    /\ lbl' = <<"data", i>>
    /\ UNCHANGED <<st, prog, call, lost, err, wait, hung, carrier>>

\* how: "close" / "abort" of the level by its application, "carrier": the
\* channel below it is closed, "server": its server disconnects, "cutc" /
\* "cuts": loss of A's transport at the client / at the jump server (level 1)
Kill(i, how) ==
    /\ st[i] \in {"up", "connecting"}
    /\ (how \in {"cutc", "cuts"} => i = 1)
    \* (closing a channel that is still being opened is a no-op in asyncssh:
    \* the carrier can be closed once its confirmation has arrived)
    /\ (how = "carrier" => i > 1 /\ (st[i] = "up" \/ prog[i] >= 2))
    /\ (how \in {"close", "abort"} => st[i] = "up")
    \* (the socket to i's server exists once the open went round)
    /\ (how = "server" => i > 1 /\ (st[i] = "up" \/ prog[i] >= 1))
    /\ End(i, how \notin {"close", "abort"})
    /\ lbl' = <<"kill", i, how>>
    /\ UNCHANGED <<prog, sent, rcvd>>

Next ==
    \/ \E i \in Levels : Connect(i) \/ Progress(i) \/ Connected(i) \/ Data(i)
    \/ \E i \in Levels, w \in Waiters : AddWaiter(i, w)
    \/ \E i \in Levels, h \in {"close", "abort", "carrier", "server", "cutc", "cuts"} :
          Kill(i, h)

Spec == Init /\ [][Next]_vars

-----------------------------------------------------------------------------
\* a level never outlives the level that carries it; its connection_lost
\* fires exactly once and with an error when it did not end by itself
InnerEndsWithOuter ==
    \A i \in Levels : i > 1 /\ st[i-1] = "dead" =>
        /\ st[i] \in {"none", "dead"}
        /\ wait[i] = {} /\ carrier[i] # "open"
OnceWithError ==
    \A i \in Levels : /\ lost[i] <= 1
                      /\ (st[i] = "dead" /\ call[i] = "ok" => lost[i] = 1)
\* ending a level leaves the ones below it up and releases its carrier
OuterSurvivesInner ==
    \A i \in Levels : st[i] = "dead" /\ i > 1 => carrier[i] = "closed"
LowerUntouched ==
    [][\A i \in Levels : (lbl'[1] = "kill" /\ i < lbl'[2]) => st'[i] = st[i]]_vars
\* connect() never hangs on a dead carrier and leaves nothing half-open
ConnectFailsCleanly ==
    \A i \in Levels : i > 1 /\ call[i] = "pending" => st[i] = "connecting" /\ st[i-1] = "up"
NoHalfOpen == \A i \in Levels : call[i] = "raised" => st[i] = "dead" /\ lost[i] = 0
RelayFIFO == rcvd = sent

\* witnesses
NeverThreeUp == ~(\A i \in Levels : st[i] = "up")
NeverKillWhileConnecting == ~(\E i \in Levels : call[i] = "raised")
=============================================================================
