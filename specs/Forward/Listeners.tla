----------------------------- MODULE Listeners -----------------------------
(***************************************************************************)
(* Several forwarding listeners on ONE SSH connection, each with its own   *)
(* destination: forward_remote_port / forward_remote_port_to_path /        *)
(* start_server (listener on the server, connections come back as          *)
(* forwarded-tcpip channels), forward_remote_path (forwarded-streamlocal), *)
(* forward_local_port / forward_local_port_to_path, forward_socks,         *)
(* forward_local_path (listener on the client).                            *)
(*                                                                         *)
(* What has to be right for "bytes entering listener k come out at         *)
(* destination k, and only there":                                         *)
(*  - client side listeners carry their destination in a closure           *)
(*    (connection.py forward_local_port / forward_socks): nothing to look  *)
(*    up;                                                                  *)
(*  - server side TCP listeners: the server names the listener in the      *)
(*    forwarded-tcpip open by (address, port that was connected) (RFC 4254 *)
(*    7.2) and the client looks the pair up in _remote_listeners, falling  *)
(*    back to _dynamic_remote_listeners[address] - the NEWEST port-0       *)
(*    listener on that address - for servers that report port 0            *)
(*    (connection.py 3990-4022, create_server 4850-4885,                   *)
(*    close_client_tcp_listener 4024-4040);                                *)
(*  - server side UNIX listeners: looked up by path.                       *)
(*                                                                         *)
(* Listener slots are opened in order 1..N with any configuration; every   *)
(* open listener can be connected into at any time, in any order, also     *)
(* after others were closed; a closed listener's address refuses; a fixed  *)
(* port that is in use cannot be listened on again until it is closed.     *)
(***************************************************************************)
EXTENDS Naturals, Sequences, FiniteSets, TLC

CONSTANTS
    N,             \* listener slots
    MaxConn,       \* connections made into listeners
    KindSet,       \* subset of {"rfwd","rsrv","rpath","lfwd","socks","lpath"}
    HostSet,       \* subset of {"h1","h2"}: listen addresses
    PortSet,       \* subset of {"dyn","P","Q"}: port 0 or one of two fixed ports
    WirePortZero,  \* sensitivity: the server reports port 0 for port-0 listeners
    KeepClosed     \* sensitivity: a closed listener keeps accepting

RemoteTcp == {"rfwd", "rsrv"}
TcpKinds == {"rfwd", "rsrv", "lfwd", "socks"}
PathKinds == {"rpath", "lpath"}

Cfgs == [kind : KindSet \cap TcpKinds, host : HostSet, port : PortSet]
          \cup [kind : KindSet \cap PathKinds, host : {"-"}, port : {"-"}]
NoCfg == [kind |-> "none", host |-> "-", port |-> "-"]

VARIABLES
    cfg,      \* slot -> configuration
    st,       \* slot -> "none" | "open" | "failed" | "closed"
    bport,    \* slot -> bound port (abstract: P = 1, Q = 2, dynamic = 100 + slot)
    reg,      \* client: _remote_listeners as a function <<host, port>> -> slot (set of triples)
    dyn,      \* client: _dynamic_remote_listeners: host -> slot (0 = none)
    nconn,
    last,     \* outcome of the last connection: [into, got] got = slot | 0 refused/dropped
    wrong,    \* history: some connection came out at another listener's destination
    served,   \* history: a closed listener's address served a connection
    lbl

vars == <<cfg, st, bport, reg, dyn, nconn, last, wrong, served, lbl>>
view == <<cfg, st, bport, reg, dyn, nconn, last, wrong, served>>

Slots == 1..N
NoLast == [into |-> 0, got |-> 0]

Init ==
    /\ cfg = [k \in Slots |-> NoCfg] /\ st = [k \in Slots |-> "none"]
    /\ bport = [k \in Slots |-> 0] /\ reg = {} /\ dyn = [h \in HostSet |-> 0]
    /\ nconn = 0 /\ last = NoLast /\ wrong = FALSE /\ served = FALSE
    /\ lbl = <<"init">>

PortOf(k, c) == CASE c.port = "P" -> 1 [] c.port = "Q" -> 2 [] c.port = "dyn" -> 100 + k
                  [] OTHER -> 0
\* the real sockets of all TCP listeners (both sides) live on one machine
InUse(c) == c.kind \in TcpKinds /\ c.port # "dyn" /\
            \E j \in Slots : st[j] = "open" /\ cfg[j].kind \in TcpKinds
                             /\ cfg[j].host = c.host /\ cfg[j].port = c.port

Open(k, c) ==
    /\ st[k] = "none" /\ \A j \in 1..(k-1) : st[j] # "none"
    /\ cfg' = [cfg EXCEPT ![k] = c]
    /\ IF InUse(c)
       THEN /\ st' = [st EXCEPT ![k] = "failed"]
            /\ UNCHANGED <<bport, reg, dyn>>
       ELSE /\ st' = [st EXCEPT ![k] = "open"]
            /\ bport' = [bport EXCEPT ![k] = PortOf(k, c)]
            /\ reg' = IF c.kind \in RemoteTcp
                      THEN {t \in reg : ~(t[1] = c.host /\ t[2] = PortOf(k, c))}
                             \cup {<<c.host, PortOf(k, c), k>>}
                      ELSE reg
            /\ dyn' = IF c.kind \in RemoteTcp /\ c.port = "dyn"
                      THEN [dyn EXCEPT ![c.host] = k] ELSE dyn
    /\ lbl' = <<"open", k, c, ~InUse(c)>>
    /\ UNCHANGED <<nconn, last, wrong, served>>

\* where a connection accepted by listener k comes out
Lookup(h, p) == IF \E t \in reg : t[1] = h /\ t[2] = p
                THEN (CHOOSE t \in reg : t[1] = h /\ t[2] = p)[3]
                ELSE dyn[h]
Route(k) ==
    IF cfg[k].kind \in RemoteTcp
    THEN Lookup(cfg[k].host,
                IF WirePortZero /\ cfg[k].port = "dyn" THEN 0 ELSE bport[k])
    ELSE k

Connect(k) ==
    /\ st[k] = "open" /\ nconn < MaxConn
    /\ last' = [into |-> k, got |-> Route(k)]
    /\ wrong' = (wrong \/ Route(k) \notin {k, 0})
    /\ nconn' = nconn + 1
    /\ lbl' = <<"connect", k, Route(k)>>
    /\ UNCHANGED <<cfg, st, bport, reg, dyn, served>>

\* connecting to the address of a closed listener (that nobody else has)
ConnectClosed(k) ==
    /\ st[k] = "closed" /\ nconn < MaxConn
    /\ ~\E j \in Slots : st[j] = "open" /\ cfg[j].kind \in TcpKinds
                         /\ cfg[k].kind \in TcpKinds
                         /\ cfg[j].host = cfg[k].host /\ bport[j] = bport[k]
    /\ last' = [into |-> k, got |-> IF KeepClosed THEN k ELSE 0]
    /\ served' = (served \/ KeepClosed)
    /\ nconn' = nconn + 1
    /\ lbl' = <<"cclosed", k, IF KeepClosed THEN k ELSE 0>>
    /\ UNCHANGED <<cfg, st, bport, reg, dyn, wrong>>

Close(k) ==
    /\ st[k] = "open"
    /\ st' = [st EXCEPT ![k] = "closed"]
    /\ reg' = {t \in reg : t[3] # k}
    /\ dyn' = [h \in HostSet |-> IF dyn[h] = k THEN 0 ELSE dyn[h]]
    /\ lbl' = <<"close", k>>
    /\ UNCHANGED <<cfg, bport, nconn, last, wrong, served>>

Next ==
    \/ \E k \in Slots, c \in Cfgs : Open(k, c)
    \/ \E k \in Slots : Connect(k) \/ ConnectClosed(k) \/ Close(k)

Spec == Init /\ [][Next]_vars

-----------------------------------------------------------------------------
\* bytes entering listener k come out at destination k, and only there
Routing == ~wrong /\ (last.into # 0 /\ st[last.into] = "open" => last.got = last.into)
ClosedRefuses == ~served
\* the client's tables name exactly the open server-side TCP listeners
RegistryExact ==
    /\ \A t \in reg : st[t[3]] = "open" /\ cfg[t[3]].kind \in RemoteTcp
                      /\ cfg[t[3]].host = t[1] /\ bport[t[3]] = t[2]
    /\ \A k \in Slots : st[k] = "open" /\ cfg[k].kind \in RemoteTcp =>
            <<cfg[k].host, bport[k], k>> \in reg
    /\ \A h \in HostSet : dyn[h] # 0 =>
            st[dyn[h]] = "open" /\ cfg[dyn[h]].port = "dyn" /\ cfg[dyn[h]].host = h
\* two listeners never share an address
AddressesDistinct ==
    \A j, k \in Slots : j # k /\ st[j] = "open" /\ st[k] = "open"
                        /\ cfg[j].kind \in TcpKinds /\ cfg[k].kind \in TcpKinds
                        /\ cfg[j].host = cfg[k].host => bport[j] # bport[k]

\* witnesses (expected to be violated = reachable)
NeverOlderDynamic ==
    ~(\E j, k \in Slots : j < k /\ st[j] = "open" /\ st[k] = "open"
        /\ cfg[j].kind \in RemoteTcp /\ cfg[k].kind \in RemoteTcp
        /\ cfg[j].port = "dyn" /\ cfg[k].port = "dyn" /\ cfg[j].host = cfg[k].host
        /\ last.into = j)
NeverFailedOpen == \A k \in Slots : st[k] # "failed"
=============================================================================
