------------------------------- MODULE Socks -------------------------------
(***************************************************************************)
(* The SOCKS request parser of asyncssh (socks.py 58-247,                  *)
(* SSHSOCKSForwarder): SOCKS4, SOCKS4a and SOCKS5 CONNECT requests read    *)
(* from the local socket of a forward_socks listener.                      *)
(*                                                                         *)
(* The model is fed one byte at a time (Feed) or a run of equal bytes      *)
(* (FeedMany); what the parser does must not depend on how the bytes are   *)
(* split into data_received calls, so a behaviour predicts the outcome of  *)
(* every segmentation of its input.  Per state only the byte values that   *)
(* can influence the control flow are offered (Choices).                   *)
(*                                                                         *)
(* Fixed = TRUE is the required behaviour (after the forwarder closed the  *)
(* connection nothing further is parsed); Fixed = FALSE is the loop of     *)
(* socks.py 222-241 as it stands when all input arrives in one call: it    *)
(* keeps running after close(), and a handler that needs the transport     *)
(* then fails its assertion ("raised").                                    *)
(***************************************************************************)
EXTENDS Naturals, Sequences, FiniteSets, TLC

CONSTANTS
    MaxIn,      \* bound on the number of Feed / FeedMany steps
    MaxName,    \* longest NUL-terminated field accepted (255 in socks.py)
    Runs,       \* run lengths offered to FeedMany
    Fixed

VARIABLES
    st,         \* parser state (which _recv_handler is installed)
    need,       \* _bytes_needed for counted states
    buf,        \* bytes of the current field
    atyp,       \* address type echoed in the SOCKS5 reply
    host,       \* NoHost or [kind |-> "ip4"|"ip6"|"name", b |-> bytes]
    port,
    replies,    \* replies written to the client, in order
    out,        \* bytes passed through after the request (early data)
    closed,     \* the forwarder closed the local connection
    ignored,    \* bytes that arrived after the close
    steps,
    inp,        \* the input so far as runs <<byte, count>> (not in the VIEW)
    lbl

vars == <<st, need, buf, atyp, host, port, replies, out, closed, ignored, steps, inp, lbl>>
view == <<st, need, buf, atyp, host, port, replies, out, closed, ignored, steps>>

NoHost == [kind |-> "none", b |-> <<>>]
Counted == {"version", "s4addr", "s5auth", "s5cmd", "s5addr", "s5hostlen",
            "s5host", "s5port"}
NulTerm == {"s4user", "s4host"}

Init ==
    /\ st = "version" /\ need = 2 /\ buf = <<>> /\ atyp = 0 /\ host = NoHost
    /\ port = 0 /\ replies = <<>> /\ out = <<>> /\ closed = FALSE /\ steps = 0
    /\ ignored = 0 /\ inp = <<>>
    /\ lbl = <<"init">>

\* byte values that matter in each state
Choices(s, n) ==
    CASE s = "version"   -> IF n = 0 THEN {4, 5, 6} ELSE {0, 1, 2, 3}
      [] s = "s4addr"    -> CASE n = 0 -> {27} [] n = 1 -> {88, 89}
                              [] n = 2 -> {0, 127} [] n = 5 -> {0, 1}
                              [] OTHER -> {0}
      [] s = "s4user"    -> CASE n = 0 -> {0, 65, 255} [] n = 1 -> {0, 65}
                              [] OTHER -> {0}
      [] s = "s4host"    -> CASE n = 0 -> {0, 100, 255} [] n = 1 -> {0, 100}
                              [] OTHER -> {0}
      [] s = "s5auth"    -> {0, 1, 2}
      [] s = "s5cmd"     -> CASE n = 0 -> {5, 4} [] n = 1 -> {1, 2}
                              [] n = 2 -> {0, 1} [] OTHER -> {1, 3, 4, 9}
      [] s = "s5addr"    -> CASE n = 0 -> {0, 127} [] n \in {3, 15} -> {1}
                              [] OTHER -> {0}
      [] s = "s5hostlen" -> {0, 1, 2, 3}
      [] s = "s5host"    -> {100, 255}
      [] s = "s5port"    -> IF n = 0 THEN {27} ELSE {88, 89}
      [] s = "connected" -> IF n < 2 THEN {0, 5, 120} ELSE {}
      [] OTHER           -> IF n < 2 THEN {5} ELSE {}   \* closed / raised

ValidUtf8(bs) == \A i \in DOMAIN bs : bs[i] < 128

-----------------------------------------------------------------------------
(* The handlers, as functions from a parser record to a parser record.     *)
(* p = [st, need, buf, atyp, host, port, replies, out, closed]             *)

Close(p) == IF Fixed THEN [p EXCEPT !.st = "closed", !.closed = TRUE, !.buf = <<>>]
                     ELSE [p EXCEPT !.closed = TRUE]   \* handler stays installed

\* handlers that use the transport fail once it is gone (as-is code only)
NeedsTransport(p, q) == IF p.closed THEN [p EXCEPT !.st = "raised"] ELSE q

Connect(p) == NeedsTransport(p, [p EXCEPT !.st = "connected", !.need = 0])
Reply(p, r) == NeedsTransport(p, [p EXCEPT !.replies = Append(@, r)])

Goto(p, s, n) == [p EXCEPT !.st = s, !.need = n, !.buf = <<>>]

RECURSIVE Handle(_, _)
Handle(p, data) ==
    CASE p.st = "version" ->
            IF data[1] = 4
            THEN IF data[2] = 1 THEN Goto(p, "s4addr", 6) ELSE Close(p)
            ELSE IF data[1] = 5
                 THEN LET q == Goto(p, "s5auth", data[2])
                      IN IF data[2] = 0 THEN Handle(q, <<>>) ELSE q
                 ELSE Close(p)
      [] p.st = "s4addr" ->
            LET q == [p EXCEPT !.port = data[1] * 256 + data[2],
                               !.host = IF SubSeq(data, 3, 5) # <<0, 0, 0>> \/ data[6] = 0
                                        THEN [kind |-> "ip4", b |-> SubSeq(data, 3, 6)]
                                        ELSE NoHost]
            IN Goto(q, "s4user", 0)
      [] p.st = "s4user" ->
            IF p.host # NoHost
            THEN LET q == Reply(p, "s4ok")
                 IN IF q.st = "raised" THEN q ELSE Connect(q)
            ELSE Goto(p, "s4host", 0)
      [] p.st = "s4host" ->
            IF ~ValidUtf8(data) THEN Close(p)
            ELSE LET q == Reply([p EXCEPT !.host = [kind |-> "name", b |-> data]], "s4ok")
                 IN IF q.st = "raised" THEN q ELSE Connect(q)
      [] p.st = "s5auth" ->
            IF p.closed THEN [p EXCEPT !.st = "raised"]    \* assert self._transport
            ELSE IF \E i \in DOMAIN data : data[i] = 0
                 THEN Goto(Reply(p, "authok"), "s5cmd", 4)
                 ELSE Close(p)
      [] p.st = "s5cmd" ->
            IF data[1] = 5 /\ data[2] = 1 /\ data[3] = 0
            THEN IF data[4] = 3 THEN Goto([p EXCEPT !.atyp = 1], "s5hostlen", 1)
                 ELSE IF data[4] = 1 THEN Goto([p EXCEPT !.atyp = 1], "s5addr", 4)
                 ELSE IF data[4] = 4 THEN Goto([p EXCEPT !.atyp = 4], "s5addr", 16)
                 ELSE Close(p)
            ELSE Close(p)
      [] p.st = "s5addr" ->
            Goto([p EXCEPT !.host = [kind |-> IF Len(data) = 4 THEN "ip4" ELSE "ip6",
                                     b |-> data]], "s5port", 2)
      [] p.st = "s5hostlen" ->
            LET q == Goto(p, "s5host", data[1])
            IN IF data[1] = 0 THEN Handle(q, <<>>) ELSE q
      [] p.st = "s5host" ->
            IF ~ValidUtf8(data) THEN Close(p)
            ELSE Goto([p EXCEPT !.host = [kind |-> "name", b |-> data]], "s5port", 2)
      [] p.st = "s5port" ->
            LET q == Reply([p EXCEPT !.port = data[1] * 256 + data[2]], "s5ok")
            IN IF q.st = "raised" THEN q ELSE Connect(q)
      [] OTHER -> p

\* the as-is loop calls the handler again while it asks for zero bytes
RECURSIVE Settle(_)
Settle(q) == IF ~Fixed /\ q.st \in Counted /\ q.need = 0 THEN Settle(Handle(q, <<>>)) ELSE q

\* name longer than MaxName without terminator: close() and return
Overlong(p) == IF Fixed THEN Close(p) ELSE [p EXCEPT !.st = "closed", !.closed = TRUE]

\* one byte arrives
FeedByte(p, b) ==
    IF p.st \in {"closed", "raised"} THEN p
    ELSE IF p.st = "connected" THEN [p EXCEPT !.out = Append(@, b)]
    ELSE IF p.st \in NulTerm
    THEN IF b = 0 THEN Settle(Handle([p EXCEPT !.buf = <<>>], p.buf))
         ELSE IF Len(p.buf) + 1 > MaxName
              THEN Overlong(p)
              ELSE [p EXCEPT !.buf = Append(@, b)]
    ELSE LET nb == Append(p.buf, b)
         IN IF Len(nb) = p.need THEN Settle(Handle([p EXCEPT !.buf = <<>>], nb))
            ELSE [p EXCEPT !.buf = nb]

\* a run of k equal non-NUL bytes (only offered in NUL-terminated fields and
\* after the request); same result as k times FeedByte
FeedRun(p, b, k) ==
    LET run == [i \in 1..k |-> b]
    IN IF p.st = "connected" THEN [p EXCEPT !.out = @ \o run]
       ELSE IF Len(p.buf) + k > MaxName THEN Overlong(p)
       ELSE [p EXCEPT !.buf = @ \o run]

P == [st |-> st, need |-> need, buf |-> buf, atyp |-> atyp, host |-> host,
      port |-> port, replies |-> replies, out |-> out, closed |-> closed]

Set(q) ==
    /\ st' = q.st /\ need' = q.need /\ buf' = q.buf /\ atyp' = q.atyp
    /\ host' = q.host /\ port' = q.port /\ replies' = q.replies
    /\ out' = q.out /\ closed' = q.closed

\* position inside the current field (after the request: bytes passed
\* through; after close: bytes ignored so far)
Pos == CASE st = "connected" -> Len(out)
         [] st \in {"closed", "raised"} -> ignored
         [] OTHER -> Len(buf)

Feed(b) ==
    /\ steps < MaxIn
    /\ b \in Choices(st, Pos)
    /\ Set(FeedByte(P, b))
    /\ ignored' = IF st \in {"closed", "raised"} THEN ignored + 1 ELSE ignored
    /\ steps' = steps + 1
    /\ inp' = Append(inp, <<b, 1>>)
    /\ lbl' = <<"b", b, 1>>

FeedMany(b, k) ==
    /\ steps < MaxIn
    /\ st \in NulTerm \cup {"connected"} /\ Pos <= 1 /\ b \in Choices(st, 0) \ {0}
    /\ Set(FeedRun(P, b, k))
    /\ UNCHANGED ignored
    /\ steps' = steps + 1
    /\ inp' = Append(inp, <<b, k>>)
    /\ lbl' = <<"b", b, k>>

Next == (\E b \in Choices(st, Pos) : Feed(b))
        \/ (\E b \in Choices(st, 0) \ {0}, k \in Runs : FeedMany(b, k))

Spec == Init /\ [][Next]_vars

-----------------------------------------------------------------------------
(* Properties *)

\* after the forwarder closed the connection nothing further is parsed:
\* no reply, no connect, no state change, no failure
AfterClose ==
    [][closed => /\ closed' /\ st' = st /\ replies' = replies /\ host' = host
                 /\ port' = port /\ out' = out]_vars
NoRaise == st # "raised"
ClosedIsFinal == closed <=> st \in {"closed", "raised"}

\* the parser never waits for zero bytes (it would spin) and never holds
\* more than it asked for
Progress ==
    /\ st \in Counted => need > 0 /\ Len(buf) < need
    /\ st \in NulTerm => Len(buf) <= MaxName
    /\ st \in {"connected", "closed"} => buf = <<>>

\* a connection is requested only for a completely parsed request that was
\* answered with the version's success reply
ConnectWellFormed ==
    st = "connected" =>
        /\ host # NoHost /\ replies # <<>>
        /\ replies[Len(replies)] \in {"s4ok", "s5ok"}
        /\ (replies[Len(replies)] = "s5ok" => Len(replies) = 2 /\ replies[1] = "authok")
        /\ (replies[Len(replies)] = "s4ok" => Len(replies) = 1)
NoReplyUnlessAsked == st # "connected" => Len(replies) <= 1
OutOnlyWhenConnected == out # <<>> => st = "connected"

\* case table: one line per reachable parser state (one input reaching it)
Dump == PrintT(ToString(<<"S", inp, [st |-> st, atyp |-> atyp, host |-> host, port |-> port,
                          replies |-> replies, out |-> out, closed |-> closed]>>))

TypeOK ==
    /\ st \in Counted \cup NulTerm \cup {"connected", "closed", "raised"}
    /\ port \in 0..65535 /\ closed \in BOOLEAN

\* vacuity witnesses (expected to be violated = reachable)
NeverV4a == ~(st = "connected" /\ host.kind = "name" /\ replies = <<"s4ok">>)
NeverV5Name == ~(st = "connected" /\ host.kind = "name" /\ Len(replies) = 2)
NeverV6 == ~(st = "connected" /\ host.kind = "ip6")
NeverOverlong == ~(closed /\ port # 0 /\ replies = <<>>)
=============================================================================
