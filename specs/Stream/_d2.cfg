CONSTANTS
  High = 4
  Low = 1
  Win = 3
  Sizes = {1, 2, 5}
  MaxOps = 12
  PrintAt = 12
  NoWait = FALSE
  NoRaise = FALSE
SPECIFICATION Spec
CHECK_DEADLOCK FALSE
INVARIANT DrainSound
INVARIANT PrintCase
