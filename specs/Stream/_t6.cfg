CONSTANTS
  DTs = {"out"}
  MaxLen = 4
  MaxErr = 0
  Marks = {}
  MaxMarks = 0
  Windows = {1, 2, 9}
  Ns = {0, 1, 2, 4, 5}
  ReadAll = TRUE
  Seps = {"nl", "ab", "tup", "re0", "reK"}
  ReMax = 4
  MaxBatch = 2
  MaxCalls = 0
  Proc = FALSE
  Redir = FALSE
  Policy = "any"
  PrintAt = 0
  SearchBug = FALSE
  CloseBug = FALSE
  ResumeFix = TRUE
SPECIFICATION Spec
CHECK_DEADLOCK FALSE
VIEW view
INVARIANT TypeOK
INVARIANT ChunkIndependent
INVARIANT NothingLost
INVARIANT PauseAccurate
