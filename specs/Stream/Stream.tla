------------------------------- MODULE Stream -------------------------------
(***************************************************************************)
(* Reading side of an asyncssh stream session (stream.py SSHStreamSession, *)
(* process.py SSHProcess/SSHClientProcess) together with the part of the   *)
(* channel underneath it that decides WHEN data reaches the session        *)
(* (channel.py _accept_data/_deliver_data/_flush_recv_buf, pause/resume,   *)
(* window adjust), at the granularity of the event loop:                   *)
(*                                                                         *)
(*   Emit(p)     the peer puts one packet on the wire (data chunk of one   *)
(*               data type, in-band exception marker = signal / break /    *)
(*               window change / soft EOF, EOF, exit status, CLOSE);       *)
(*   Run         the loop runs to quiescence: every packet emitted since   *)
(*               the last Run arrives in ONE data_received() call and is   *)
(*               processed synchronously by the channel, then the reader   *)
(*               tasks that were woken run in wake-up order;               *)
(*   StartCall   the application starts read / readexactly / readuntil /   *)
(*               readline on an idle stream and runs it until it returns   *)
(*               or blocks; StartWait / StartCollect: process.wait() and   *)
(*               process.collect_output();                                 *)
(*   Redirect    the application redirects a stream to a target.           *)
(*                                                                         *)
(* ResumeFix / CollectFix / SepFix / EscapeFix = TRUE model the code after  *)
(* the repairs (EscapeFix: fixes/c19_readuntil_empty_escape.patch)         *)
(* ResumeFix / CollectFix / SepFix = TRUE model the code after the repairs *)
(* found with this module (fixes/c19_readuntil_resume.patch,               *)
(* fixes/c19_collect_output_resume.patch,                                  *)
(* fixes/c19_readuntil_earliest_end.patch); FALSE is the code before them  *)
(* and must violate ChunkIndependent / NothingLost.                        *)
(*                                                                         *)
(* How the stream is asked to split is data: the separators offered in a   *)
(* run are drawn by TLC from every shape class of literal tuples (see      *)
(* Shape) plus the regex forms; every one meets every stream and every     *)
(* chunking of it in the case tables.                                      *)
(*                                                                         *)
(* The code is modelled as a pure state transformer on the record c, so    *)
(* that the same operators drive the exhaustive check, the simulation and  *)
(* the case tables that are replayed into the real code.                   *)
(*                                                                         *)
(* The REFERENCE semantics (Allowed) is stated on the concatenated stream  *)
(* eff[dt] (what entered the stream, chunk structure forgotten) and never  *)
(* looks at chunks; ChunkIndependent says every result of every call is    *)
(* one the reference admits, for every chunking, batching and schedule.    *)
(***************************************************************************)
EXTENDS Integers, Sequences, FiniteSets, TLC, Randomization

CONSTANTS
    DTs,        \* data types: {"out"}, {"out","err"} (client reads) or {"in"} (server reads)
    MaxLen,     \* total number of items in all streams
    MaxErr,     \* items on "err"
    Marks,      \* in-band markers in the primary stream, subset of AllMarks
    MaxMarks,
    Windows,    \* receive windows (= stream buffer limit)
    Ns,         \* n >= 0 for read(n) / readexactly(n)
    ReadAll,    \* TRUE: read(-1) is offered as well
    SepShapes,  \* shapes of literal separator tuples offered (subset of AllShapes)
    SepPer,     \* representatives drawn per shape (0 = all)
    MaxSepLen,  \* units per literal in a tuple of two; single literals have up to 3
    Regexes,    \* subset of {"re0", "reK"}
    SepFix,     \* TRUE: earliest-end search for separator tuples (repaired rule)
    ReMax,      \* max_separator_len given with the regex "reK"
    MaxBatch,   \* packets per data_received
    MaxCalls,   \* 0: unbounded (exhaustive runs); else calls per behaviour
    Proc,       \* exit status / CLOSE / wait() are part of the alphabet
    Redir,      \* Redirect is part of the alphabet
    MaxRedir,   \* redirections per stream (2: the target is replaced once)
    Canon,      \* TRUE: only the streams a b n a b n.. / n a n a.. (content is irrelevant,
                \* order is not: used by the late-redirection tables)
    Policy,     \* "any" | canonical schedules for the case tables: "rfl" the same call is
                \* repeated until EOF while the chunks arrive one by one; "dfl" all chunks
                \* and EOF arrive first, then the same call is repeated until EOF;
                \* "red" late redirection: packets arrive one by one, at most MaxCalls
                \* read(n) calls, every stream is redirected at some idle point
                \* (buffered chunks, paused or not, chunks / EOF / CLOSE parked in
                \* the channel all arise), possibly twice;
                \* "two": two read streams on one session, packets of both interleaved one
                \* by one; the streams in Readers are read with one kind of call repeated
                \* until EOF, the others are left unread (and fill the buffer limit);
                \* "exw" exit and wait: redirect at any idle point, packets one by one,
                \* exit status, CLOSE, one wait() at any idle point, target writes
                \* completing at any idle point
    PrintAt,    \* 0: never; else print the history when it has this length or is terminal
    Duplex,     \* TRUE: the reading side also SENDS: it writes up to MaxLocal units and its EOF
                \* towards a peer whose window is PeerWin and who holds what it gets until
                \* PeerOpen; the local sending state - nothing sent / data queued beyond the
                \* window / EOF queued behind data (eof_pending) / EOF sent - must not change
                \* what is received
    PeerWin, MaxLocal,
    DropWhileEofPending, \* sensitivity: data arriving while the own EOF is still queued is dropped
    SlowTgt,    \* TRUE: redirect targets are written by a background task (async file object,
                \* asyncio.StreamWriter): data is queued and written when the target lets it
                \* (TStep); wait()/communicate()/run() must wait for the queue (ExitAfterOutput)
    ReportAtChannelClose, \* sensitivity: wait() returns as soon as the channel is closed
    StreamSample, \* 0: every stream; else that many streams drawn at random (quick tables)
    Readers,    \* policy "two": the streams the application reads (the others stay unread)
    EscapeFix,  \* TRUE: readuntil returns a partial result while paused only if it is non-empty
    SearchBug,  \* sensitivity: separator searched only in the newest chunk
    CloseBug,   \* sensitivity: CLOSE tears the channel down while data is still held
    ResumeFix,  \* TRUE: readuntil resumes reading when it stops at a marker (repaired code)
    CollectFix  \* TRUE: collect_output() accounts for what it takes and resumes reading

AllMarks == {"!sig", "!brk", "!win", "!seof"}
Units    == {"a", "b", "n"}
Prim     == IF "in" \in DTs THEN "in" ELSE "out"
DTOrder  == IF "in" \in DTs THEN <<"in">>
            ELSE IF "err" \in DTs THEN <<"out", "err">> ELSE <<"out">>
CallDom  == DTs \cup (IF Proc THEN {"w"} ELSE {})

VARIABLES
    S,        \* [DTs -> Seq(item)]: what the peer is going to send
    sent,     \* [DTs -> Nat]
    eofSent, exitSent, closeSent,
    wire,     \* packets emitted since the last Run
    swin,     \* the peer's send window
    c,        \* reader side (channel + session + calls + history), see InitC
    ok,       \* every result so far was admitted by the reference
    ncalls,
    hist      \* labels of the steps so far (only kept when PrintAt > 0)

vars == <<S, sent, eofSent, exitSent, closeSent, wire, swin, c, ok, ncalls, hist>>
view == <<S, sent, eofSent, exitSent, closeSent, wire, swin, c, ok, ncalls>>

-----------------------------------------------------------------------------
Max(a, b) == IF a >= b THEN a ELSE b
Min(a, b) == IF a <= b THEN a ELSE b
SetMin(P) == CHOOSE x \in P : \A y \in P : x <= y
Range(s)  == {s[i] : i \in DOMAIN s}
SeqsUpTo(A, n) == UNION {[1..k -> A] : k \in 0..n}

RECURSIVE Flat(_)
Flat(ss) == IF ss = <<>> THEN <<>> ELSE Head(ss) \o Flat(Tail(ss))

IsMarkEntry(e) == e[1] \in AllMarks
DataOf(s)  == SelectSeq(s, LAMBDA x : x \notin AllMarks)
MarksOf(s) == SelectSeq(s, LAMBDA x : x \in AllMarks)

-----------------------------------------------------------------------------
(* Separators ("how the stream is asked to split") are data:                *)
(*   <<"lit", <<alt1, alt2, ...>>>>  a single literal or a tuple/list of     *)
(*                                   literals, in the order given by the app *)
(*   <<"re0", <<>>>>, <<"reK", <<>>>> the compiled regex a+b without / with  *)
(*                                   max_separator_len                       *)
(* Code side: a leftmost regex search (alternation = first alternative that  *)
(* matches at the leftmost start) from a start offset.  Reference side: the  *)
(* shortest prefix that ends with a word of the separator language.          *)
NoSep == <<"-", <<>>>>
NlSep == <<"lit", << <<"n">> >> >>
SepIsRe(sep) == sep[1] \in {"re0", "reK"}
SepAlts(sep) == sep[2]
SepLen(sep)  == CASE sep[1] = "re0" -> 0 [] sep[1] = "reK" -> ReMax
                  [] OTHER -> LET L == {Len(SepAlts(sep)[i]) : i \in DOMAIN SepAlts(sep)} IN
                              CHOOSE m \in L : \A x \in L : x <= m

\* end (number of units of b up to the end of the match) of a match that
\* starts right after the first p units, or 0
AltEndAt(alt, b, p) ==
    IF p + Len(alt) <= Len(b) /\ SubSeq(b, p + 1, p + Len(alt)) = alt
    THEN p + Len(alt) ELSE 0

MatchEndAt(sep, b, p) ==
    IF SepIsRe(sep)
    THEN IF p + 1 <= Len(b) /\ b[p + 1] = "a"
         THEN LET J == {j \in (p + 2)..Len(b) : b[j] # "a"} IN
              IF J = {} THEN 0
              ELSE IF b[SetMin(J)] = "b" THEN SetMin(J) ELSE 0
         ELSE 0
    ELSE LET alts == SepAlts(sep)
             I == {i \in DOMAIN alts : AltEndAt(alts[i], b, p) > 0} IN
         IF I = {} THEN 0 ELSE AltEndAt(alts[SetMin(I)], b, p)

\* the code as it is: one regex, leftmost start, first alternative
SearchLeftmost(sep, b, start) ==
    LET P == {p \in start..(Len(b) - 1) : MatchEndAt(sep, b, p) > 0} IN
    IF P = {} THEN 0 ELSE MatchEndAt(sep, b, SetMin(P))

\* the repaired rule (fixes/c19_readuntil_earliest_end.patch): every literal
\* is searched and the match that ends first wins
SearchEarliest(sep, b, start) ==
    LET alts == SepAlts(sep)
        E == {e \in 1..Len(b) : \E i \in DOMAIN alts, p \in start..(Len(b) - 1) :
                                   AltEndAt(alts[i], b, p) = e} IN
    IF E = {} THEN 0 ELSE SetMin(E)

Search(sep, b, start) ==
    IF SepFix /\ ~SepIsRe(sep) THEN SearchEarliest(sep, b, start)
    ELSE SearchLeftmost(sep, b, start)

InLang(sep, x) ==
    IF SepIsRe(sep)
    THEN Len(x) >= 2 /\ x[Len(x)] = "b" /\ \A i \in 1..(Len(x) - 1) : x[i] = "a"
    ELSE x \in Range(SepAlts(sep))

RefEnd(sep, R) ==
    LET E == {e \in 1..Len(R) :
                \E p \in 0..(e - 1) : InLang(sep, SubSeq(R, p + 1, e))} IN
    IF E = {} THEN 0 ELSE SetMin(E)

(* Generation of the separators offered in a run: every literal tuple of    *)
(* one or two different literals of <= MaxSepLen units is classified by its  *)
(* shape; SepPer representatives of every shape in SepShapes are drawn       *)
(* (0 = all of them).                                                        *)
LitsUpTo(k) == UNION {[1..j -> Units] : j \in 1..k}
Lits == LitsUpTo(MaxSepLen)
LitTuples == {<<x>> : x \in LitsUpTo(3)} \cup {t \in Lits \X Lits : t[1] # t[2]}
Ord(u) == CASE u = "n" -> 0 [] u = "a" -> 1 [] OTHER -> 2    \* byte order of \n, a, b
RECURSIVE LexLess(_, _)
LexLess(x, y) == IF x = <<>> THEN y # <<>>
                 ELSE IF y = <<>> THEN FALSE
                 ELSE IF Ord(x[1]) # Ord(y[1]) THEN Ord(x[1]) < Ord(y[1])
                 ELSE LexLess(Tail(x), Tail(y))
Shape(t) ==
    IF Len(t) = 1
    THEN LET x == t[1] IN
         IF Len(x) = 1 THEN "one"                   \* one unit
         ELSE IF \E i \in 2..Len(x) : x[i] = x[1]  \* its first unit occurs again (aa; aab, aba)
              THEN (IF Len(x) = 2 THEN "rep" ELSE "rep3")
         ELSE "word"
    ELSE LET x == t[1]  y == t[2]
             sh == IF Len(x) <= Len(y) THEN x ELSE y
             lo == IF Len(x) <= Len(y) THEN y ELSE x
             offs == {i \in 0..(Len(lo) - Len(sh)) : SubSeq(lo, i + 1, i + Len(sh)) = sh} IN
         IF Len(x) = Len(y) THEN "eq"
         ELSE IF 0 \in offs /\ x = sh THEN "prefix"    \* (a, ab): the longer one can never win
         ELSE IF \E i \in offs : i + Len(sh) < Len(lo) THEN "nested"  \* shorter ends inside the longer
         ELSE IF offs # {} THEN "suffix"
         ELSE IF LexLess(lo, sh) THEN "lexopp"      \* the lexicographic maximum is the shorter one
         ELSE "lexsame"
AllShapes == {"one", "rep", "rep3", "word", "eq", "prefix", "nested", "suffix", "lexopp", "lexsame"}
Pick(sh) == LET C == {t \in LitTuples : Shape(t) = sh} IN
            IF SepPer = 0 \/ Cardinality(C) <= SepPer THEN C ELSE RandomSubset(SepPer, C)
SepChoice == {NlSep} \cup {<<"lit", t>> : t \in UNION {Pick(sh) : sh \in SepShapes}}
                     \cup {<<r, <<>>>> : r \in Regexes}

-----------------------------------------------------------------------------
NoCall == [k |-> "none", n |-> 0, n0 |-> 0, sep |-> NoSep, acc |-> <<>>, cur |-> 0, brk |-> FALSE]
\* redirect target(s) of a stream: data = everything written to the targets,
\* gens = length of data at the moments the target was replaced
\* q = what a slow target's writer task still has to write (chunks, then <<"!eof">>),
\* eofq = its close() was called
NoTgt  == [on |-> FALSE, data |-> <<>>, eof |-> FALSE, late |-> FALSE, gens |-> <<>>,
           q |-> <<>>, eofq |-> FALSE]
\* the EOF item is processed as soon as it is at the head (it does not block)
TgtSettle(t) == IF t.q # <<>> /\ Head(t.q) = <<"!eof">>
                THEN [t EXCEPT !.q = Tail(@), !.eof = TRUE] ELSE t
TgtClose(t) == IF ~t.on THEN t
               ELSE IF ~SlowTgt THEN [t EXCEPT !.eof = TRUE]
               ELSE IF t.eofq THEN t
               ELSE TgtSettle([t EXCEPT !.q = Append(@, <<"!eof">>), !.eofq = TRUE])
RECURSIVE QData(_)
QData(q) == IF q = <<>> THEN <<>>
            ELSE (IF Head(q) = <<"!eof">> THEN <<>> ELSE Head(q)) \o QData(Tail(q))

InitC(W) ==
    [w    |-> W,                         \* channel window (_init_recv_window)
     lim  |-> W,                         \* session._limit
     lw   |-> 0,                         \* units written by the local application
     leof |-> FALSE,                     \* it called write_eof()
     popen |-> FALSE,                    \* the peer reads again (everything queued flows)
     buf  |-> [d \in DTs |-> <<>>],      \* session._recv_buf: chunks and markers
     len  |-> 0,                         \* session._recv_buf_len
     rp   |-> FALSE,                     \* session._read_paused = chan._recv_paused
     eof  |-> FALSE,                     \* session._eof_received
     cbuf |-> <<>>,                      \* chan._recv_buf
     ceof |-> "no",                      \* "pending": EOF waits for cbuf to drain
     ccl  |-> "no",                      \* CLOSE: "pending" | "sched" | "done"
     cwin |-> W,                         \* chan._recv_window
     adj  |-> 0,                         \* window adjusts on their way to the peer
     exit |-> "none",
     call |-> [d \in CallDom |-> NoCall],
     wq   |-> <<>>,                      \* ready queue: woken readers, "cleanup"
     run  |-> "-",
     tgt  |-> [d \in DTs |-> NoTgt],
     eff  |-> [d \in DTs |-> <<>>],      \* history: items that entered the stream
     pos  |-> [d \in DTs |-> 0],         \* history: items handed to the application
     fin  |-> <<>>,                      \* results of calls finished in this step
     bad  |-> FALSE]

Ret(v) == [k |-> "ret", v |-> v]
Inc(v) == [k |-> "inc", v |-> v]
Exc(m) == [k |-> "exc", v |-> <<m>>]

-----------------------------------------------------------------------------
(* Reference semantics.  B = the part of the stream the call had in front  *)
(* of it, R = its data up to the next marker.                              *)
DataRun(B) == LET I == {i \in 1..Len(B) : B[i] \in AllMarks} IN
              IF I = {} THEN B ELSE SubSeq(B, 1, SetMin(I) - 1)

Allowed(cl, r, sn) ==
    LET B == sn.B
        R == DataRun(B)
        markNext == Len(R) < Len(B)
        m == IF markNext THEN B[Len(R) + 1] ELSE "-"
        term == markNext \/ sn.eof
        AtMark == IF m = "!seof" THEN r = Ret(<<>>) ELSE r = Exc(m)
    IN
    CASE cl.k = "read" ->
           IF cl.n0 = 0 THEN r = Ret(<<>>)
           ELSE IF R = <<>> /\ markNext THEN AtMark
           ELSE IF R = <<>> THEN sn.eof /\ r = Ret(<<>>)
           ELSE IF cl.n0 > 0
                THEN /\ r.k = "ret"
                     /\ Len(r.v) >= 1 /\ Len(r.v) <= Min(cl.n0, Len(R))
                     /\ r.v = SubSeq(R, 1, Len(r.v))
                ELSE term /\ r = Ret(R)
      [] cl.k = "exact" ->
           IF cl.n0 = 0 THEN r = Ret(<<>>)
           ELSE IF R = <<>> /\ markNext THEN AtMark
           ELSE IF Len(R) >= cl.n0 THEN r = Ret(SubSeq(R, 1, cl.n0))
           ELSE term /\ r = Inc(R)
      [] cl.k \in {"until", "line"} ->
           LET e == RefEnd(cl.sep, R)
               part == IF cl.k = "line" THEN Ret(R) ELSE Inc(R) IN
           IF R = <<>> /\ markNext THEN AtMark
           ELSE IF e > 0 THEN r = Ret(SubSeq(R, 1, e))
           ELSE \* no separator in what has arrived: partial result only at
                \* a marker, at EOF, or when the buffer limit is reached (the
                \* designed escape from the flow-control deadlock)
                \* - with something to return: an empty result would read as EOF
                (term \/ (sn.full /\ R # <<>>)) /\ r = part
      [] cl.k = "next" ->
           \* __anext__ on a stream that is at EOF: iteration stops
           r.k = "stop" /\ sn.eof /\ B = <<>>
      [] cl.k = "collect" ->
           \* everything that has entered the streams and is unread
           r.v = sn.B /\ r.v2 = sn.B2
      [] cl.k = "wait" ->
           \* ExitImpliesAllOutput
           /\ r.v = sn.B /\ r.v2 = sn.B2
           /\ (r.x # "none" => sn.all)
           /\ sn.tgtok
      [] OTHER -> FALSE

-----------------------------------------------------------------------------
(* The code.                                                               *)
ShouldPause(cc) == cc.lim > 0 /\ cc.len >= cc.lim

Wake(cc, d) ==
    IF d \in CallDom /\ cc.call[d].k # "none" /\ cc.run # d /\ d \notin Range(cc.wq)
    THEN [cc EXCEPT !.wq = Append(@, d)] ELSE cc

RECURSIVE WakeSeq(_, _)
WakeSeq(cc, ds) == IF ds = <<>> THEN cc ELSE WakeSeq(Wake(cc, Head(ds)), Tail(ds))

Pause(cc) == IF ~cc.rp /\ ShouldPause(cc) THEN [cc EXCEPT !.rp = TRUE] ELSE cc

\* channel._deliver_data + session.data_received
Deliver(cc, d, u) ==
    LET nw == cc.cwin - Len(u)
        c1 == IF 2 * nw < cc.w
              THEN [cc EXCEPT !.cwin = cc.w, !.adj = @ + (cc.w - nw)]
              ELSE [cc EXCEPT !.cwin = nw]
        c2 == [c1 EXCEPT !.eff[d] = @ \o u]
    IN  IF c2.tgt[d].on
        THEN IF SlowTgt
             THEN [c2 EXCEPT !.tgt[d].q = Append(@, u),
                             !.tgt[d].late = @ \/ c2.tgt[d].eofq]
             ELSE [c2 EXCEPT !.tgt[d].data = @ \o u,
                             !.tgt[d].late = @ \/ c2.tgt[d].eof]
        ELSE Pause(Wake([c2 EXCEPT !.buf[d] = Append(@, u), !.len = @ + Len(u)], d))

TgtEOF(cc) == [cc EXCEPT !.tgt = [d \in DTs |-> TgtClose(cc.tgt[d])]]

SessEOF(cc) == WakeSeq(TgtEOF([cc EXCEPT !.eof = TRUE, !.ceof = "done"]), DTOrder)

\* channel._cleanup: session.connection_lost, then the close event
Cleanup(cc) ==
    LET c1 == [cc EXCEPT !.ccl = "done"]
        c2 == IF c1.eof THEN c1 ELSE SessEOF(c1)
    IN  Wake(c2, "w")

\* channel._flush_recv_buf
RECURSIVE FlushC(_)
FlushC(cc) ==
    IF cc.cbuf # <<>> /\ ~cc.rp
    THEN FlushC(Deliver([cc EXCEPT !.cbuf = Tail(@)], Head(cc.cbuf).dt, Head(cc.cbuf).u))
    ELSE LET c1 == IF cc.cbuf = <<>> /\ cc.ceof = "pending" THEN SessEOF(cc) ELSE cc IN
         IF (c1.cbuf = <<>> \/ CloseBug) /\ c1.ccl = "pending"
         THEN [c1 EXCEPT !.ccl = "sched", !.cbuf = <<>>, !.wq = Append(@, "cleanup")]
         ELSE c1

CanResume(cc) == cc.rp /\ ~ShouldPause(cc)
Resume(cc) == IF CanResume(cc) THEN FlushC([cc EXCEPT !.rp = FALSE]) ELSE cc

\* chan._send_state of the reading side
LQueued(cc) == IF cc.popen \/ cc.lw <= PeerWin THEN 0 ELSE cc.lw - PeerWin
SendState(cc) == IF ~cc.leof THEN "open"
                 ELSE IF LQueued(cc) > 0 THEN "eof_pending" ELSE "eof"

OnPacket(cc, p) ==
    CASE p.t = "data" -> IF DropWhileEofPending /\ SendState(cc) = "eof_pending"
                         THEN [cc EXCEPT !.adj = @ + Len(p.u)]     \* dropped, credited back
                         ELSE IF cc.rp THEN [cc EXCEPT !.cbuf = Append(@, p)]
                         ELSE Deliver(cc, p.dt, p.u)
      [] p.t = "mark" -> Wake([cc EXCEPT !.buf[p.dt] = Append(@, p.u),
                                         !.eff[p.dt] = @ \o p.u], p.dt)
      [] p.t = "eof"  -> FlushC([cc EXCEPT !.ceof = "pending"])
      [] p.t = "exit" -> [cc EXCEPT !.exit = p.u[1]]
      \* _process_close overwrites the receive state: an EOF that was still
      \* waiting for held data is from now on reported by the clean-up
      [] p.t = "close" -> FlushC([cc EXCEPT !.ccl = "pending",
                                            !.ceof = IF @ = "pending" THEN "no" ELSE @])

RECURSIVE ProcessAll(_, _)
ProcessAll(cc, ps) == IF ps = <<>> THEN cc ELSE ProcessAll(OnPacket(cc, Head(ps)), Tail(ps))

Snap(cc, d, full) ==
    [B |-> SubSeq(cc.eff[d], cc.pos[d] + 1, Len(cc.eff[d])), eof |-> cc.eof, full |-> full]

\* a call on d ends with result r after consuming adv items; sn was taken
\* before the final resume_reading
Finish(cc, d, r, adv, sn) ==
    LET cl == cc.call[d] IN
    [cc EXCEPT !.call[d] = NoCall,
               !.pos[d] = @ + adv,
               !.fin = Append(@, <<d, r.k, r.v, <<>>, "-">>),
               !.bad = @ \/ ~Allowed(cl, r, sn)]

RECURSIVE ReadLoop(_, _), ReadTail(_, _)
\* stream.py read(): the inner "while recv_buf and n != 0"
ReadLoop(cc, d) ==
    LET b == cc.buf[d]  cl == cc.call[d] IN
    IF b # <<>> /\ cl.n # 0
    THEN LET h == Head(b) IN
         IF IsMarkEntry(h)
         THEN IF cl.acc # <<>>
              THEN ReadTail([cc EXCEPT !.call[d].brk = TRUE], d)
              ELSE LET c1 == [cc EXCEPT !.buf[d] = Tail(b)] IN
                   IF h[1] = "!seof"
                   THEN ReadTail([c1 EXCEPT !.call[d].n = 0, !.call[d].cur = 1], d)
                   ELSE Finish(c1, d, Exc(h[1]), 1, Snap(cc, d, FALSE))
         ELSE IF cl.n > 0 /\ Len(h) > cl.n
              THEN ReadTail([cc EXCEPT !.call[d].acc = @ \o SubSeq(h, 1, cl.n),
                                       !.call[d].n = 0,
                                       !.buf[d] = <<SubSeq(h, cl.n + 1, Len(h))>> \o Tail(b),
                                       !.len = @ - cl.n], d)
              ELSE ReadLoop([cc EXCEPT !.call[d].acc = @ \o h,
                                       !.call[d].n = cl.n - Len(h),
                                       !.buf[d] = Tail(b),
                                       !.len = @ - Len(h)], d)
    ELSE ReadTail(cc, d)

\* ... and what follows it in the outer loop
ReadTail(cc, d) ==
    LET cl == cc.call[d] IN
    IF CanResume(cc) THEN ReadLoop(Resume(cc), d)
    ELSE IF \/ cl.n = 0
            \/ (cl.n > 0 /\ cl.acc # <<>> /\ cl.k = "read")
            \/ (cl.n < 0 /\ cc.buf[d] # <<>>)
            \/ cc.eof \/ cl.brk
         THEN Finish(cc, d, IF cl.n > 0 /\ cl.k = "exact" THEN Inc(cl.acc) ELSE Ret(cl.acc),
                     Len(cl.acc) + cl.cur, Snap(cc, d, FALSE))
         ELSE cc        \* _block_read

\* stream.py readuntil(); cur = curbuf
RECURSIVE UntilLoop(_, _)
UntilLoop(cc, d) ==
    LET b == cc.buf[d]  cl == cc.call[d]  cur == cl.cur
        wrap(x) == IF cl.k = "line" THEN Ret(x) ELSE Inc(x) IN
    IF cur < Len(b)
    THEN LET e == b[cur + 1]
             pre == Flat(SubSeq(b, 1, cur))
             buflen == Len(pre) IN
         IF IsMarkEntry(e)
         THEN IF pre # <<>>
              THEN LET c1 == [cc EXCEPT !.buf[d] = SubSeq(b, cur + 1, Len(b)),
                                        !.len = @ - buflen] IN
                   Finish(IF ResumeFix THEN Resume(c1) ELSE c1, d, wrap(pre), buflen,
                          Snap(cc, d, FALSE))
              ELSE LET c1 == [cc EXCEPT !.buf[d] = Tail(b)] IN
                   IF e[1] = "!seof" THEN Finish(c1, d, Ret(<<>>), 1, Snap(cc, d, FALSE))
                   ELSE Finish(c1, d, Exc(e[1]), 1, Snap(cc, d, FALSE))
         ELSE LET nb == pre \o e
                  seplen == SepLen(cl.sep)
                  start == IF SearchBug THEN buflen
                           ELSE IF seplen = 0 THEN 0 ELSE Max(buflen + 1 - seplen, 0)
                  m == Search(cl.sep, nb, start) IN
              IF m > 0
              THEN LET rest == SubSeq(nb, m + 1, Len(nb))
                       c1 == [cc EXCEPT !.buf[d] = (IF rest = <<>> THEN <<>> ELSE <<rest>>)
                                                   \o SubSeq(b, cur + 2, Len(b)),
                                        !.len = @ - m] IN
                   Finish(Resume(c1), d, Ret(SubSeq(nb, 1, m)), m, Snap(cc, d, FALSE))
              ELSE UntilLoop([cc EXCEPT !.call[d].cur = cur + 1], d)
    ELSE IF (cc.rp /\ (~EscapeFix \/ b # <<>>)) \/ cc.eof
         THEN LET pre == Flat(b)
                  c1 == [cc EXCEPT !.buf[d] = <<>>, !.len = @ - Len(pre)] IN
              Finish(Resume(c1), d, wrap(pre), Len(pre), Snap(cc, d, ShouldPause(cc)))
         ELSE cc            \* _block_read

\* process.py wait() = communicate(): limit := 0, resume, wait for the close
\* event, collect_output()
WaitStep(cc) ==
    LET c1 == IF cc.call["w"].cur = 0
              THEN Resume([cc EXCEPT !.lim = 0, !.call["w"].cur = 1]) ELSE cc IN
    \* SSHProcess.wait_closed(): the channel's close event, then the clean-up
    \* tasks = the queues of the background writers
    IF c1.ccl = "done" /\ (ReportAtChannelClose \/ \A d \in DTs : c1.tgt[d].q = <<>>)
    THEN LET o == Flat(c1.buf["out"])
             e == IF "err" \in DTs THEN Flat(c1.buf["err"]) ELSE <<>>
             r == [k |-> "wait", v |-> o, v2 |-> e, x |-> c1.exit]
             unread(d) == IF d \notin DTs \/ c1.tgt[d].on THEN <<>>
                          ELSE SubSeq(c1.eff[d], c1.pos[d] + 1, Len(c1.eff[d]))
             sn == [B |-> unread("out"), B2 |-> unread("err"),
                    all |-> \A d \in DTs : c1.tgt[d].on \/ DataOf(c1.eff[d]) = DataOf(S[d]),
                    \* ExitAfterOutput: every redirect target holds all of its
                    \* stream and has been given EOF
                    tgtok |-> \A d \in DTs : c1.tgt[d].on =>
                                /\ c1.tgt[d].q = <<>> /\ c1.tgt[d].eof
                                /\ DataOf(SubSeq(c1.eff[d], 1, c1.pos[d])) \o c1.tgt[d].data
                                     = DataOf(S[d])]
         IN [c1 EXCEPT !.call["w"] = NoCall,
                       !.buf = [d \in DTs |-> <<>>],
                       !.len = 0,
                       !.pos = [d \in DTs |-> IF c1.tgt[d].on THEN c1.pos[d]
                                              ELSE Len(c1.eff[d])],
                       !.fin = Append(@, <<"w", "wait", o, e, c1.exit>>),
                       !.bad = @ \/ ~Allowed(c1.call["w"], r, sn)]
    ELSE c1

\* process.py collect_output(): synchronous; stdout is taken first, then
\* stderr (in the repaired code each step gives the space back and resumes)
DoCollect(cc) ==
    LET unread(x, d) == IF d \notin DTs THEN <<>>
                        ELSE SubSeq(x.eff[d], x.pos[d] + 1, Len(x.eff[d]))
        hasErr == "err" \in DTs
        o  == Flat(cc.buf["out"])
        c1 == [cc EXCEPT !.buf["out"] = <<>>, !.pos["out"] = Len(cc.eff["out"])]
        c2 == IF CollectFix THEN Resume([c1 EXCEPT !.len = @ - Len(o)]) ELSE c1
        e  == IF hasErr THEN Flat(c2.buf["err"]) ELSE <<>>
        c3 == IF hasErr
              THEN [c2 EXCEPT !.buf["err"] = <<>>, !.pos["err"] = Len(c2.eff["err"])]
              ELSE c2
        c4 == IF CollectFix THEN Resume([c3 EXCEPT !.len = @ - Len(e)]) ELSE c3
        r  == [k |-> "collect", v |-> o, v2 |-> e]
        sn == [B |-> unread(cc, "out"), B2 |-> unread(c2, "err")]
    IN [c4 EXCEPT !.fin = Append(@, <<"w", "collect", o, e, "-">>),
                  !.bad = @ \/ ~Allowed([NoCall EXCEPT !.k = "collect"], r, sn)]

RunOne(cc, d) ==
    IF d = "cleanup" THEN Cleanup(cc)
    ELSE LET c1 == [cc EXCEPT !.run = d]
             c2 == IF d = "w" THEN WaitStep(c1)
                   ELSE IF c1.call[d].k \in {"read", "exact"} THEN ReadLoop(c1, d)
                   ELSE IF c1.call[d].k = "next"
                        \* SSHReader.__anext__: at_eof() ? stop : readline()
                        THEN IF c1.eof /\ c1.buf[d] = <<>>
                             THEN Finish(c1, d, [k |-> "stop", v |-> <<>>], 0, Snap(c1, d, FALSE))
                             ELSE UntilLoop([c1 EXCEPT !.call[d].k = "line"], d)
                   ELSE UntilLoop(c1, d) IN
         [c2 EXCEPT !.run = "-"]

RECURSIVE RunReaders(_)
RunReaders(cc) == IF cc.wq = <<>> THEN cc
                  ELSE RunReaders(RunOne([cc EXCEPT !.wq = Tail(@)], Head(cc.wq)))

\* process.py _create_writer + feed_recv_buf
\* (set_writer: an earlier writer is closed and replaced; the new one is fed
\* what is buffered - nothing, if there was a writer - and EOF if it was seen)
DoRedirect(cc, d) ==
    IF cc.tgt[d].on
    THEN Resume([cc EXCEPT !.tgt[d].gens = Append(@, Len(cc.tgt[d].data)),
                           !.tgt[d].eof = cc.eof])
    ELSE
    LET data == DataOf(Flat(cc.buf[d]))
        t0 == [NoTgt EXCEPT !.on = TRUE,
                            !.data = IF SlowTgt THEN <<>> ELSE data,
                            !.q = IF SlowTgt THEN cc.buf[d] ELSE <<>>]
        c1 == [cc EXCEPT !.tgt[d] = IF cc.eof THEN TgtClose(t0) ELSE t0,
                         !.buf[d] = <<>>,
                         !.len = @ - Len(data)]
    IN Resume(c1)

-----------------------------------------------------------------------------
CanonOut == <<"a", "b", "n", "a", "b", "n", "a", "b">>
CanonErr == <<"n", "a", "n", "a", "n", "a">>
PrimStreams == IF Canon THEN {SubSeq(CanonOut, 1, k) : k \in 0..MaxLen}
               ELSE {p \in SeqsUpTo(Units \cup Marks, MaxLen) :
                       Cardinality({i \in DOMAIN p : p[i] \in AllMarks}) <= MaxMarks}
ErrStreams  == IF Canon THEN {SubSeq(CanonErr, 1, k) : k \in 0..MaxErr}
               ELSE SeqsUpTo({"a", "n"}, MaxErr)
Streams ==
    {s \in {[d \in DTs |-> IF d = Prim THEN p ELSE e] : p \in PrimStreams, e \in ErrStreams} :
        \A d \in DTs \ {Prim} : Len(s[Prim]) + Len(s[d]) <= MaxLen}

SampledStreams == IF StreamSample = 0 \/ StreamSample >= Cardinality(Streams) THEN Streams
                  ELSE RandomSubset(StreamSample, Streams)

Init ==
    /\ S \in SampledStreams
    /\ \E W \in Windows : c = InitC(W) /\ swin = W
    /\ sent = [d \in DTs |-> 0]
    /\ eofSent = FALSE /\ exitSent = FALSE /\ closeSent = FALSE
    /\ wire = <<>> /\ ok = TRUE /\ ncalls = 0 /\ hist = <<>>

AllSent == \A d \in DTs : sent[d] = Len(S[d])
\* what SSHReader.at_eof() answers for every stream after the step (the
\* driver polls it after every step in every replay)
AE(cc) == [i \in 1..Len(DTOrder) |-> cc.eof /\ cc.buf[DTOrder[i]] = <<>>]
Hist(l) == IF PrintAt > 0 THEN Append(hist, l) ELSE hist
Idle    == wire = <<>>
NoActiveCall == \A d \in CallDom : c.call[d].k = "none"

AtEOF(d) == c.eof /\ c.buf[d] = <<>>
\* policy "two": the reader of d has seen the end (for __anext__: has stopped)
Stopped(d) == \E i \in DOMAIN hist : /\ hist[i][1] = "call" /\ hist[i][2] = d
                                     /\ hist[i][6] # <<>> /\ hist[i][6][1][2] = "stop"
FirstCallKind == IF \E i \in DOMAIN hist : hist[i][1] = "call"
                 THEN hist[SetMin({i \in DOMAIN hist : hist[i][1] = "call"})][3] ELSE "-"
Done(d) == IF FirstCallKind = "next" THEN Stopped(d) ELSE AtEOF(d) /\ FirstCallKind # "-"
ReadersBusy == \A d \in Readers : c.call[d].k # "none" \/ Done(d)

EmitOK ==
    /\ ~closeSent /\ Len(wire) < MaxBatch
    /\ Policy = "rfl" => c.call[Prim].k # "none"
    /\ Policy = "dfl" => ncalls = 0
    \* any prefix of the packets may arrive before the first call is made
    /\ Policy = "two" => ncalls = 0 \/ ReadersBusy
    /\ \A i \in DOMAIN wire : wire[i].u # <<"!seof">>

EmitData(d, k) ==
    /\ EmitOK /\ ~eofSent
    /\ k >= 1 /\ k <= swin /\ sent[d] + k <= Len(S[d])
    /\ \A i \in (sent[d] + 1)..(sent[d] + k) : S[d][i] \notin AllMarks
    /\ wire' = Append(wire, [t |-> "data", dt |-> d, u |-> SubSeq(S[d], sent[d] + 1, sent[d] + k)])
    /\ sent' = [sent EXCEPT ![d] = @ + k]
    /\ swin' = swin - k
    /\ hist' = Hist(<<"emit", "data", d, SubSeq(S[d], sent[d] + 1, sent[d] + k)>>)
    /\ UNCHANGED <<S, eofSent, exitSent, closeSent, c, ok, ncalls>>

EmitMark(d) ==
    /\ EmitOK /\ ~eofSent
    /\ sent[d] < Len(S[d]) /\ S[d][sent[d] + 1] \in AllMarks
    /\ S[d][sent[d] + 1] = "!seof" => wire = <<>>
    /\ wire' = Append(wire, [t |-> "mark", dt |-> d, u |-> <<S[d][sent[d] + 1]>>])
    /\ sent' = [sent EXCEPT ![d] = @ + 1]
    /\ hist' = Hist(<<"emit", "mark", d, <<S[d][sent[d] + 1]>> >>)
    /\ UNCHANGED <<S, eofSent, exitSent, closeSent, swin, c, ok, ncalls>>

EmitEOF ==
    /\ EmitOK /\ ~eofSent /\ AllSent
    /\ wire' = Append(wire, [t |-> "eof", dt |-> Prim, u |-> <<>>])
    /\ eofSent' = TRUE
    /\ hist' = Hist(<<"emit", "eof", Prim, <<>> >>)
    /\ UNCHANGED <<S, sent, exitSent, closeSent, swin, c, ok, ncalls>>

EmitExit(x) ==
    /\ Proc /\ EmitOK /\ ~exitSent
    /\ Policy \in {"red", "two", "exw"} => x = "status" /\ AllSent
    /\ wire' = Append(wire, [t |-> "exit", dt |-> Prim, u |-> <<x>>])
    /\ exitSent' = TRUE
    /\ hist' = Hist(<<"emit", "exit", Prim, <<x>> >>)
    /\ UNCHANGED <<S, sent, eofSent, closeSent, swin, c, ok, ncalls>>

EmitClose ==
    /\ Proc /\ EmitOK /\ AllSent
    /\ Policy \in {"red", "two", "exw"} => exitSent
    /\ wire' = Append(wire, [t |-> "close", dt |-> Prim, u |-> <<>>])
    /\ closeSent' = TRUE
    /\ hist' = Hist(<<"emit", "close", Prim, <<>> >>)
    /\ UNCHANGED <<S, sent, eofSent, exitSent, swin, c, ok, ncalls>>

Settle(c2) == /\ c' = [c2 EXCEPT !.adj = 0, !.fin = <<>>]
              /\ swin' = swin + c2.adj
              /\ ok' = (ok /\ ~c2.bad)

Run ==
    /\ wire # <<>>
    /\ Policy \in {"rfl", "dfl", "red", "two", "exw"} => Len(wire) = 1
    /\ LET c2 == RunReaders(ProcessAll(c, wire)) IN
         /\ Settle(c2)
         /\ hist' = Hist(<<"run", c2.fin, AE(c2)>>)
    /\ wire' = <<>>
    /\ UNCHANGED <<S, sent, eofSent, exitSent, closeSent, ncalls>>

CallKinds ==
    {[NoCall EXCEPT !.k = "read", !.n = n, !.n0 = n] : n \in Ns \cup (IF ReadAll THEN {-1} ELSE {})}
      \cup {[NoCall EXCEPT !.k = "exact", !.n = n, !.n0 = n] : n \in Ns}
      \cup {[NoCall EXCEPT !.k = "until", !.sep = s] : s \in SepChoice}
      \cup {[NoCall EXCEPT !.k = "line", !.sep = NlSep]}
      \cup {[NoCall EXCEPT !.k = "next", !.sep = NlSep]}

CallOK ==
    /\ Idle
    /\ MaxCalls > 0 => ncalls < MaxCalls
    /\ Policy = "dfl" => eofSent

FirstCall == hist[SetMin({i \in DOMAIN hist : hist[i][1] = "call"})]
SameAsFirst(cl) == ncalls >= 1 => /\ cl.k = FirstCall[3] /\ cl.n0 = FirstCall[4] /\ cl.sep = FirstCall[5]

StartCall(d, cl) ==
    /\ CallOK
    /\ Policy \in {"rfl", "dfl"} => /\ d = Prim /\ SameAsFirst(cl) /\ ~AtEOF(d)
                                   /\ (cl.k \in {"read", "exact"} => cl.n0 # 0)
    /\ Policy # "exw"
    /\ Policy = "red" => cl.k = "read" /\ cl.n0 > 0
    /\ Policy = "two" => /\ d \in Readers /\ SameAsFirst(cl) /\ ~Done(d)
                         /\ (cl.k \in {"read", "exact"} => cl.n0 # 0)
    /\ c.call[d].k = "none" /\ ~c.tgt[d].on
    /\ Proc => c.call["w"].k = "none"
    /\ LET c2 == RunReaders([c EXCEPT !.call[d] = cl, !.wq = <<d>>]) IN
         /\ Settle(c2)
         /\ hist' = Hist(<<"call", d, cl.k, cl.n, cl.sep, c2.fin, AE(c2)>>)
    /\ ncalls' = IF MaxCalls > 0 THEN ncalls + 1 ELSE ncalls
    /\ UNCHANGED <<S, sent, eofSent, exitSent, closeSent, wire>>

StartWait ==
    /\ Proc /\ CallOK /\ NoActiveCall /\ Policy \notin {"red", "two"}
    /\ LET c2 == RunReaders([c EXCEPT !.call["w"] = [NoCall EXCEPT !.k = "wait"],
                                      !.wq = <<"w">>]) IN
         /\ Settle(c2)
         /\ hist' = Hist(<<"call", "w", "wait", 0, "-", c2.fin, AE(c2)>>)
    /\ ncalls' = IF MaxCalls > 0 THEN ncalls + 1 ELSE ncalls
    /\ UNCHANGED <<S, sent, eofSent, exitSent, closeSent, wire>>

StartCollect ==
    /\ Proc /\ CallOK /\ NoActiveCall /\ Policy \notin {"red", "two", "exw"}
    /\ \A d \in DTs : ~c.tgt[d].on
    /\ LET c2 == RunReaders(DoCollect(c)) IN
         /\ Settle(c2)
         /\ hist' = Hist(<<"call", "w", "collect", 0, "-", c2.fin, AE(c2)>>)
    /\ ncalls' = IF MaxCalls > 0 THEN ncalls + 1 ELSE ncalls
    /\ UNCHANGED <<S, sent, eofSent, exitSent, closeSent, wire>>

Redirect(d) ==
    /\ Redir /\ Idle /\ NoActiveCall
    /\ ~c.tgt[d].on \/ Len(c.tgt[d].gens) + 1 < MaxRedir
    \* "exw": redirected from the start (late redirection has its own table)
    /\ Policy = "exw" => \A i \in DOMAIN hist : hist[i][1] = "redirect"
    /\ LET c2 == RunReaders(DoRedirect(c, d)) IN
         /\ Settle(c2)
         \* with the buffer state the redirection meets: chunks buffered in the
         \* stream, reading paused, chunks / EOF / CLOSE parked in the channel,
         \* target already installed
         /\ hist' = Hist(<<"redirect", d, c2.fin,
                           <<Len(c.buf[d]), c.rp, Len(c.cbuf), c.ceof = "pending",
                             c.ccl = "pending", c.tgt[d].on>>, AE(c2)>>)
    /\ UNCHANGED <<S, sent, eofSent, exitSent, closeSent, wire, ncalls>>

CanEmit ==
    /\ ~closeSent
    /\ \/ ~eofSent /\ swin >= 1 /\ ~AllSent
       \/ AllSent /\ ~eofSent
       \/ Proc /\ AllSent /\ ~exitSent
       \/ Proc /\ exitSent
\* the local application writes / sends EOF; the peer starts reading again
Local(kind, k) ==
    /\ Duplex /\ Idle
    \* tables: the application writes (and sends EOF) before the first packet
    \* arrives, the peer may start reading at any later idle point
    /\ Policy # "any" /\ kind # "popen" => ~\E i \in DOMAIN hist : hist[i][1] = "emit"
    /\ CASE kind = "lwrite" -> ~c.leof /\ c.lw + k <= MaxLocal
         [] kind = "leof" -> ~c.leof /\ k = 0
         [] kind = "popen" -> ~c.popen /\ c.lw > 0 /\ k = 0
    /\ c' = CASE kind = "lwrite" -> [c EXCEPT !.lw = @ + k]
              [] kind = "leof" -> [c EXCEPT !.leof = TRUE]
              [] kind = "popen" -> [c EXCEPT !.popen = TRUE]
    /\ hist' = Hist(<<kind, k, SendState(c'), AE(c)>>)
    /\ UNCHANGED <<S, sent, eofSent, exitSent, closeSent, wire, swin, ok, ncalls>>

\* the target lets the writer task complete one write
TStep(d) ==
    /\ SlowTgt /\ Idle /\ c.tgt[d].on /\ c.tgt[d].q # <<>>
    /\ LET t1 == TgtSettle([c.tgt[d] EXCEPT !.data = @ \o Head(c.tgt[d].q), !.q = Tail(@)])
           c1 == [c EXCEPT !.tgt[d] = t1]
           c2 == RunReaders(IF t1.q = <<>> THEN Wake(c1, "w") ELSE c1) IN
         /\ Settle(c2)
         /\ hist' = Hist(<<"tstep", d, c2.fin, AE(c2)>>)
    /\ UNCHANGED <<S, sent, eofSent, exitSent, closeSent, wire, ncalls>>

Terminal ==
    CASE Policy = "exw" -> /\ closeSent /\ Idle /\ ncalls >= 1 /\ c.call["w"].k = "none"
                           /\ \E d \in DTs : c.tgt[d].on
      [] Policy \in {"rfl", "dfl"} -> eofSent /\ Idle /\ NoActiveCall /\ AtEOF(Prim) /\ ncalls >= 1
      [] Policy = "red" -> /\ eofSent /\ Idle /\ (Proc => closeSent)
                           /\ \E d \in DTs : c.tgt[d].on
      [] Policy = "two" ->
           /\ Idle /\ ReadersBusy /\ (ncalls >= 1 \/ Readers = {})
           /\ \/ ~CanEmit     \* everything sent, or stuck behind the unread stream
              \/ (eofSent \/ closeSent) /\ (Proc => closeSent) /\ \A d \in Readers : Done(d)
      [] OTHER -> FALSE
Stop == PrintAt > 0 /\ (Terminal \/ Len(hist) >= PrintAt)

Pad == /\ PrintAt > 0 /\ Policy = "any" /\ Idle
       /\ hist' = Append(hist, <<"pad">>)
       /\ UNCHANGED <<S, sent, eofSent, exitSent, closeSent, wire, swin, c, ok, ncalls>>

Next ==
  /\ ~Stop
  /\
    \/ Pad
    \/ \E d \in DTs, k \in 1..MaxLen : EmitData(d, k)
    \/ \E d \in DTs : EmitMark(d)
    \/ EmitEOF
    \/ \E x \in {"status", "signal"} : EmitExit(x)
    \/ EmitClose
    \/ Run
    \/ \E d \in DTs, cl \in CallKinds : StartCall(d, cl)
    \/ StartWait
    \/ StartCollect
    \/ \E d \in DTs : Redirect(d)
    \/ \E d \in DTs : TStep(d)
    \/ \E kind \in {"lwrite", "leof", "popen"}, k \in {0, 1, 3} : Local(kind, k) /\ (kind = "lwrite" => k > 0)

Spec == Init /\ [][Next]_vars

-----------------------------------------------------------------------------
(* Properties *)

ChunkIndependent == ok

\* the unread part of what entered the stream is exactly what is buffered
\* (plus what the running call has taken so far); what was sent is what
\* entered the stream plus what is still held by the channel or on the wire
RECURSIVE HeldData(_, _)
HeldData(q, d) == IF q = <<>> THEN <<>>
                  ELSE (IF Head(q).dt = d /\ Head(q).t = "data" THEN Head(q).u ELSE <<>>)
                       \o HeldData(Tail(q), d)
RECURSIVE WireMarks(_, _)
WireMarks(q, d) == IF q = <<>> THEN <<>>
                   ELSE (IF Head(q).dt = d /\ Head(q).t = "mark" THEN Head(q).u ELSE <<>>)
                        \o WireMarks(Tail(q), d)

NothingLost ==
    \A d \in DTs :
      /\ IF c.tgt[d].on
         THEN SubSeq(c.eff[d], c.pos[d] + 1, Len(c.eff[d])) = c.tgt[d].data \o QData(c.tgt[d].q)
         ELSE SubSeq(c.eff[d], c.pos[d] + 1, Len(c.eff[d])) = c.call[d].acc \o Flat(c.buf[d])
      /\ (c.ccl \in {"no", "pending"} \/ ~CloseBug) =>
           DataOf(c.eff[d]) \o HeldData(c.cbuf, d) \o HeldData(wire, d)
              = DataOf(SubSeq(S[d], 1, sent[d]))
      /\ MarksOf(c.eff[d]) \o WireMarks(wire, d) = MarksOf(SubSeq(S[d], 1, sent[d]))
      /\ c.len = Len(DataOf(Flat([i \in 1..Len(DTOrder) |-> Flat(c.buf[DTOrder[i]])])))

\* redirections: every unit that was not read before the redirection reaches
\* the target, then EOF, nothing after EOF
AllDataThenEOF ==
    \A d \in DTs : c.tgt[d].on =>
      /\ ~c.tgt[d].late
      /\ c.eof => (c.tgt[d].eof \/ (SlowTgt /\ c.tgt[d].eofq))
      /\ c.tgt[d].eof =>
           DataOf(SubSeq(c.eff[d], 1, c.pos[d])) \o c.tgt[d].data = DataOf(S[d])

\* reading is paused exactly while the buffer is at its limit (the repaired
\* rule; the code as it is violates this after an incomplete read at a marker)
PauseAccurate == Idle => (c.rp <=> ShouldPause(c))

TypeOK ==
    /\ c.len >= 0 /\ c.cwin >= 0 /\ c.cwin <= c.w /\ swin >= 0
    /\ c.wq = <<>> /\ c.fin = <<>> /\ c.adj = 0 /\ c.run = "-"
    /\ \A d \in DTs : c.pos[d] <= Len(c.eff[d])

\* vacuity witnesses (each must be reported as violated = reachable)
NeverEscape   == ~(\E d \in DTs : c.rp /\ c.call[d].k = "none" /\ c.buf[d] # <<>> /\ c.pos[d] > 0)
NeverHeld     == c.cbuf = <<>>
NeverWaitDone == ~(Proc /\ c.ccl = "done" /\ c.exit # "none" /\ c.pos[Prim] > 0)

-----------------------------------------------------------------------------
(* Case output: one line per behaviour, tuples only (JSON after << >> -> [ ]) *)
PrintCase ==
    Stop => PrintT(ToString(<<"CASE", c.w, [i \in 1..Len(DTOrder) |-> S[DTOrder[i]]], hist,
                              [i \in 1..Len(DTOrder) |->
                                 <<c.tgt[DTOrder[i]].gens, c.tgt[DTOrder[i]].data>>]>>))
=============================================================================
