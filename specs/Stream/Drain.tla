-------------------------------- MODULE Drain --------------------------------
(***************************************************************************)
(* Writing side of a stream session: SSHWriter.write / drain               *)
(* (stream.py drain, _should_block_drain, pause_writing/resume_writing,    *)
(* connection_lost) over channel.py write/_flush_send_buf/                 *)
(* _pause_resume_writing/_process_window_adjust/_close_send.               *)
(*                                                                         *)
(* The peer holds what it receives (reading paused) and opens up only in   *)
(* PeerOpen steps, so that the writer's buffer fills and drain() has to    *)
(* wait.  DrainSound: drain() returns normally only when writing is not    *)
(* paused; it raises only when the channel is gone; nobody waits in        *)
(* drain() once writing is possible again or the channel is gone.          *)
(***************************************************************************)
EXTENDS Integers, Sequences, TLC

CONSTANTS High, Low,     \* write buffer water marks
          Win,           \* the peer's receive window
          Sizes,         \* write sizes
          MaxBuf,        \* bound on the buffered amount
          MaxOps,
          PrintAt,
          NoWait,        \* sensitivity: drain never waits
          NoRaise        \* sensitivity: drain returns normally on a dead channel

VARIABLES buf,    \* chan._send_buf: sizes of the chunks written and not yet sent
          win,    \* chan._send_window
          rw,     \* peer: chan._recv_window
          held,   \* peer: packets received and not yet delivered
          wp,     \* session._write_paused
          lost,   \* "no" | "clean" (CLOSE from the peer) | "exc" (connection lost)
          dr,     \* "idle" | "waiting"
          res,    \* outcome of the last drain(): "none" | "ret" | "raise"
          resWp,  \* writing was paused when it returned
          nops, hist

vars == <<buf, win, rw, held, wp, lost, dr, res, resWp, nops, hist>>
view == <<buf, win, rw, held, wp, lost, dr, res, resWp>>

Min(a, b) == IF a <= b THEN a ELSE b
RECURSIVE Sum(_)
Sum(q) == IF q = <<>> THEN 0 ELSE Head(q) + Sum(Tail(q))
PauseResume(b, p) == IF p THEN b > Low ELSE b > High

\* channel._flush_send_buf: one packet per written chunk, cut at the window
RECURSIVE Flush(_, _, _)
Flush(q, w, out) ==
    IF q = <<>> \/ w = 0 THEN [q |-> q, w |-> w, out |-> out]
    ELSE IF Head(q) > w THEN Flush(<<Head(q) - w>> \o Tail(q), 0, Append(out, w))
    ELSE Flush(Tail(q), w - Head(q), Append(out, Head(q)))

Init == /\ buf = <<>> /\ win = Win /\ rw = Win /\ held = <<>> /\ wp = FALSE
        /\ lost = "no" /\ dr = "idle" /\ res = "none" /\ resWp = FALSE
        /\ nops = 0 /\ hist = <<>>

Hist(l) == IF PrintAt > 0 THEN Append(hist, l) ELSE hist
Count == nops' = IF MaxOps > 0 THEN nops + 1 ELSE nops
More == MaxOps > 0 => nops < MaxOps

\* what a waiting drain() does when it is woken / what a new drain() does
DrainOutcome(p, l) ==
    IF l = "no" THEN (IF p /\ ~NoWait THEN "wait" ELSE "ret")
    ELSE IF (l = "exc" \/ p) /\ ~NoRaise THEN "raise" ELSE "ret"

Finish(p, l) ==
    IF dr = "waiting" /\ DrainOutcome(p, l) # "wait"
    THEN /\ dr' = "idle" /\ res' = DrainOutcome(p, l) /\ resWp' = p
    ELSE UNCHANGED <<dr, res, resWp>>

Write(k) ==
    /\ More /\ lost = "no" /\ Sum(buf) + k <= MaxBuf
    /\ LET f == Flush(Append(buf, k), win, <<>>) IN
         /\ buf' = f.q /\ win' = f.w
         /\ held' = held \o f.out
         /\ wp' = PauseResume(Sum(f.q), wp)
         /\ Finish(PauseResume(Sum(f.q), wp), lost)
    /\ hist' = Hist(<<"write", k, dr', res'>>)
    /\ Count /\ UNCHANGED <<rw, lost>>

\* the peer reads everything it holds; window adjusts travel back, the
\* writer flushes, and so on until nothing moves
RECURSIVE Exchange(_, _, _, _)
Exchange(b, w, r, h) ==
    IF h = <<>> THEN [b |-> b, w |-> w, r |-> r]
    ELSE LET r1 == r - Head(h) IN
         IF 2 * r1 < Win
         THEN LET f == Flush(b, w + (Win - r1), <<>>) IN
              Exchange(f.q, f.w, Win, Tail(h) \o f.out)
         ELSE Exchange(b, w, r1, Tail(h))

PeerOpen ==
    /\ More /\ lost = "no" /\ held # <<>>
    /\ LET x == Exchange(buf, win, rw, held)
           p == IF wp THEN Sum(x.b) > Low ELSE FALSE IN
         /\ buf' = x.b /\ win' = x.w /\ rw' = x.r /\ held' = <<>>
         /\ wp' = p
         /\ Finish(p, lost)
    /\ hist' = Hist(<<"open", 0, dr', res'>>)
    /\ Count /\ UNCHANGED lost

PeerClose ==
    /\ More /\ lost = "no"
    /\ lost' = "clean" /\ buf' = <<>> /\ held' = <<>>
    /\ Finish(wp, "clean")
    /\ hist' = Hist(<<"close", 0, dr', res'>>)
    /\ Count /\ UNCHANGED <<win, rw, wp>>

ConnLost ==
    /\ More /\ lost = "no"
    /\ lost' = "exc" /\ buf' = <<>> /\ held' = <<>>
    /\ Finish(wp, "exc")
    /\ hist' = Hist(<<"lost", 0, dr', res'>>)
    /\ Count /\ UNCHANGED <<win, rw, wp>>

StartDrain ==
    /\ More /\ dr = "idle"
    /\ LET o == DrainOutcome(wp, lost) IN
         IF o = "wait" THEN /\ dr' = "waiting" /\ res' = "none" /\ resWp' = FALSE
         ELSE /\ dr' = "idle" /\ res' = o /\ resWp' = wp
    /\ hist' = Hist(<<"drain", 0, dr', res'>>)
    /\ Count /\ UNCHANGED <<buf, win, rw, held, wp, lost>>

Stop == PrintAt > 0 /\ Len(hist) >= PrintAt
Next == /\ ~Stop
        /\ \/ \E k \in Sizes : Write(k)
           \/ PeerOpen \/ PeerClose \/ ConnLost \/ StartDrain
Spec == Init /\ [][Next]_vars

DrainSound ==
    /\ res = "ret" => ~resWp
    /\ res = "raise" => lost # "no"
    /\ dr = "waiting" => (wp /\ lost = "no")
    /\ ~wp /\ lost = "no" => Sum(buf) <= High

TypeOK == win >= 0 /\ rw >= 0 /\ rw <= Win

NeverWaited == dr # "waiting"
NeverRaised == res # "raise"

PrintCase == Stop => PrintT(ToString(<<"CASE", High, Low, Win, hist>>))
=============================================================================
