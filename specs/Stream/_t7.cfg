CONSTANTS
  DTs = {"out", "err"}
  MaxLen = 3
  MaxErr = 1
  Marks = {}
  MaxMarks = 0
  Windows = {1, 2, 9}
  Ns = {0, 1, 2, 3, 4}
  ReadAll = TRUE
  Seps = {"nl", "ab", "tup", "re0", "reK"}
  ReMax = 3
  MaxBatch = 2
  MaxCalls = 0
  Proc = FALSE
  Redir = FALSE
  Policy = "any"
  PrintAt = 0
  SearchBug = FALSE
  CloseBug = FALSE
  ResumeFix = TRUE
SPECIFICATION Spec
CHECK_DEADLOCK FALSE
VIEW view
INVARIANT TypeOK
INVARIANT ChunkIndependent
INVARIANT NothingLost
INVARIANT PauseAccurate
