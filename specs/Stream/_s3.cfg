CONSTANTS
  DTs = {"out", "err"}
  MaxLen = 5
  MaxErr = 2
  Marks = {}
  MaxMarks = 0
  Windows = {1, 2, 3, 9}
  Ns = {1, 3}
  ReadAll = TRUE
  Seps = {"nl"}
  ReMax = 6
  MaxBatch = 3
  MaxCalls = 3
  Proc = TRUE
  Redir = FALSE
  Policy = "any"
  PrintAt = 24
  SearchBug = FALSE
  CloseBug = FALSE
  ResumeFix = TRUE
SPECIFICATION Spec
CHECK_DEADLOCK FALSE
INVARIANT ChunkIndependent
INVARIANT NothingLost
INVARIANT PrintCase
