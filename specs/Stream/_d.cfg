CONSTANTS
  High = 4
  Low = 1
  Win = 3
  Sizes = {1, 2, 5}
  MaxOps = 0
  PrintAt = 0
  NoWait = FALSE
  NoRaise = FALSE
SPECIFICATION Spec
CHECK_DEADLOCK FALSE
VIEW view
INVARIANT DrainSound
INVARIANT TypeOK
