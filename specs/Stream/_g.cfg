CONSTANTS
  DTs = {"out"}
  MaxLen = 4
  MaxErr = 0
  Marks = {}
  MaxMarks = 0
  Windows = {9}
  Ns = {0, 1, 2, 4, 5}
  ReadAll = TRUE
  Seps = {"nl", "ab", "tup", "re0", "reK"}
  ReMax = 4
  MaxBatch = 1
  MaxCalls = 1
  Proc = FALSE
  Redir = FALSE
  Policy = "rf"
  PrintAt = 40
  SearchBug = FALSE
  CloseBug = FALSE
  ResumeFix = TRUE
SPECIFICATION Spec
CHECK_DEADLOCK FALSE
INVARIANT ChunkIndependent
INVARIANT PrintCase
