CONSTANTS
  DTs = {"out", "err"}
  MaxLen = 5
  MaxErr = 2
  Marks = {}
  MaxMarks = 0
  Windows = {1, 2, 3, 9}
  Ns = {0, 1, 2, 3, 5, 6}
  ReadAll = TRUE
  Seps = {"nl", "ab", "tup", "re0", "reK"}
  ReMax = 6
  MaxBatch = 3
  MaxCalls = 8
  Proc = FALSE
  Redir = FALSE
  Policy = "any"
  PrintAt = 24
  SearchBug = FALSE
  CloseBug = FALSE
  ResumeFix = TRUE
SPECIFICATION Spec
CHECK_DEADLOCK FALSE
INVARIANT ChunkIndependent
INVARIANT NothingLost
INVARIANT PrintCase
