------------------------------- MODULE Tamper -------------------------------
(***************************************************************************)
(* One direction of the encrypted SSH transport of asyncssh against an     *)
(* on-path adversary (connection.py send_packet / _recv_pkthdr /           *)
(* _recv_packet, encryption.py, mac.py).  A packet is authenticated under  *)
(* (key epoch, implicit sequence number); the four shapes of the           *)
(* encryption layer differ only in what a damaged LENGTH does:             *)
(*   EandM   length encrypted, MAC over the clear packet (ctr/cbc + hmac)  *)
(*   ETM     length clear, MAC over length || ciphertext                   *)
(*   GCM     length clear (AAD), nonce = invocation counter                *)
(*   CHACHA  length encrypted under a second key, nonce = sequence number  *)
(* "stall" (the receiver waits for bytes that never come) is an allowed    *)
(* outcome; delivering anything that is not the next genuine packet is not.*)
(***************************************************************************)
EXTENDS Naturals, Sequences, FiniteSets, TLC

CONSTANTS NPkts,         \* packets the sender emits
          Budget,        \* adversary actions
          Class,         \* "EandM" | "ETM" | "GCM" | "CHACHA"
          ParseAfterError, \* TRUE: sensitivity variant (input is still parsed after a fatal error)
          Strict,         \* strict key exchange ("kex-strict-*-v00@openssh.com"), which both ends of an
                          \* asyncssh connection negotiate: "on" (as coded): anything in front of the
                          \* first KEXINIT ends the connection, sequence numbers restart at NEWKEYS;
                          \* "silently_off": sensitivity variant - a packet in front of KEXINIT merely
                          \* switches strict mode off (the Terrapin prefix truncation becomes possible)
          EofIsClean      \* TRUE: sensitivity variant (end of stream without DISCONNECT = orderly close)

Regions == {"len", "body", "pad", "tag"}

VARIABLES
    emitted,    \* number of packets emitted so far (ids 1..emitted, seq = id - 1)
    wire,       \* packets in flight: [id, seq, taint, kind]
    rseq,       \* receiver's next sequence number / invocation counter
    rstate,     \* "ok" | "err" | "stall" | "clean" (orderly end reported to the application)
    fin,        \* the adversary ended the stream (FIN) behind what is left on the wire
    pre,        \* the adversary put an unauthenticated packet in front of the first KEXINIT
    delivered,  \* ids handed to the dispatcher
    touched,    \* smallest packet id the adversary has interfered at or before (0 = none)
    nadv,
    adv,        \* history of adversary actions
    lbl

vars == <<emitted, wire, rseq, rstate, fin, pre, delivered, touched, nadv, adv, lbl>>
view == <<emitted, wire, rseq, rstate, fin, pre, delivered, touched, nadv>>
viewA == <<emitted, wire, rseq, rstate, fin, pre, delivered, touched, nadv, adv>>

Init == /\ emitted = 0 /\ wire = <<>> /\ rseq = 0 /\ rstate = "ok" /\ fin = FALSE /\ pre = FALSE
        /\ delivered = <<>> /\ touched = 0 /\ nadv = 0 /\ adv = <<>>
        /\ lbl = <<"init">>

Emit ==
    /\ emitted < NPkts
    /\ emitted' = emitted + 1
    \* what is written behind the adversary's FIN goes nowhere
    /\ wire' = IF fin THEN wire
               ELSE Append(wire, [id |-> emitted + 1, seq |-> emitted, taint |-> "none",
                                  kind |-> "genuine"])
    /\ lbl' = <<"emit">>
    /\ UNCHANGED <<rseq, rstate, fin, pre, delivered, touched, nadv, adv>>

Touch(id) == IF touched = 0 \/ id < touched THEN id ELSE touched
\* the packet id at wire position i (for forged / foreign packets: the id of
\* the next genuine packet behind it, or emitted + 1)
IdAt(i) == IF i <= Len(wire) THEN wire[i].id ELSE emitted + 1

AdvStep(name, args, w, id) ==
    /\ nadv < Budget /\ rstate = "ok" /\ ~fin
    /\ wire' = w
    /\ touched' = Touch(id)
    /\ nadv' = nadv + 1
    /\ adv' = Append(adv, <<name, id>> \o args)
    /\ lbl' = <<"adv", name, id>> \o args
    /\ fin' = (name = "fin")
    /\ UNCHANGED <<emitted, rseq, rstate, delivered, pre>>

\* before any key is in effect nothing is authenticated: an IGNORE message put in front of the
\* first KEXINIT is accepted as such and moves the receiver's sequence number by one.  Strict
\* key exchange exists to make that harmless: the connection ends when the KEXINIT arrives
\* (it was not the first packet).
PreInsert ==
    /\ nadv < Budget /\ rstate = "ok" /\ ~fin /\ ~pre /\ emitted = 0 /\ delivered = <<>>
    /\ pre' = TRUE
    /\ IF Strict = "on"
       THEN rstate' = "err" /\ UNCHANGED rseq
       ELSE rseq' = rseq + 1 /\ UNCHANGED rstate       \* counted, and never reset
    /\ nadv' = nadv + 1 /\ touched' = Touch(1)
    /\ adv' = Append(adv, <<"preins", 0>>)
    /\ lbl' = <<"adv", "preins", 0>>
    /\ UNCHANGED <<emitted, wire, fin, delivered>>

Flip(i, region) ==
    /\ i \in 1..Len(wire) /\ wire[i].taint = "none"
    /\ AdvStep("flip", <<i, region>>, [wire EXCEPT ![i].taint = region], wire[i].id)
Truncate(i) ==
    /\ i \in 1..Len(wire) /\ wire[i].taint = "none"
    /\ AdvStep("trunc", <<i>>, [wire EXCEPT ![i].taint = "trunc"], wire[i].id)
\* the stream is ended (TCP FIN towards the receiver) in front of packet i: that packet and
\* everything behind it is removed, on a packet boundary, and the receiver sees end of stream
Fin(i) ==
    /\ i \in 1..Len(wire)
    /\ AdvStep("fin", <<i>>, SubSeq(wire, 1, i - 1), wire[i].id)
Drop(i) ==
    /\ i \in 1..Len(wire)
    /\ AdvStep("drop", <<i>>, SubSeq(wire, 1, i - 1) \o SubSeq(wire, i + 1, Len(wire)), wire[i].id)
Dup(i) ==
    /\ i \in 1..Len(wire)
    /\ AdvStep("dup", <<i>>, SubSeq(wire, 1, i) \o SubSeq(wire, i, Len(wire)), wire[i].id)
Swap(i) ==
    /\ i \in 1..(Len(wire) - 1)
    /\ AdvStep("swap", <<i>>, [wire EXCEPT ![i] = wire[i + 1], ![i + 1] = wire[i]], wire[i].id)
\* splice in, before position i, a packet recorded earlier in this direction
\* (replay), one from the other direction (other keys), or a forged one
Splice(i, what) ==
    /\ i \in 1..(Len(wire) + 1)
    /\ what \in {"replay", "foreign", "forged"}
    /\ what = "replay" => Len(delivered) > 0
    /\ LET p == IF what = "replay"
                THEN [id |-> delivered[1], seq |-> delivered[1] - 1, taint |-> "none", kind |-> "replay"]
                ELSE [id |-> 0, seq |-> 0, taint |-> "none", kind |-> what]
       IN AdvStep("splice", <<i, what>>,
                  SubSeq(wire, 1, i - 1) \o <<p>> \o SubSeq(wire, i, Len(wire)), IdAt(i))

\* does the receiver authenticate packet p as its next packet?
Authentic(p) == p.kind \in {"genuine", "replay"} /\ p.taint = "none" /\ p.seq = rseq

\* damaged length, or a nonce/sequence mismatch under an encrypted length:
\* the receiver may frame a longer packet and wait, or fail the MAC
MayStall(p) ==
    \/ p.taint \in {"len", "trunc"}
    \/ Class \in {"EandM", "CHACHA"} /\ ~Authentic(p)

Recv ==
    /\ wire # <<>> /\ (rstate = "ok" \/ (ParseAfterError /\ rstate = "err"))
    /\ LET p == Head(wire) IN
       /\ lbl' = <<"recv", p.id, p.kind, p.taint>>
       /\ UNCHANGED <<emitted, fin, pre, touched, nadv, adv>>
       /\ IF Authentic(p)
          THEN /\ delivered' = Append(delivered, p.id)
               /\ rseq' = rseq + 1
               /\ wire' = Tail(wire)
               /\ UNCHANGED rstate
          ELSE \/ /\ rstate' = "err"      \* MAC / tag failure -> MACError, connection ends
                  /\ wire' = IF ParseAfterError THEN wire ELSE Tail(wire)
                  \* a failed GCM attempt has already advanced the invocation counter
                  /\ rseq' = IF Class = "GCM" THEN rseq + 1 ELSE rseq
                  /\ UNCHANGED delivered
               \/ /\ MayStall(p)
                  /\ rstate' = "stall" /\ wire' = <<>>
                  /\ UNCHANGED <<rseq, delivered>>

\* end of stream without a DISCONNECT message (connection_lost with nothing pending, or in
\* the middle of a packet): ConnectionLost, an error the application sees -- never an orderly end
RecvEOF ==
    /\ fin /\ wire = <<>> /\ rstate \in {"ok", "stall"}     \* "stall": part of a packet is pending
    /\ rstate' = IF EofIsClean /\ rstate = "ok" THEN "clean" ELSE "err"
    /\ lbl' = <<"recveof">>
    /\ UNCHANGED <<emitted, wire, rseq, fin, pre, delivered, touched, nadv, adv>>

Next == Emit \/ Recv \/ RecvEOF \/ PreInsert
        \/ \E i \in 1..(NPkts + 2) :
              \/ \E r \in Regions : Flip(i, r)
              \/ Truncate(i) \/ Drop(i) \/ Fin(i) \/ Dup(i) \/ Swap(i)
              \/ \E w \in {"replay", "foreign", "forged"} : Splice(i, w)

Spec == Init /\ [][Next]_vars
LiveSpec == Spec /\ WF_vars(Recv) /\ WF_vars(Emit) /\ WF_vars(RecvEOF)

-----------------------------------------------------------------------------
IsPrefixIds == \A i \in 1..Len(delivered) : delivered[i] = i
\* nothing altered, lost-then-continued, duplicated, reordered or inserted is delivered
TamperEvident == IsPrefixIds
\* whenever the receiver has given up, everything before the first touched packet got through
PrefixIntact == (rstate \in {"err", "stall"} /\ touched > 0) => Len(delivered) >= touched - 1
\* the untouched stream is delivered completely
UntouchedComplete == (nadv = 0 /\ emitted = NPkts /\ wire = <<>>) => Len(delivered) = NPkts
\* an orderly end is only ever reported when nothing was taken away: the attacker can stall the
\* stream or make it fail, not shorten it unnoticed
NoCleanEndWhenAltered == (rstate = "clean") => (nadv = 0 /\ Len(delivered) = emitted)
EventuallyDecided == <>(wire = <<>> \/ rstate # "ok")

\* emits every distinct adversary schedule with the model's verdict (always TRUE)
EmitAdv == (nadv > 0 /\ (rstate # "ok" \/ (wire = <<>> /\ emitted = NPkts /\ ~fin))) =>
              PrintT(ToString(<<"SCRIPT", adv, <<rstate, Len(delivered)>> >>))

NeverStall == rstate # "stall"
NeverErr == rstate # "err"
=============================================================================
