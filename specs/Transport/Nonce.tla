------------------------------- MODULE Nonce -------------------------------
(***************************************************************************)
(* The per-packet nonce of the AEAD ciphers of the transport (C01: a       *)
(* packet of the past is never accepted again; C02: what is put on the     *)
(* wire is what an independent RFC implementation decodes).                *)
(*                                                                         *)
(* aes128/256-gcm@openssh.com (RFC 5647 section 7.1): the 12-byte nonce is *)
(* a FIXED field (4 bytes) followed by an INVOCATION COUNTER (8 bytes,     *)
(* big-endian); the initial value of both comes out of the key derivation, *)
(* so every value is possible; after each packet the counter is            *)
(* incremented modulo 2^64 and the fixed field never changes.  The same    *)
(* shape (F = 0, W = 4) is the SSH sequence number that goes into every    *)
(* MAC and is the whole nonce of chacha20-poly1305@openssh.com.            *)
(*                                                                         *)
(* The counter is modelled limb by limb (a limb stands for a byte) in      *)
(* radix 3: limb value 2 is the largest value of a limb (0xff), so every   *)
(* pattern of carries - how far a carry runs, whether it runs out of the   *)
(* counter - is reached from some initial state within three steps.  The   *)
(* driver maps limb value v to byte 0xfd + v, which has the same carries   *)
(* for as many steps as the model takes.                                   *)
(*                                                                         *)
(* Two parties are modelled: the SENDER, which follows Variant, and a      *)
(* REFERENCE receiver, which follows the RFC.  InStep says that they       *)
(* always hold the same nonce: it is what the independent decoder of the   *)
(* harness decides for the real code (a GCM tag verifies under one nonce   *)
(* only).  NonceFresh says that no nonce is used twice under one key.      *)
(* The wrong variants are ways of getting the carry wrong that still       *)
(* interoperate with a peer running the same code; TLC must reject each.   *)
(***************************************************************************)
EXTENDS Naturals, Sequences, FiniteSets, TLC

CONSTANTS W,        \* limbs of the counter
          F,        \* limbs of the fixed field (0: none)
          Steps,    \* packets sealed in one behaviour
          Variant   \* "rfc" | "carry_stops_half" | "low_limb_only" | "carry_into_fixed" | "no_wrap"

Max == 2
Limb == 0..Max
Half == W \div 2        \* "carry_stops_half": the carry out of the low half is dropped

VARIABLES fixedS, ctrS,     \* the sender (index 1 = most significant limb)
          fixedR, ctrR,     \* the reference receiver
          used,             \* nonces the sender has sealed a packet under
          n,                \* packets sealed so far
          init,             \* the initial <<fixed, counter>>, kept for the script
          wraps             \* per step: the limbs of the sender's counter that wrapped
vars == <<fixedS, ctrS, fixedR, ctrR, used, n, init, wraps>>

\* how far the carry runs when `c` is incremented: the low limbs that hold Max
RECURSIVE Run(_, _)
Run(c, i) == IF i = 0 THEN 0 ELSE IF c[i] = Max THEN 1 + Run(c, i - 1) ELSE 0
CarryLen(c) == Run(c, Len(c))

\* increment modulo (Max+1)^Len(c): the low CarryLen limbs wrap, the next one up counts
RfcInc(c) ==
    LET L == Len(c) r == CarryLen(c) IN
    [i \in 1..L |-> IF i > L - r THEN 0 ELSE IF i = L - r THEN c[i] + 1 ELSE c[i]]

SenderInc(f, c) ==
    CASE Variant = "rfc" -> <<f, RfcInc(c)>>
      [] Variant = "carry_stops_half" ->
            \* the counter is handled as two halves and the carry from the
            \* low one into the high one is lost
            <<f, IF CarryLen(c) >= W - Half
                 THEN [i \in 1..W |-> IF i > Half THEN 0 ELSE c[i]]
                 ELSE RfcInc(c)>>
      [] Variant = "low_limb_only" ->
            \* the mask applied after the increment is one limb wide
            <<f, [i \in 1..W |-> IF i = W THEN (c[W] + 1) % (Max + 1) ELSE 0]>>
      [] Variant = "carry_into_fixed" ->
            \* fixed field and counter are incremented as one number
            LET all == RfcInc(f \o c) IN
            <<SubSeq(all, 1, F), SubSeq(all, F + 1, F + W)>>
      [] Variant = "no_wrap" ->
            \* the counter sticks at its largest value instead of wrapping
            <<f, IF CarryLen(c) = W THEN c ELSE RfcInc(c)>>

Wrapped(c0, c1) == {i \in 1..W : c0[i] = Max /\ c1[i] = 0}

Init == /\ ctrS \in [1..W -> Limb]
        /\ fixedS \in {[i \in 1..F |-> 0], [i \in 1..F |-> Max]}
        /\ fixedR = fixedS /\ ctrR = ctrS
        /\ used = {} /\ n = 0
        /\ init = <<fixedS, ctrS>>
        /\ wraps = <<>>

\* one packet: sealed under the sender's nonce, opened under the receiver's
Seal == /\ n < Steps
        /\ used' = used \cup {<<fixedS, ctrS>>}
        /\ LET s == SenderInc(fixedS, ctrS) IN
             /\ fixedS' = s[1] /\ ctrS' = s[2]
             /\ wraps' = Append(wraps, Wrapped(ctrS, s[2]))
        /\ fixedR' = fixedR /\ ctrR' = RfcInc(ctrR)
        /\ n' = n + 1
        /\ UNCHANGED init

Next == Seal
Spec == Init /\ [][Next]_vars

\* ---- properties ----
InStep == fixedS = fixedR /\ ctrS = ctrR
NonceFresh == <<fixedS, ctrS>> \notin used \/ n = Steps \/ n >= (Max + 1) ^ W
    \* (the nonce about to be used is new; at n = Steps nothing more is sealed)
FixedUntouched == fixedS = init[1]
\* the carry rule itself, stated independently of RfcInc: after n packets the
\* counter, read as a number, is the initial one plus n, modulo the range
RECURSIVE Val(_, _)
Val(c, i) == IF i = 0 THEN 0 ELSE c[i] + (Max + 1) * Val(c, i - 1)
Value(c) == Val(c, Len(c))
CounterIsSum == Value(ctrS) = (Value(init[2]) + n) % ((Max + 1) ^ W)

\* ---- scripts: one row per initial state, with the wraps the model predicts ----
Emit == n = Steps => PrintT(ToString(<<"SCRIPT", init, wraps>>))
=============================================================================
