-------------------------------- MODULE Gate --------------------------------
(***************************************************************************)
(* The phase / role gate of the SSH transport in asyncssh, transcribed     *)
(* from connection.py _recv_packet and the connection-level handlers       *)
(* (_process_service_request/_accept, _process_ext_info, _process_kexinit, *)
(* _process_newkeys, _process_userauth_request/failure/success/banner,     *)
(* global request and channel open handlers), as a decision table:         *)
(*   Outcome(role, phase, class, strict) in                                *)
(*      "process"  the message is acted upon                               *)
(*      "ignore"   swallowed without effect (IGNORE / DEBUG / UNIMPLEMENTED*)
(*                 or an auth request after success)                       *)
(*      "unimpl"   answered with UNIMPLEMENTED, no other effect            *)
(*      "fatal"    the connection ends with a protocol error               *)
(* Phases of the receiving endpoint:                                       *)
(*   "P0" before the peer's first KEXINIT          (cleartext)             *)
(*   "P1" first key exchange running               (cleartext)             *)
(*   "P2" NEWKEYS received, before service/auth    (encrypted)             *)
(*   "P3" authentication in progress               (encrypted)             *)
(*   "P4" authenticated, no key exchange running                           *)
(*   "P5" authenticated, key re-exchange running                           *)
(*   "P1w" / "P5w" first exchange / re-exchange: the endpoint has sent its   *)
(*        own NEWKEYS (its key exchange object is gone) and waits for the   *)
(*        peer's NEWKEYS; receive keys are still the old ones               *)
(*   "P1g" first key exchange running and the peer's KEXINIT announced a    *)
(*        guessed first packet (first_kex_packet_follows) for a method     *)
(*        that was NOT negotiated: RFC 4253 section 7 - "the next packet   *)
(*        MUST be silently ignored" means the next KEY EXCHANGE packet;    *)
(*        anything else is judged as in "P1" (a peer gets no free packet)  *)
(*   "P4n" authenticated, right after the NEWKEYS of a re-exchange (the    *)
(*        code re-opens the EXT_INFO window at every NEWKEYS, RFC 8308     *)
(*        allows it after the first one only; accepted without effect)     *)
(***************************************************************************)
EXTENDS Naturals, FiniteSets, TLC

CONSTANTS AuthGate,     \* TRUE: messages above 79 are refused before authentication (as coded)
          RoleCheck,    \* TRUE: handlers check the role of the receiver (as coded)
          StaleAuthHandler, \* TRUE: sensitivity variant (a finished method handler stays installed)
          GuessSwallowsAny  \* TRUE: sensitivity variant (a wrong guess makes the endpoint drop the next
                            \*       packet of ANY type, ahead of every gate)

Roles == {"client", "server"}
\* "P3"  authentication in progress AND a method's message exchange is outstanding (a handler is
\*       installed: keyboard-interactive challenge sent, ...): its 60..79 messages are expected
\* "P3n" authentication in progress, no exchange outstanding (before the first request, after a
\*       FAILURE): 60..79 is out of phase - "Authentication not in progress".  StaleAuthHandler
\*       is the sensitivity variant in which the finished handler still takes them.
Phases == {"P0", "P1", "P1g", "P2", "P3", "P3n", "P4", "P5", "P4n", "P1w", "P5w"}
InAuth(ph) == ph \in {"P3", "P3n"}
Classes == {"DISCONNECT", "IGNORE", "UNIMPLEMENTED", "DEBUG", "SERVICE_REQUEST",
            "SERVICE_ACCEPT", "EXT_INFO", "KEXINIT", "NEWKEYS", "KEXMSG", "KEXOTHER",
            "USERAUTH_REQUEST", "USERAUTH_FAILURE", "USERAUTH_SUCCESS", "USERAUTH_BANNER",
            "AUTH60", "GLOBAL_REQUEST", "REQUEST_REPLY", "CHANNEL_OPEN", "CHANNEL_REPLY",
            "CHANNEL_MSG", "UNKNOWN_LOW", "UNKNOWN_MID", "UNKNOWN_HIGH"}
\* KEXMSG = a 30..49 type the running exchange handles at this point; KEXOTHER = one it does not.
\* UNKNOWN_LOW = unassigned type <= 49, UNKNOWN_MID = unassigned 54..59, UNKNOWN_HIGH = unassigned > 79

Encrypted(ph) == ph \notin {"P0", "P1", "P1g", "P1w"}
KexRunning(ph) == ph \in {"P1", "P5"}
AuthComplete(ph) == ph \in {"P4", "P5", "P4n", "P5w"}
Above49(c) == c \in {"USERAUTH_REQUEST", "USERAUTH_FAILURE", "USERAUTH_SUCCESS",
                     "USERAUTH_BANNER", "AUTH60", "GLOBAL_REQUEST", "REQUEST_REPLY",
                     "CHANNEL_OPEN", "CHANNEL_REPLY", "CHANNEL_MSG", "UNKNOWN_MID",
                     "UNKNOWN_HIGH"}
Above79(c) == c \in {"GLOBAL_REQUEST", "REQUEST_REPLY", "CHANNEL_OPEN", "CHANNEL_REPLY",
                     "CHANNEL_MSG", "UNKNOWN_HIGH"}

\* an unhandled type: UNIMPLEMENTED reply, except that under strict kex nothing
\* unexpected is tolerated before the first NEWKEYS
Unhandled(ph, strict) == IF strict /\ ~Encrypted(ph) THEN "fatal" ELSE "unimpl"

Outcome0(role, ph, c, strict) ==
    \* _recv_packet, in code order
    IF c \in {"KEXMSG", "KEXOTHER"} THEN
        IF KexRunning(ph)
        THEN IF c = "KEXMSG" THEN "process" ELSE Unhandled(ph, strict)
        ELSE "fatal"                                  \* "Key exchange not in progress" (also P1w / P5w:
                                                      \* a repeated INIT / REPLY must not run the exchange again)
    ELSE IF strict /\ ~Encrypted(ph) /\ c \in {"IGNORE", "UNIMPLEMENTED", "DEBUG"} THEN "fatal"
    ELSE IF c = "AUTH60" THEN
        IF ph = "P3" \/ (StaleAuthHandler /\ ph = "P3n") THEN "process"
        ELSE "fatal"                                  \* "Authentication not in progress"
    ELSE IF Above49(c) /\ ~Encrypted(ph) THEN "fatal" \* "before key exchange was complete"
    ELSE IF AuthGate /\ Above79(c) /\ ~AuthComplete(ph) THEN "fatal"
    ELSE IF c = "CHANNEL_MSG" THEN "fatal"            \* no such channel (none is open in these scenarios)
    \* connection-level handlers
    ELSE IF c = "DISCONNECT" THEN "fatal"
    ELSE IF c \in {"IGNORE", "UNIMPLEMENTED", "DEBUG"} THEN "ignore"
    ELSE IF c = "SERVICE_REQUEST" THEN
        IF (RoleCheck => role = "server") /\ ph = "P2" THEN "process" ELSE "fatal"
    ELSE IF c = "SERVICE_ACCEPT" THEN
        IF (RoleCheck => role = "client") /\ ph = "P2" THEN "process" ELSE "fatal"
    ELSE IF c = "EXT_INFO" THEN
        IF ph \in {"P2", "P4n"} THEN "process" ELSE "fatal"  \* only right after a NEWKEYS
    ELSE IF c = "KEXINIT" THEN
        IF KexRunning(ph) THEN "fatal"                \* "already in progress"
        ELSE IF ph \in {"P1w", "P5w"} THEN "process"  \* as coded: with its own NEWKEYS sent the endpoint is "not
                                                      \* doing key exchange" and answers a KEXINIT by starting another one
        ELSE IF ph \in {"P0", "P4", "P4n"} THEN "process"
        ELSE "process"                                \* a re-exchange may start at any encrypted phase
    ELSE IF c = "NEWKEYS" THEN
        IF KexRunning(ph) \/ ph \in {"P1w", "P5w"} THEN "process"
        ELSE "fatal"                                  \* "New keys not negotiated" (needs staged keys)
    ELSE IF c = "USERAUTH_REQUEST" THEN
        IF RoleCheck /\ role = "client" THEN "fatal"
        ELSE IF InAuth(ph) \/ ph = "P2" THEN "process"
        ELSE "ignore"                                 \* after success: ignored (then fatal once auth is final)
    ELSE IF c \in {"USERAUTH_FAILURE", "USERAUTH_SUCCESS"} THEN
        IF role = "client" /\ InAuth(ph) THEN "process" ELSE "fatal"
    ELSE IF c = "USERAUTH_BANNER" THEN
        IF role = "client" /\ InAuth(ph) THEN "process" ELSE "fatal"
    ELSE IF c = "GLOBAL_REQUEST" THEN "process"
    ELSE IF c = "REQUEST_REPLY" THEN "fatal"          \* "Unexpected global response" (none outstanding)
    ELSE IF c = "CHANNEL_OPEN" THEN "process"         \* answered with OPEN_FAILURE or accepted
    ELSE IF c = "CHANNEL_REPLY" THEN "fatal"          \* invalid channel number
    ELSE Unhandled(ph, strict)

Outcome(role, ph, c, strict) ==
    IF ph = "P1g" THEN
        IF GuessSwallowsAny \/ c \in {"KEXMSG", "KEXOTHER"} THEN "ignore"   \* the wrongly guessed packet
        ELSE Outcome0(role, "P1", c, strict)
    ELSE Outcome0(role, ph, c, strict)

\* what the protocol calls for at each phase (everything else is out of phase)
Expected(role, ph) ==
    CASE ph = "P0" -> {"KEXINIT"}
      [] ph = "P1" -> {"KEXMSG", "NEWKEYS"}
      [] ph = "P1g" -> {"KEXMSG", "KEXOTHER", "NEWKEYS"}
      [] ph = "P2" -> {"KEXINIT", "EXT_INFO", "DISCONNECT"} \cup
                      (IF role = "server" THEN {"SERVICE_REQUEST", "USERAUTH_REQUEST"} ELSE {"SERVICE_ACCEPT"})
      [] ph = "P3" -> {"KEXINIT", "DISCONNECT", "AUTH60"} \cup
                      (IF role = "server" THEN {"USERAUTH_REQUEST"}
                       ELSE {"USERAUTH_FAILURE", "USERAUTH_SUCCESS", "USERAUTH_BANNER"})
      [] ph = "P3n" -> {"KEXINIT", "DISCONNECT"} \cup
                      (IF role = "server" THEN {"USERAUTH_REQUEST"}
                       ELSE {"USERAUTH_FAILURE", "USERAUTH_SUCCESS", "USERAUTH_BANNER"})
      [] ph = "P4" -> {"KEXINIT", "DISCONNECT", "GLOBAL_REQUEST", "REQUEST_REPLY", "CHANNEL_OPEN",
                       "CHANNEL_REPLY", "CHANNEL_MSG"} \cup
                      (IF role = "server" THEN {"USERAUTH_REQUEST"} ELSE {})
      [] ph = "P1w" -> {"NEWKEYS", "KEXINIT"}
      [] ph = "P5w" -> {"NEWKEYS", "KEXINIT", "DISCONNECT", "GLOBAL_REQUEST", "REQUEST_REPLY", "CHANNEL_OPEN",
                        "CHANNEL_REPLY", "CHANNEL_MSG"}
      [] ph = "P4n" -> {"KEXINIT", "DISCONNECT", "GLOBAL_REQUEST", "REQUEST_REPLY", "CHANNEL_OPEN",
                        "CHANNEL_REPLY", "CHANNEL_MSG", "EXT_INFO"} \cup
                       (IF role = "server" THEN {"USERAUTH_REQUEST"} ELSE {})
      [] ph = "P5" -> {"KEXMSG", "NEWKEYS", "DISCONNECT", "GLOBAL_REQUEST", "REQUEST_REPLY",
                       "CHANNEL_OPEN", "CHANNEL_REPLY", "CHANNEL_MSG"}

VARIABLES role, ph, cls, strict
vars == <<role, ph, cls, strict>>
Init == role \in Roles /\ ph \in Phases /\ cls \in Classes /\ strict \in BOOLEAN
Next == UNCHANGED vars
Spec == Init /\ [][Next]_vars

\* an out-of-phase message never takes effect
NoEffectOutOfPhase ==
    cls \notin Expected(role, ph) => Outcome(role, ph, cls, strict) \in {"fatal", "ignore", "unimpl"}
\* strict key exchange: nothing but key exchange messages before the first NEWKEYS
StrictNoFiller ==
    (strict /\ ~Encrypted(ph) /\ cls \notin {"KEXINIT", "KEXMSG", "NEWKEYS"}
            /\ ~(ph = "P1g" /\ cls = "KEXOTHER"))       \* the guessed packet of another method
        => Outcome(role, ph, cls, strict) = "fatal"
\* a wrong guess costs the peer exactly its guessed key exchange packet
GuessSwallowsKexOnly ==
    (ph = "P1g" /\ cls \notin {"KEXMSG", "KEXOTHER"})
        => Outcome(role, ph, cls, strict) = Outcome0(role, "P1", cls, strict)
\* a message only the other role may send is never processed
RoleRespected ==
    /\ (role = "client" /\ cls \in {"SERVICE_REQUEST", "USERAUTH_REQUEST"})
            => Outcome(role, ph, cls, strict) # "process"
    /\ (role = "server" /\ cls \in {"SERVICE_ACCEPT", "USERAUTH_FAILURE", "USERAUTH_SUCCESS",
                                    "USERAUTH_BANNER"})
            => Outcome(role, ph, cls, strict) # "process"

\* emits the table (always TRUE)
EmitRow == PrintT(ToString(<<"SCRIPT", <<role, ph, cls, strict>>, Outcome(role, ph, cls, strict)>>))
=============================================================================
