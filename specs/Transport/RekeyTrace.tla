----------------------------- MODULE RekeyTrace -----------------------------
(***************************************************************************)
(* Code -> spec conformance for Rekey.tla: validates executions RECORDED    *)
(* from naturally scheduled asyncssh sessions (asyncio tasks writing on     *)
(* both sides, random segmentation and stalls of the byte stream, byte      *)
(* limits for re-keying) against the actions of Rekey.tla.                  *)
(*                                                                         *)
(* A trace is [thc, ths, asz, ev]: the byte limits of both sides, the size  *)
(* one application packet adds to the re-key counter, and the events.  One  *)
(* event is logged per spec action, at its linearization point:            *)
(*   app  x id   the application on side x called write() for packet id    *)
(*               (logged when the call returns)                            *)
(*   recv x t id the peer of x finished processing message t written by x  *)
(*               (the pkt_done hook: after the handler, before the next    *)
(*               packet is parsed)                                         *)
(* and carries what the acting endpoint did and its state afterwards:      *)
(*   out     message kinds it put on the wire during the step, in order    *)
(*   kc ks kexing staged ndef cnt   _kex_complete, _kexinit_sent,          *)
(*           _kex is set, _next_recv_encryption is set,                    *)
(*           len(_deferred_packets), _rekey_bytes_sent                     *)
(*   err     the connection failed                                         *)
(* Nothing is inferred: every variable of the acting side is bound, so the *)
(* search is linear in the length of the trace.                            *)
(* Many traces are validated per TLC run: tid selects the trace, register  *)
(* tid records the longest prefix that was matched.                        *)
(***************************************************************************)
EXTENDS Rekey, Json, IOUtils, TLCExt

CONSTANT Strict   \* TRUE: bind all logged fields; FALSE: follow the events only (diagnosis)

Traces == JsonDeserialize(IOEnv.TRACE_FILE)

VARIABLES tid, l
tvars == <<s, lbl, tid, l>>

TraceInit ==
    /\ tid \in 1..Len(Traces)
    /\ l = 1
    /\ s = InitState(Traces[tid].thc, Traces[tid].ths, Traces[tid].asz)
    /\ lbl = <<"init">>

Actor(e) == IF e.e = "app" THEN e.x ELSE Other(e.x)

\* the logged fields of event e describe the step s -> s'
MatchOut(e)    == LET a == Actor(e) IN
                  SubSeq(s'.out[a], Len(s.out[a]) + 1, Len(s'.out[a])) = e.out
MatchKc(e)     == s'.kc[Actor(e)] = e.kc
MatchKs(e)     == s'.ks[Actor(e)] = e.ks
MatchKexing(e) == s'.kexing[Actor(e)] = e.kexing
MatchStaged(e) == s'.staged[Actor(e)] = e.staged
MatchNdef(e)   == Len(s'.deferred[Actor(e)]) = e.ndef
MatchCnt(e)    == s'.cnt[Actor(e)] = e.cnt
MatchErr(e)    == s'.err = e.err
Match(e) == /\ MatchOut(e) /\ MatchKc(e) /\ MatchKs(e) /\ MatchKexing(e)
            /\ MatchStaged(e) /\ MatchNdef(e) /\ MatchCnt(e) /\ MatchErr(e)

TraceStep ==
    /\ l <= Len(Traces[tid].ev)
    /\ LET e == Traces[tid].ev[l] IN
         /\ \/ e.e = "app"  /\ AppSend(e.x) /\ lbl' = <<"app", e.x, e.id>>
            \/ e.e = "recv" /\ Recv(e.x)    /\ lbl' = <<"recv", e.x, e.t, e.id>>
         /\ Strict => Match(e)
    /\ l' = l + 1
    /\ UNCHANGED tid

TraceSpec == TraceInit /\ [][TraceStep]_tvars

\* bookkeeping: longest matched prefix per trace (needs -workers 1)
Progress ==
    /\ IF l = 1 THEN TLCSet(tid, 0) ELSE TRUE
    /\ IF l - 1 > TLCGet(tid) THEN TLCSet(tid, l - 1) ELSE TRUE
Report ==
    \A i \in 1..Len(Traces) :
        PrintT(<<"TRACE", i, TLCGet(i), Len(Traces[i].ev)>>)

\* the properties of Rekey.tla are evaluated in every state of every recorded execution
TraceInv == FIFOExactlyOnce /\ OnlyKexBetween /\ EpochsInStep

\* diagnosis (Strict = FALSE, one trace): which logged field the model disagrees with.
\* Evaluated on the state reached AFTER event l-1.
Prev == Traces[tid].ev[l - 1]
DiagOut == l > 1 => LET a == Actor(Prev) n == Len(Prev.out) m == Len(s.out[a]) IN
                    m >= n /\ SubSeq(s.out[a], m - n + 1, m) = Prev.out
DiagKc == l > 1 => s.kc[Actor(Prev)] = Prev.kc
DiagKs == l > 1 => s.ks[Actor(Prev)] = Prev.ks
DiagKexing == l > 1 => s.kexing[Actor(Prev)] = Prev.kexing
DiagStaged == l > 1 => s.staged[Actor(Prev)] = Prev.staged
DiagNdef == l > 1 => Len(s.deferred[Actor(Prev)]) = Prev.ndef
DiagCnt == l > 1 => s.cnt[Actor(Prev)] = Prev.cnt
DiagErr == l > 1 => s.err = Prev.err
=============================================================================
