------------------------------- MODULE Rekey -------------------------------
(***************************************************************************)
(* Key re-exchange on a busy connection (connection.py send_packet:        *)
(* rekey trigger and deferral of packets > 49 while a key exchange runs,   *)
(* _send_kexinit, _process_kexinit incl. simultaneous initiation,          *)
(* kex start / init / reply, send_newkeys: NEWKEYS under the old keys,     *)
(* send side switched, receive keys staged, deferred packets flushed;      *)
(* _process_newkeys: staged receive keys activated).                       *)
(* Sides "c" and "s"; application packets carry unique ids; every packet   *)
(* on the wire carries the key epoch it was protected with.                *)
(***************************************************************************)
EXTENDS Naturals, Sequences, FiniteSets, TLC

CONSTANTS ThreshC, ThreshS, \* packets after which the client / server starts a re-exchange (0 = never)
          MaxApp,       \* application packets each side wants to send
          MaxKex,       \* bound on key exchanges (for finiteness)
          FlushBeforeNewkeys, \* TRUE: sensitivity variant (deferred packets flushed before NEWKEYS)
          RepeatC, RepeatS, \* does the client / server repeat the kex-strict marker in the KEXINITs of
                            \* re-exchanges?  (asyncssh and OpenSSH do; the extension says the marker
                            \* "MUST be ignored if present in subsequent KEXINIT", so a peer may omit it)
          RelatchStrict,    \* TRUE: sensitivity variant (strict mode re-decided at every KEXINIT)
          Timer,            \* the sides that also re-key by time (rekey_seconds): a subset of Sides
          MaxTicks,         \* bound on time-limit expiries (for finiteness)
          TimerIgnoresKex   \* TRUE: sensitivity variant (the time trigger does not ask whether an
                            \*       exchange is already running)

Sides == {"c", "s"}
Other(x) == IF x = "c" THEN "s" ELSE "c"
Repeats(x) == IF x = "c" THEN RepeatC ELSE RepeatS

VARIABLES s, lbl
vars == <<s, lbl>>
view == s

\* th: re-key limit of each side and asz: what one application packet adds to the
\* counter (rekey_bytes / pktlen in the code; 1 packet in the exhaustive model).  They
\* are part of the state only so that a batch of recorded traces with different limits
\* can be validated by one TLC run (Transport/RekeyTrace.tla).
InitState(thc, ths, asz) ==
           [ th |-> [x \in Sides |-> IF x = "c" THEN thc ELSE ths],
             asz |-> asz,
             kc |-> [x \in Sides |-> TRUE],      \* _kex_complete
             ks |-> [x \in Sides |-> FALSE],     \* _kexinit_sent
             kexing |-> [x \in Sides |-> FALSE], \* self._kex is set
             se |-> [x \in Sides |-> 1],         \* epoch of the keys used for sending
             \* strict key exchange was negotiated by the FIRST exchange (before this model
             \* starts): sequence numbers are reset to 0 with every NEWKEYS, in each direction
             strict |-> [x \in Sides |-> TRUE],  \* _strict_kex
             sseq |-> [x \in Sides |-> 3],       \* _send_seq (some packets into the first epoch)
             rseq |-> [x \in Sides |-> 3],       \* _recv_seq
             re |-> [x \in Sides |-> 1],         \* ... for receiving
             staged |-> [x \in Sides |-> FALSE], \* next receive keys staged
             cnt |-> [x \in Sides |-> 0],        \* packets sent since the last KEXINIT (rekey_bytes_sent)
             due |-> [x \in Sides |-> FALSE],    \* time.monotonic() >= _rekey_time (rekey_seconds passed
                                                 \* since this side's last KEXINIT)
             nticks |-> 0,
             deferred |-> [x \in Sides |-> <<>>],
             napp |-> [x \in Sides |-> 0],
             net |-> [x \in Sides |-> <<>>],     \* written by x: [t, id, ep]
             out |-> [x \in Sides |-> <<>>],     \* history of message kinds emitted by x
             delivered |-> [x \in Sides |-> <<>>], \* app ids received BY x
             nkex |-> 0,
             err |-> FALSE ]

Init ==
    /\ s = InitState(ThreshC, ThreshS, 1)
    /\ lbl = <<"init">>

P(t, id, ep, seq, mk) == [t |-> t, id |-> id, ep |-> ep, seq |-> seq, mk |-> mk]
Step(new, l) == s' = new /\ lbl' = l

\* emit a sequence of kinds from x under the current send epoch
Emit(st, x, kinds) ==
    [st EXCEPT !.net[x] = @ \o [i \in 1..Len(kinds) |->
                                  P(kinds[i][1], kinds[i][2], st.se[x], st.sseq[x] + i - 1,
                                    kinds[i][1] = "KEXINIT" /\ Repeats(x))],
               !.sseq[x] = @ + Len(kinds),
               !.out[x] = @ \o [i \in 1..Len(kinds) |-> kinds[i][1]]]

\* _send_kexinit
SendKexinit(st, x) ==
    Emit([st EXCEPT !.kc[x] = FALSE, !.cnt[x] = 0, !.due[x] = FALSE, !.nkex = @ + 1], x,
         <<<<"KEXINIT", 0>>>>)

\* send_packet for one application packet: re-key trigger, then send or defer
SendApp(st, x, id) ==
    LET bytes == st.th[x] > 0 /\ st.cnt[x] >= st.th[x]
        trig == /\ st.nkex < MaxKex
                /\ IF TimerIgnoresKex THEN (st.kc[x] /\ bytes) \/ st.due[x]
                   ELSE st.kc[x] /\ (bytes \/ st.due[x])
        s1 == IF trig THEN [SendKexinit(st, x) EXCEPT !.ks[x] = TRUE] ELSE st
    IN IF s1.kc[x]
       THEN [Emit(s1, x, <<<<"APP", id>>>>) EXCEPT !.cnt[x] = @ + st.asz]
       ELSE [s1 EXCEPT !.deferred[x] = Append(@, id)]

\* _send_deferred_packets: each held packet goes through send_packet again
RECURSIVE Flush(_, _, _)
Flush(st, x, q) == IF q = <<>> THEN st ELSE Flush(SendApp(st, x, Head(q)), x, Tail(q))

\* send_newkeys on side x
SendNewkeys(st, x) ==
    LET q == st.deferred[x]
        flushKinds == [i \in 1..Len(q) |-> <<"APP", q[i]>>]
        s1 == IF FlushBeforeNewkeys THEN Emit(st, x, flushKinds) ELSE st
        s2 == Emit(s1, x, <<<<"NEWKEYS", 0>>>>)
        s3 == [s2 EXCEPT !.se[x] = @ + 1, !.staged[x] = TRUE, !.kc[x] = TRUE,
                         !.sseq[x] = IF st.strict[x] THEN 0 ELSE @,
                         !.kexing[x] = FALSE, !.deferred[x] = <<>>]
    IN IF FlushBeforeNewkeys THEN s3 ELSE Flush(s3, x, q)

\* the application on side x sends its next packet (send_packet)
AppSend(x) ==
    /\ ~s.err /\ s.napp[x] < MaxApp
    /\ LET id == s.napp[x] + 1
       IN Step([SendApp(s, x, id) EXCEPT !.napp[x] = id], <<"app", x, id>>)

\* side y receives the next message written by x
Recv(x) ==
    /\ ~s.err /\ s.net[x] # <<>>
    /\ LET y == Other(x)
           m == Head(s.net[x])
           s0 == [s EXCEPT !.net[x] = Tail(@), !.rseq[y] = @ + 1]
           bad == [s0 EXCEPT !.err = TRUE]
           new ==
             IF m.ep # s.re[y] \/ m.seq # s.rseq[y] THEN bad   \* wrong keys / sequence number: MAC failure
             ELSE IF m.t = "APP" THEN [s0 EXCEPT !.delivered[y] = Append(@, m.id)]
             ELSE IF m.t = "KEXINIT" THEN
                  IF s.kexing[y] THEN bad                \* "Key exchange already in progress"
                  ELSE LET s1 == IF s.ks[y] THEN [s0 EXCEPT !.ks[y] = FALSE]
                                 ELSE SendKexinit(s0, y)
                           \* strict mode was fixed by the first exchange: the marker in
                           \* a later KEXINIT, present or not, changes nothing
                           s2 == [s1 EXCEPT !.kexing[y] = TRUE,
                                            !.strict[y] = IF RelatchStrict THEN m.mk ELSE @]
                       IN IF y = "c" THEN Emit(s2, y, <<<<"KEXDH_INIT", 0>>>>) ELSE s2
             ELSE IF m.t = "KEXDH_INIT" THEN
                  IF y = "s" /\ s.kexing[y]
                  THEN SendNewkeys(Emit(s0, y, <<<<"KEXDH_REPLY", 0>>>>), y)
                  ELSE bad
             ELSE IF m.t = "KEXDH_REPLY" THEN
                  IF y = "c" /\ s.kexing[y] THEN SendNewkeys(s0, y) ELSE bad
             ELSE IF m.t = "NEWKEYS" THEN
                  IF s.staged[y] THEN [s0 EXCEPT !.re[y] = @ + 1, !.staged[y] = FALSE,
                                                 !.rseq[y] = IF s.strict[y] THEN 0 ELSE @]
                  ELSE bad                               \* "New keys not negotiated"
             ELSE bad
       IN Step(new, <<"recv", x, m.t, m.id>>)

\* rekey_seconds pass: every side that re-keys by time is due (the trigger itself is looked at
\* by the next send_packet of that side)
Tick ==
    /\ ~s.err /\ Timer # {} /\ s.nticks < MaxTicks
    /\ \E x \in Timer : ~s.due[x]
    /\ Step([s EXCEPT !.due = [x \in Sides |-> @[x] \/ x \in Timer], !.nticks = @ + 1], <<"tick">>)

Next == Tick \/ \E x \in Sides : AppSend(x) \/ Recv(x)
Spec == Init /\ [][Next]_vars
LiveSpec == Spec /\ \A x \in Sides : WF_vars(Recv(x)) /\ WF_vars(AppSend(x))

-----------------------------------------------------------------------------
IsPrefixIds(q) == \A i \in 1..Len(q) : q[i] = i
\* no loss, duplication or reordering across re-exchanges
FIFOExactlyOnce == \A x \in Sides : IsPrefixIds(s.delivered[x])
\* both sides always agree on keys for what is on the wire
NoKeyMismatch == ~s.err
\* between its KEXINIT and its NEWKEYS a side emits only key exchange messages
OnlyKexBetween == \A x \in Sides :
    \A i \in 1..Len(s.out[x]) : s.out[x][i] = "KEXINIT" =>
        \A j \in (i+1)..Len(s.out[x]) :
            (\A k \in (i+1)..j : s.out[x][k] # "NEWKEYS") => s.out[x][j] # "APP"
\* every NEWKEYS really switches to a new epoch, in step on both sides
EpochsInStep == \A x \in Sides : s.se[x] - s.re[Other(x)] \in {0, 1}
AllDelivered == \A x \in Sides : Len(s.delivered[x]) = MaxApp /\ s.kc[x]
Completes == <>[](s.err \/ AllDelivered)

NeverRekey == s.nkex = 0
NeverSimultaneous == ~(s.ks["c"] /\ s.ks["s"])
=============================================================================
