------------------------------ MODULE Grammar ------------------------------
(***************************************************************************)
(* Generative grammars for hostile structured input (C10):                 *)
(*  (1) SSH messages as sequences of typed fields with one field mutated   *)
(*      to an extreme or inconsistent value, in the protocol phase where   *)
(*      the endpoint parses that message;                                  *)
(*  (2) DER TLV trees with every length form (short, long, over-long,      *)
(*      indefinite, longer/shorter than the data, zero) and tag form;      *)
(*  (3) the measure argument for the peer-driven loops: every iteration    *)
(*      consumes input or ends the loop (LoopProgress).                    *)
(* TLC enumerates every derivation up to the bounds and prints it; the     *)
(* harness turns each into bytes, feeds the real parser / endpoint and     *)
(* requires: returns a value or raises the documented error, bounded work, *)
(* no exception in the event loop.                                         *)
(***************************************************************************)
EXTENDS Integers, Sequences, FiniteSets, TLC

CONSTANTS Part    \* "msg" | "der" | "loops" | "counts" | "sizes" | "replies" | "scan" (+ wrong variants)

---------------------------------------------------------------------------
(* (1) messages: name -> sequence of field kinds *)
Fields ==
    [ DISCONNECT |-> <<"u32", "str", "str">>,
      DEBUG |-> <<"bool", "str", "str">>,
      SERVICE_REQUEST |-> <<"str">>,
      KEXINIT |-> <<"cookie", "namelist", "namelist", "namelist", "namelist", "namelist",
                    "namelist", "namelist", "namelist", "namelist", "namelist", "bool", "u32">>,
      KEXDH_INIT |-> <<"str">>,
      USERAUTH_PASSWORD |-> <<"str", "str", "str", "bool", "str">>,
      USERAUTH_PUBLICKEY |-> <<"str", "str", "str", "bool", "str", "str">>,
      USERAUTH_KBDINT |-> <<"str", "str", "str", "str", "str">>,
      INFO_RESPONSE |-> <<"u32", "str">>,
      GLOBAL_TCPIP_FORWARD |-> <<"str", "bool", "str", "u32">>,
      GLOBAL_UNKNOWN |-> <<"str", "bool">>,
      CHANNEL_OPEN_SESSION |-> <<"str", "u32", "u32", "u32">>,
      CHANNEL_OPEN_DIRECT |-> <<"str", "u32", "u32", "u32", "str", "u32", "str", "u32">>,
      WINDOW_ADJUST |-> <<"u32", "u32">>,
      CHANNEL_DATA |-> <<"u32", "str">>,
      CHANNEL_EXT_DATA |-> <<"u32", "u32", "str">>,
      CHANNEL_EOF |-> <<"u32">>,
      CHANNEL_CLOSE |-> <<"u32">>,
      REQ_PTY |-> <<"u32", "str", "bool", "str", "u32", "u32", "u32", "u32", "str">>,
      REQ_ENV |-> <<"u32", "str", "bool", "str", "str">>,
      REQ_EXEC |-> <<"u32", "str", "bool", "str">>,
      REQ_SUBSYSTEM |-> <<"u32", "str", "bool", "str">>,
      REQ_WINDOW_CHANGE |-> <<"u32", "str", "bool", "u32", "u32", "u32", "u32">>,
      REQ_SIGNAL |-> <<"u32", "str", "bool", "str">>,
      REQ_BREAK |-> <<"u32", "str", "bool", "u32">>,
      REQ_UNKNOWN |-> <<"u32", "str", "bool">> ]

Mutations(kind) ==
    CASE kind = "u32" -> {"zero", "one", "half", "max"}
      [] kind = "bool" -> {"two", "ff"}
      [] kind \in {"str", "namelist"} -> {"len_zero", "len_plus1", "len_half", "len_max", "empty",
                                          "nonutf8", "long"}
      [] kind = "cookie" -> {"short"}
      [] OTHER -> {}
\* truncation after field i and trailing garbage apply to every message
MsgCases == { <<m, i, mu>> : m \in DOMAIN Fields, i \in 1..13, mu \in {"zero", "one", "half", "max",
                 "two", "ff", "len_zero", "len_plus1", "len_half", "len_max", "empty", "nonutf8",
                 "long", "short", "cut_after", "trailing"} }
LegalMsgCase(c) == LET m == c[1] i == c[2] mu == c[3] IN
    /\ i <= Len(Fields[m])
    /\ mu \in Mutations(Fields[m][i]) \cup {"cut_after"} \cup (IF i = Len(Fields[m]) THEN {"trailing"} ELSE {})

---------------------------------------------------------------------------
(* (2) DER: a node is a tag form, a length form and up to two children *)
Tags == {"bool", "int", "bitstr", "octstr", "null", "oid", "utf8", "seq", "set", "ctx0c", "ctx1p",
         "hightag", "tag0"}
LenForms == {"short", "long1", "long2", "overlong", "indef", "more_than_data", "less_than_data",
             "zero", "len_ff"}
KidTags == {"int", "octstr", "seq", "null"}
KidLens == {"short", "long1", "indef", "more_than_data", "zero"}
Leafs == [tag : KidTags, len : KidLens]
DerCases ==
    { <<t, l, <<>>>> : t \in Tags, l \in LenForms } \cup
    { <<t, l, <<k>>>> : t \in {"seq", "set", "ctx0c"}, l \in {"short", "long1", "indef", "less_than_data"},
                        k \in Leafs } \cup
    { <<t, "short", <<k1, k2>>>> : t \in {"seq"}, k1 \in Leafs, k2 \in Leafs }

---------------------------------------------------------------------------
(* (3) peer-driven loops: [guard, consumes] per loop under peer-chosen parameters *)
\* a loop step is described by how much of the measure it consumes given the
\* peer-controlled parameter p; progress requires consumption > 0 whenever the
\* loop continues
LoopNames == {"recv_data", "flush_send_buf", "recv_version", "socks", "sftp_recv", "keylist"}
Params == {0, 1, 2, 3}
\* measure consumed by one iteration that does not end the loop
Consumes(loop, p, avail, fixedCode) ==
    CASE loop = "recv_data" -> IF avail >= p + 1 THEN p + 1 ELSE 0            \* header + p body units; else handler returns False -> loop ends
      [] loop = "flush_send_buf" -> IF p = 0 THEN (IF fixedCode THEN 0 ELSE 0) ELSE (IF avail < p THEN avail ELSE p)
      [] loop = "recv_version" -> IF avail >= 1 THEN 1 ELSE 0                   \* a line is consumed per iteration
      [] loop = "socks" -> IF avail >= p /\ p > 0 THEN p ELSE 0
      [] loop = "sftp_recv" -> IF avail >= p + 1 THEN p + 1 ELSE 0
      [] loop = "keylist" -> IF avail >= 1 THEN (IF p = 0 THEN 1 ELSE (IF avail < p THEN avail ELSE p)) ELSE 0
      [] OTHER -> 0
\* does the loop continue after an iteration that consumed nothing?
ContinuesOnZero(loop, p, fixedCode) ==
    CASE loop = "flush_send_buf" -> p = 0 /\ ~fixedCode     \* the pre-repair code kept slicing zero bytes
      [] OTHER -> FALSE
LoopCases == { <<l, p, a>> : l \in LoopNames, p \in Params, a \in 0..4 }

---------------------------------------------------------------------------
(* (4) count-prefixed lists: the peer states how many entries follow; the   *)
(* parser loops `count` times taking one entry per iteration (agent          *)
(* identities, keyboard-interactive prompts and responses, EXT_INFO          *)
(* extensions, SFTP names and extended attributes).  An iteration that finds *)
(* no entry raises a decode error which ENDS the loop (as coded);            *)
(* CountSwallow is the wrong variant in which the error is swallowed per     *)
(* iteration, so the work is the peer's number, not the input's size.        *)
CountSites == {"agent_identities", "kbdint_prompts", "kbdint_responses", "ext_info_client",
               "ext_info_server", "sftp_names", "sftp_attr_ext", "sftp_srv_attr_ext"}
CountClasses == {"exact", "plus1", "k64", "max31", "max32"}
Present == 0..2
CountVal(cls, n) == CASE cls = "exact" -> n [] cls = "plus1" -> n + 1 [] cls = "k64" -> 65536
                      [] cls = "max31" -> 2147483647 [] OTHER -> 2147483647   \* 2^32-1 in the driver
CountCases == { <<st, cls, n>> : st \in CountSites, cls \in CountClasses, n \in Present }
\* iterations executed: one per entry present, plus the one that fails - unless errors are swallowed
Iterations(cls, n, swallow) == IF cls = "exact" THEN n
                               ELSE IF swallow THEN CountVal(cls, n) ELSE n + 1
CountOutcome(cls) == IF cls = "exact" THEN "ok" ELSE "error"

---------------------------------------------------------------------------
(* (5) channel sizes the peer announces (CHANNEL_OPEN / OPEN_CONFIRMATION):  *)
(* window and maximum packet size, each tiny or huge, combined with what the *)
(* endpoint derives from the PEER'S IDENTITY: for a peer whose version       *)
(* string contains "dropbear", with compression in effect, asyncssh lowers   *)
(* the packet size by one (connection.py, work-around for a dropbear bug) -  *)
(* so the effective size can be 0 or -1.  The send loop (_flush_send_buf)    *)
(* takes min(window, effective size) per iteration and must stop when that   *)
(* is not positive.  SizesTruthy is the wrong variant whose guard is "size   *)
(* is non-zero".                                                             *)
Quirks == {"none", "dropbear_zlib"}
SizeClasses == {"0", "1", "2", "max"}
SizeVal(c) == CASE c = "0" -> 0 [] c = "1" -> 1 [] c = "2" -> 2 [] OTHER -> 2147483647  \* 2^32-1 in the driver
SizeCases == { <<q, w, p>> : q \in Quirks, w \in SizeClasses, p \in SizeClasses }
EffPkt(q, p) == IF q = "dropbear_zlib" THEN SizeVal(p) - 1 ELSE SizeVal(p)
\* bytes taken from a non-empty send buffer by one iteration
Takes(q, w, p) == LET e == EffPkt(q, p) m == IF SizeVal(w) < e THEN SizeVal(w) ELSE e
                  IN IF m > 0 THEN m ELSE 0
LoopGoesOn(q, w, p, truthy) == SizeVal(w) # 0 /\ (IF truthy THEN EffPkt(q, p) # 0 ELSE EffPkt(q, p) > 0)

---------------------------------------------------------------------------
(* (6) what a hostile SERVER sends where the reply to a want-reply channel   *)
(* request of the client is due (the client's waiting call, its channel and  *)
(* connection clean-up are the code under test): the request kinds the       *)
(* client API issues x the message sent instead.  The waiting call completes *)
(* or fails whatever comes: "resolved" for every row; ReplyHangs is the      *)
(* wrong variant in which a CLOSE in place of the reply leaves it waiting.   *)
ReqKinds == {"exec", "subsystem", "pty", "env", "x11"}
Instead == {"close", "eof_close", "nothing", "open_failure", "two_replies", "disconnect"}
ReplyCases == { <<k, i>> : k \in ReqKinds, i \in Instead }
WaiterOutcome(k, i, hangs) == IF hangs /\ i \in {"close", "eof_close"} THEN "pending" ELSE "resolved"

---------------------------------------------------------------------------
(* (7) the scanner behind the LIST imports of keys and certificates           *)
(* (public_key.py _match_next, driven by _decode_public_list /               *)
(* _decode_certificate_list / _decode_private_list, i.e. read_*_list,        *)
(* load_certificates, authorized_keys and known_hosts CA files): a loop over *)
(* a text the peer or a file supplies.  Every iteration finds the next item  *)
(* (a one-line OpenSSH key or certificate, a PEM or RFC 4716 block, or       *)
(* nothing) and hands back the offset at which the search goes on.  The last *)
(* line of a text need not be terminated: the offset behind it is the end of *)
(* the text.  ScanZeroEnd is the wrong variant in which a missing terminator *)
(* yields offset 0 (find() + 1 of nothing) and the scanner starts over.      *)
ScanFuncs == {"pubkeys", "certs", "certs_data", "privkeys"}
ScanItems == {"pubkey", "cert", "garbage", "blank", "pem", "rfc4716", "privpem", "comment"}
ScanEnds == {"lf", "crlf", "none", "space"}     \* what follows the LAST line of the text
ScanCases == { <<f, i1, i2, e>> : f \in ScanFuncs, i1 \in ScanItems \cup {"-"}, i2 \in ScanItems,
                                  e \in ScanEnds }
\* does the search position move forward over the last item?
ScanAdvances(e, zeroEnd) == ~(zeroEnd /\ e \in {"none", "space"})

---------------------------------------------------------------------------
VARIABLES case
Init == \/ Part = "counts" /\ case \in CountCases
        \/ Part = "counts_swallow" /\ case \in CountCases
        \/ Part = "msg" /\ case \in {c \in MsgCases : LegalMsgCase(c)}
        \/ Part = "der" /\ case \in DerCases
        \/ Part = "loops" /\ case \in LoopCases
        \/ Part = "loops_unfixed" /\ case \in LoopCases
        \/ Part = "replies" /\ case \in ReplyCases
        \/ Part = "replies_hang" /\ case \in ReplyCases
        \/ Part = "sizes" /\ case \in SizeCases
        \/ Part = "sizes_truthy" /\ case \in SizeCases
        \/ Part = "scan" /\ case \in ScanCases
        \/ Part = "scan_zero_end" /\ case \in ScanCases
Next == UNCHANGED case
Spec == Init /\ [][Next]_case

\* every iteration of every peer-driven loop consumes input or ends the loop
LoopProgress ==
    Part \in {"loops", "loops_unfixed"} =>
        LET l == case[1] p == case[2] a == case[3] fx == (Part = "loops") IN
        (a > 0 /\ Consumes(l, p, a, fx) = 0) => ~ContinuesOnZero(l, p, fx)

\* the work done on a count-prefixed list is bounded by the entries actually received
CountBounded ==
    Part \in {"counts", "counts_swallow"} =>
        Iterations(case[2], case[3], Part = "counts_swallow") <= case[3] + 1

\* an iteration of the send loop that takes nothing ends the loop
SizeProgress ==
    Part \in {"sizes", "sizes_truthy"} =>
        (Takes(case[1], case[2], case[3]) = 0 => ~LoopGoesOn(case[1], case[2], case[3], Part = "sizes_truthy"))

\* whatever stands in for the reply, the waiting call is resolved
WaiterResolved ==
    Part \in {"replies", "replies_hang"} =>
        WaiterOutcome(case[1], case[2], Part = "replies_hang") = "resolved"

\* every iteration of the list scanner moves on, whatever ends the text
ScanProgress ==
    Part \in {"scan", "scan_zero_end"} => ScanAdvances(case[4], Part = "scan_zero_end")

Emit == PrintT(ToString(<<"SCRIPT", case, Part>>))
=============================================================================
