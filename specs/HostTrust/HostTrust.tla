----------------------------- MODULE HostTrust -----------------------------
(***************************************************************************)
(* The client's decision whether to talk to a server: known_hosts lookup   *)
(* for (host, address, port), host key / host certificate acceptance,      *)
(* proof of possession, and the rule that no credentials leave the client  *)
(* before that decision was positive.                                      *)
(*                                                                         *)
(* Sources: connection.py SSHClientConnection._connection_made (trusted,   *)
(* CA and revoked sets from match_known_hosts; known_hosts=None = accept   *)
(* any key), _validate_host_key, _validate_openssh_host_certificate,       *)
(* validate_server_host_key; known_hosts.py SSHKnownHosts._match / match   *)
(* ([host]:port lookup with fall-back to the plain name); public_key.py    *)
(* SSHOpenSSHCertificate.construct (certificate signature) and validate    *)
(* (type, [valid_after, valid_before), principals); kex_dh.py              *)
(* _verify_reply (signature over the exchange hash under the presented     *)
(* key).                                                                   *)
(*                                                                         *)
(* A known_hosts line is abstracted to [marker, match, key]; how the       *)
(* pattern is spelled (plain, hashed, wildcard, negated, CIDR, bracketed   *)
(* port, lists) is chosen when a case is materialised, constrained by      *)
(* `match`:                                                                *)
(*   "name"  the pattern matches the host name / address without port      *)
(*   "port"  the pattern matches the form [host]:port or [addr]:port       *)
(*   "both"  it matches either form (CIDR ranges, broad wildcards)         *)
(*   "none"  it does not match (other host, other port, negated)           *)
(***************************************************************************)
EXTENDS Naturals, Sequences, FiniteSets, TLC

CONSTANTS
    MaxLines,       \* lines in the known_hosts data
    LineKeys,       \* key ids that may appear on lines
    Focus,          \* "lines" | "cert" | "callbacks" | "trustall" | "sets"
    SetSize,        \* Focus = "sets": exactly this many distinct lines
    Mu,             \* "none": the decision as designed; otherwise the name of
                    \* a deliberately wrong variant (sensitivity runs)
    Emit

Start == 2        \* the clock when the process started
MaxNow == 4
Markers == {"plain", "ca", "revoked"}
Matches == {"name", "port", "both", "none"}
(* where a line lives: "arg" = the known_hosts= argument (file content,   *)
(* object, callable, key lists); otherwise the default ~/.ssh/known_hosts  *)
(* ("udef") or a file named by UserKnownHostsFile / GlobalKnownHostsFile   *)
(* in the client configuration                                             *)
Srcs == IF Focus = "sources"
        THEN {"udef", "ucfg1", "ucfg2", "gcfg1", "gcfg2"} ELSE {"arg"}
(* through what a pattern matches: the name as dialled ("name"), the text *)
(* of the address ("addrtext": exact, hashed, wildcard on the address), a  *)
(* CIDR range ("cidr"), or everything except a CIDR range ("negcidr")      *)
Vias == IF Focus = "shape" THEN {"name", "addrtext", "cidr", "negcidr"}
        ELSE {"name"}
Line == [marker : Markers, match : Matches, key : LineKeys, src : Srcs,
         via : Vias]

(* validity windows [va, vb), absolute, laid around the clock at start;   *)
(* the clock `now` is a variable which Tick advances between attempts      *)
Windows == {"in", "startsNow", "endsNext", "notYet", "endsNow", "expired"}
Va(w) == CASE w = "startsNow" -> Start [] w = "notYet" -> Start + 1
           [] OTHER -> 0
Vb(w) == CASE w = "endsNext" -> Start + 1 [] w = "endsNow" -> Start
           [] w = "expired" -> Start - 1 [] OTHER -> 9

PresKey == [kind : {"key"}, key : {"K1"}, ca : {"none"}, type : {"host"},
            win : {"in"}, princ : {"covers"}, certSig : {TRUE},
            holds : BOOLEAN]
PresCertGood == [kind : {"cert"}, key : {"K1"}, ca : {"CA1"}, type : {"host"},
                 win : {"in"}, princ : {"covers"}, certSig : {TRUE},
                 holds : BOOLEAN]
PresCertAll == [kind : {"cert"}, key : {"K1"}, ca : {"CA1"},
                type : {"host", "user"}, win : Windows,
                princ : {"covers", "other", "empty"}, certSig : BOOLEAN,
                holds : BOOLEAN]

L(mk, mt, k) == [marker |-> mk, match |-> mt, key |-> k, src |-> "arg",
                 via |-> "name"]
CertFocusLines ==
    { <<L("ca", "name", "CA1")>>,
      <<L("ca", "name", "CA2")>>,
      <<L("ca", "name", "CA1"), L("revoked", "name", "CA1")>>,
      <<L("revoked", "both", "CA1"), L("ca", "name", "CA1")>>,
      <<L("plain", "name", "K1")>>,
      <<L("ca", "none", "CA1")>>,
      <<L("ca", "name", "K1")>>,
      \* calibration: only the CA is looked up in the revoked set; a
      \* certificate whose certified key is listed @revoked is still
      \* accepted by asyncssh -- the property asks for a non-revoked CA only
      <<L("ca", "name", "CA1"), L("revoked", "name", "K1")>> }
CbCertLines ==
    { <<>>,
      <<L("ca", "name", "CA1")>>,
      <<L("ca", "name", "CA2")>>,
      <<L("revoked", "name", "CA1")>>,
      <<L("ca", "name", "CA1"), L("revoked", "name", "CA1")>>,
      <<L("revoked", "port", "CA1")>>,
      <<L("plain", "name", "K1")>>,
      <<L("revoked", "name", "K1")>>,
      <<L("ca", "port", "CA1"), L("revoked", "both", "CA2")>> }
AllLineSeqs == UNION {[1..n -> Line] : n \in 0..MaxLines}

(* Focus "sets": known_hosts contents as sets of SetSize distinct matching  *)
(* lines (the order in the file is chosen at materialisation); lines that   *)
(* match nothing are left to the sequence tables.  Written as sequences in  *)
(* one canonical order.                                                     *)
MkIdx(m) == CASE m = "plain" -> 0 [] m = "ca" -> 1 [] OTHER -> 2
MtIdx(m) == CASE m = "name" -> 0 [] m = "port" -> 1 [] m = "both" -> 2
              [] OTHER -> 3
KeyIdx(k) == CASE k = "K1" -> 0 [] k = "K2" -> 1 [] k = "CA1" -> 2
               [] OTHER -> 3
Code(l) == MkIdx(l.marker) * 16 + MtIdx(l.match) * 4 + KeyIdx(l.key)
SetLine == {l \in Line : l.match # "none"}
SetSeqs == {q \in [1..SetSize -> SetLine] :
               \A i \in 1..(SetSize - 1) : Code(q[i]) < Code(q[i + 1])}

VARIABLES
    lines,      \* known_hosts content
    port,       \* "def" | "nondef"
    mode,       \* "file": known_hosts given; "none": known_hosts=None
    cbKey,      \* answer of SSHClient.validate_host_public_key
    cbCA,       \* answer of SSHClient.validate_host_ca_key
    pres,       \* what the server presents and whether it can sign for it
    phase,      \* "connect" | "reply" | "accepted" | "rejected" | "auth"
    credsSent,
    userSet,    \* UserKnownHostsFile: "na" (known_hosts= given) | "unset" |
                \* "none" | "one" | "two" (files)
    globalSet,  \* GlobalKnownHostsFile: "na" | "unset" | "one" | "two"
    shape,      \* "na" | "direct" (TCP, peer address known) | "tunnel"
                \* (through another SSH connection / a proxy: no address)
    hostform,   \* host as dialled: "na" | "name" | "ip4" | "ip6" literal
    now         \* the clock at the time of the connection attempt

vars == <<lines, port, mode, cbKey, cbCA, pres, phase, credsSent, userSet,
          globalSet, shape, hostform, now>>

FileExists(src, u, g) ==
    CASE src = "ucfg1" -> u \in {"one", "two"} [] src = "ucfg2" -> u = "two"
      [] src = "gcfg1" -> g \in {"one", "two"} [] src = "gcfg2" -> g = "two"
      [] OTHER -> TRUE

Init ==
    /\ phase = "connect" /\ credsSent = FALSE /\ now = Start
    /\ IF Focus = "sources"
       THEN /\ userSet \in {"unset", "none", "one", "two"}
            /\ globalSet \in {"unset", "one", "two"}
       ELSE userSet = "na" /\ globalSet = "na"
    /\ IF Focus = "shape"
       THEN shape \in {"direct", "tunnel"} /\ hostform \in {"name", "ip4", "ip6"}
       ELSE shape = "na" /\ hostform = "na"
    /\ \/ /\ Focus = "lines"
          /\ lines \in AllLineSeqs /\ port \in {"def", "nondef"}
          /\ mode = "file" /\ cbKey = FALSE /\ cbCA = FALSE
          /\ pres \in PresKey \cup PresCertGood
       \/ /\ Focus = "cert"
          /\ lines \in CertFocusLines /\ port \in {"def", "nondef"}
          /\ mode = "file" /\ cbKey = FALSE /\ cbCA = FALSE
          /\ pres \in PresCertAll
       \/ /\ Focus = "callbacks"
          /\ lines \in AllLineSeqs /\ port \in {"def", "nondef"}
          /\ mode = "file" /\ cbKey \in BOOLEAN /\ cbCA \in BOOLEAN
          /\ pres \in PresKey \cup PresCertGood
       \/ /\ Focus = "cbcert"
          \* the owner callbacks crossed with what known_hosts says about
          \* the CA / key and with every certificate defect
          /\ lines \in CbCertLines /\ port \in {"def", "nondef"}
          /\ mode = "file" /\ cbKey \in BOOLEAN /\ cbCA \in BOOLEAN
          /\ pres \in PresKey \cup PresCertAll
       \/ /\ Focus = "sources"
          \* the deciding lines split over the places trust data comes from
          /\ lines \in UNION {[1..n -> {l \in Line :
                                 /\ l.match = "name"
                                 /\ FileExists(l.src, userSet, globalSet)}]
                            : n \in 0..MaxLines}
          /\ port = "def" /\ cbKey = FALSE /\ cbCA = FALSE
          \* "UserKnownHostsFile none" is documented to switch host key
          \* checking off, like known_hosts=None
          /\ mode = IF userSet = "none" THEN "none" ELSE "file"
          /\ pres \in {p \in PresKey \cup PresCertGood : p.holds}
       \/ /\ Focus = "shape"
          \* connection shape x form of the host x what a pattern matches
          /\ lines \in UNION {[1..n -> {l \in Line :
                                 /\ l.match = "name"
                                 /\ (l.via = "name" => hostform = "name")}]
                            : n \in 0..MaxLines}
          /\ port = "def" /\ mode = "file" /\ cbKey = FALSE /\ cbCA = FALSE
          /\ pres \in {p \in PresKey \cup PresCertGood : p.holds}
       \/ /\ Focus = "time"
          \* one certificate, looked at while the clock advances
          /\ lines = <<L("ca", "name", "CA1")>> /\ port \in {"def", "nondef"}
          /\ mode = "file" /\ cbKey = FALSE /\ cbCA = FALSE
          /\ pres \in {p \in PresCertAll : /\ p.type = "host" /\ p.certSig
                                          /\ p.holds /\ p.princ = "covers"}
       \/ /\ Focus = "trustall"
          /\ lines \in {<<>>, <<L("revoked", "both", "K1")>>,
                        <<L("revoked", "both", "CA1")>>}
          /\ port \in {"def", "nondef"}
          /\ mode = "none" /\ cbKey = FALSE /\ cbCA = FALSE
          /\ pres \in PresKey \cup PresCertAll
       \/ /\ Focus = "sets"
          /\ lines \in SetSeqs /\ port = "nondef"
          /\ mode = "file" /\ cbKey = FALSE /\ cbCA = FALSE
          /\ pres \in {p \in PresKey \cup PresCertGood : p.holds}

-----------------------------------------------------------------------------
(* known_hosts lookup.  Every operator takes the name mu of a variant:     *)
(* "none" is the design; the others are single, plausible deviations.  They *)
(* serve as sensitivity runs (Mu) and, printed with each case as the set    *)
(* of variants that would decide the case differently, they tell the        *)
(* replay which cases discriminate.                                         *)
Variants == {"dropPortRevoked", "orRevoked", "revokedPrimaryOnly",
             "revokedPlainOnly", "skipRevokedKey", "skipRevokedCA",
             "fbIgnoresCA", "fbIgnoresKeys", "alwaysFallback", "unionLookup",
             "markerIgnored", "caAsHostKey", "certKeyAsPlain", "anyCA",
             "typeIgnored", "vbInclusive", "vaLoose", "windowIgnored",
             "princIgnored", "emptyPrincRejected", "certSigIgnored",
             "holdsIgnored", "cbKeyForRevoked", "cbCAForRevoked",
             "trustAllSkipsSig", "noFallback",
             \* a callback may only widen WHICH key / CA is trusted
             "cbWaivesCertChecks", "cbWaivesType", "cbWaivesWindow",
             "cbWaivesPrinc", "cbKeyForCert", "cbCAForKey",
             \* every consulted source counts: the decision is that of the
             \* union of their lines
             "globalOnlyFallback", "userOnlyFallback", "firstFileOnly",
             "lastFileOnly", "globalRevokedIgnored", "userRevokedIgnored",
             "defaultAlsoConsulted", "globalNeverConsulted",
             \* patterns are matched against the name as dialled and
             \* against the address when one is known; an IP literal host
             \* is its own address
             "cidrNeedsPeerAddr", "cidrNever", "cidrNegationIgnored",
             "addrAlwaysKnown",
             \* the decision is taken against the clock at connection time
             "clockFrozenAtStart"}

(* which sources are consulted (connection.py SSHClientConnectionOptions   *)
(* .prepare: the files of UserKnownHostsFile followed by those of          *)
(* GlobalKnownHostsFile, read into ONE SSHKnownHosts; the default          *)
(* ~/.ssh/known_hosts only when neither the argument nor the configuration *)
(* names anything)                                                         *)
IsUser(src) == src \in {"ucfg1", "ucfg2"}
IsGlobal(src) == src \in {"gcfg1", "gcfg2"}
UserFiles == userSet \in {"one", "two"}
GlobalFiles == globalSet \in {"one", "two"}
AddrKnown(mu) == shape # "tunnel" \/ hostform \in {"ip4", "ip6"}
                 \/ mu = "addrAlwaysKnown"
CidrApplies(mu) == CASE mu = "cidrNeedsPeerAddr" -> shape # "tunnel"
                     [] mu = "cidrNever" -> FALSE
                     [] OTHER -> AddrKnown(mu)
ShapeMatches(mu, l) ==
    CASE l.via = "addrtext" -> AddrKnown(mu)
      [] l.via = "cidr" -> CidrApplies(mu)
      [] l.via = "negcidr" -> ~CidrApplies(mu) \/ mu = "cidrNegationIgnored"
      [] OTHER -> TRUE
Consulted(mu, l) ==
    LET src == l.src IN
    /\ ShapeMatches(mu, l)
    /\ FileExists(src, userSet, globalSet)
    /\ CASE src = "arg" -> TRUE
         [] src = "udef" -> \/ userSet = "unset" /\ globalSet = "unset"
                            \/ mu = "defaultAlsoConsulted"
         [] IsUser(src) -> ~(mu = "userOnlyFallback" /\ GlobalFiles)
         [] OTHER -> /\ ~(mu = "globalOnlyFallback" /\ UserFiles)
                     /\ mu # "globalNeverConsulted"
    /\ (mu = "firstFileOnly" => src \notin {"ucfg2", "gcfg2"})
    /\ (mu = "lastFileOnly" =>
            /\ ~(src = "ucfg1" /\ userSet = "two")
            /\ ~(src = "gcfg1" /\ globalSet = "two"))
    /\ ~(mu = "globalRevokedIgnored" /\ IsGlobal(src) /\ l.marker = "revoked")
    /\ ~(mu = "userRevokedIgnored" /\ IsUser(src) /\ l.marker = "revoked")
LineSetOf(mu) == {lines[i] : i \in {j \in 1..Len(lines) :
                                      Consulted(mu, lines[j])}}
InPrimary(l) == IF port = "nondef" THEN l.match \in {"port", "both"}
                ELSE l.match \in {"name", "both"}
InPlain(l) == l.match \in {"name", "both"}
KeysOf(mu, mk, sel(_)) ==
    {l.key : l \in {x \in LineSetOf(mu) : x.marker = mk /\ sel(x)}}

PrimaryHasTrust(mu) ==
    \E l \in LineSetOf(mu) : /\ InPrimary(l)
                       /\ l.marker \in (CASE mu = "fbIgnoresCA" -> {"plain"}
                                          [] mu = "fbIgnoresKeys" -> {"ca"}
                                          [] OTHER -> {"plain", "ca"})
Fallback(mu) ==
    /\ port = "nondef" /\ mu # "noFallback"
    /\ (mu = "alwaysFallback" \/ ~PrimaryHasTrust(mu))
Eff(mu, l) == IF mu = "unionLookup" /\ port = "nondef"
              THEN InPrimary(l) \/ InPlain(l)
              ELSE IF Fallback(mu) THEN InPlain(l) ELSE InPrimary(l)

TrustedKeys(mu) ==
    LET e(l) == Eff(mu, l) IN
    KeysOf(mu, "plain", e) \cup
    (IF mu \in {"markerIgnored", "caAsHostKey"} THEN KeysOf(mu, "ca", e) ELSE {})
TrustedCAs(mu) ==
    LET e(l) == Eff(mu, l) IN
    KeysOf(mu, "ca", e) \cup (IF mu = "markerIgnored" THEN KeysOf(mu, "plain", e)
                          ELSE {})
(* @revoked lines: those of the lookup that produced the trusted sets, and  *)
(* those found for [host]:port even when that lookup fell back              *)
Revoked(mu) ==
    LET e(l) == Eff(mu, l)
        eff  == KeysOf(mu, "revoked", e)
        prim == KeysOf(mu, "revoked", InPrimary)
        pln  == KeysOf(mu, "revoked", InPlain)
    IN  CASE mu = "dropPortRevoked" -> eff
          [] mu = "orRevoked" -> IF Fallback(mu) /\ pln # {} THEN pln
                                 ELSE eff \cup prim
          [] mu = "revokedPrimaryOnly" -> prim
          [] mu = "revokedPlainOnly" -> pln
          [] OTHER -> eff \cup prim

WindowOK(mu, w) ==
    CASE mu = "windowIgnored" -> TRUE
      [] mu = "vbInclusive" -> Va(w) <= now /\ now <= Vb(w)
      [] mu = "vaLoose" -> Va(w) <= now + 1 /\ now < Vb(w)
      [] mu = "clockFrozenAtStart" -> Va(w) <= Start /\ Start < Vb(w)
      [] OTHER -> Va(w) <= now /\ now < Vb(w)

(* the client's decision, in the order the code takes it *)
KeyAccepted(mu) ==
    \/ mode = "none"
    \/ mu = "cbCAForKey" /\ cbCA /\ pres.key \notin Revoked(mu)
    \/ /\ (pres.key \notin Revoked(mu) \/ mu = "skipRevokedKey"
           \/ (mu = "cbKeyForRevoked" /\ cbKey))
       /\ (pres.key \in TrustedKeys(mu) \/ cbKey)
(* the CA is not listed, the owner's validate_host_ca_key vouched for it *)
ViaCallback(mu) == pres.ca \notin TrustedCAs(mu) /\ cbCA
Waived(mu, what) == ViaCallback(mu) /\ mu \in {"cbWaivesCertChecks", what}
CertAccepted(mu) ==
    /\ (pres.certSig \/ mu = "certSigIgnored") \* else the blob does not decode
    /\ \/ mode = "none"
       \/ mu = "certKeyAsPlain" /\ pres.key \in TrustedKeys(mu)
                                /\ pres.key \notin Revoked(mu)
       \/ mu = "cbKeyForCert" /\ cbKey /\ pres.key \notin Revoked(mu)
       \/ /\ (pres.ca \notin Revoked(mu) \/ mu = "skipRevokedCA"
              \/ (mu = "cbCAForRevoked" /\ cbCA))
          /\ (pres.ca \in TrustedCAs(mu) \/ cbCA \/ mu = "anyCA")
          /\ (pres.type = "host" \/ mu = "typeIgnored"
              \/ Waived(mu, "cbWaivesType"))
          /\ (WindowOK(mu, pres.win) \/ Waived(mu, "cbWaivesWindow"))
          /\ \/ mu = "princIgnored" \/ Waived(mu, "cbWaivesPrinc")
             \/ pres.princ = "covers"
             \/ pres.princ = "empty" /\ mu # "emptyPrincRejected"
DecisionM(mu) ==
    /\ IF pres.kind = "key" THEN KeyAccepted(mu) ELSE CertAccepted(mu)
    \* signature over the exchange hash verifies under the presented key
    /\ (pres.holds \/ mu = "holdsIgnored"
        \/ (mu = "trustAllSkipsSig" /\ mode = "none"))
Decision == DecisionM(Mu)

(* the property, written out *)
TrustRule ==
    LET looked(l) == Eff("none", l)
        trusted == KeysOf("none", "plain", looked)
        cas     == KeysOf("none", "ca", looked)
        revoked == KeysOf("none", "revoked", looked) \cup KeysOf("none", "revoked", InPrimary)
    IN
    /\ pres.holds
    /\ \/ mode = "none" /\ (pres.kind = "cert" => pres.certSig)
       \/ /\ mode = "file" /\ pres.kind = "key"
          /\ (pres.key \in trusted \/ cbKey) /\ pres.key \notin revoked
       \/ /\ mode = "file" /\ pres.kind = "cert" /\ pres.certSig
          /\ (pres.ca \in cas \/ cbCA) /\ pres.ca \notin revoked
          /\ pres.type = "host"
          /\ Va(pres.win) <= now /\ now < Vb(pres.win)
          /\ pres.princ \in {"covers", "empty"}

(* variants that would decide this case differently from the property *)
SourceVariants == {"globalOnlyFallback", "userOnlyFallback", "firstFileOnly",
                   "lastFileOnly", "globalRevokedIgnored",
                   "userRevokedIgnored", "defaultAlsoConsulted",
                   "globalNeverConsulted"}
TimeVariants == {"clockFrozenAtStart"}
ShapeVariants == {"cidrNeedsPeerAddr", "cidrNever", "cidrNegationIgnored",
                  "addrAlwaysKnown"}
CallbackVariants == {"cbWaivesCertChecks", "cbWaivesType", "cbWaivesWindow",
                     "cbWaivesPrinc", "cbKeyForCert", "cbCAForKey",
                     "cbKeyForRevoked", "cbCAForRevoked"}
(* variants that cannot differ in a focus are not evaluated there *)
ActiveVariants ==
    Variants \ ((IF Focus = "sources" THEN {} ELSE SourceVariants)
                \cup (IF Focus = "shape" THEN {} ELSE ShapeVariants)
                \cup (IF Focus = "time" THEN {} ELSE TimeVariants)
                \cup (IF Focus \in {"callbacks", "cbcert"} THEN {}
                      ELSE CallbackVariants))
Discriminates == {mu \in ActiveVariants : DecisionM(mu) # TrustRule}

-----------------------------------------------------------------------------
(* time passes between the start of the process and a connection attempt *)
Tick ==
    /\ Focus = "time" /\ phase = "connect" /\ now < MaxNow
    /\ now' = now + 1
    /\ UNCHANGED <<lines, port, mode, cbKey, cbCA, pres, phase, credsSent,
                   userSet, globalSet, shape, hostform>>
Connect ==
    /\ phase = "connect" /\ phase' = "reply"
    /\ UNCHANGED <<lines, port, mode, cbKey, cbCA, pres, credsSent, userSet,
                   globalSet, shape, hostform, now>>
Decide ==
    /\ phase = "reply"
    /\ phase' = IF Decision THEN "accepted" ELSE "rejected"
    /\ UNCHANGED <<lines, port, mode, cbKey, cbCA, pres, credsSent, userSet,
                   globalSet, shape, hostform, now>>
SendAuth ==
    /\ phase = "accepted" /\ phase' = "auth" /\ credsSent' = TRUE
    /\ UNCHANGED <<lines, port, mode, cbKey, cbCA, pres, userSet, globalSet,
                   shape, hostform, now>>
Next == Tick \/ Connect \/ Decide \/ SendAuth
Spec == Init /\ [][Next]_vars

DecisionMatchesRule == phase \in {"accepted", "auth"} => TrustRule
RuleMatchesDecision == phase = "rejected" => ~TrustRule
CredsOnlyIfTrusted  == credsSent => TrustRule
NoCredsBeforeTrust  == [][credsSent' => phase = "accepted"]_vars

Emitted ==
    (Emit /\ phase \in {"accepted", "rejected"}) =>
        PrintT(<<"case", lines, port, mode, cbKey, cbCA, pres, TrustRule,
                 Discriminates,
                 \* the sets the lookup yields, for known_hosts given as
                 \* key lists / as a callable instead of as file content
                 TrustedKeys("none"), TrustedCAs("none"), Revoked("none"),
                 userSet, globalSet, shape, hostform, now>>)

NeverAccepted == phase # "accepted"
NeverFallbackAccept == ~(phase = "accepted" /\ Fallback("none"))
=============================================================================
