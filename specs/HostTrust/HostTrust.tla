----------------------------- MODULE HostTrust -----------------------------
(***************************************************************************)
(* The client's decision whether to talk to a server: known_hosts lookup   *)
(* for (host, address, port), host key / host certificate acceptance,      *)
(* proof of possession, and the rule that no credentials leave the client  *)
(* before that decision was positive.                                      *)
(*                                                                         *)
(* Sources: connection.py SSHClientConnection._connection_made (trusted,   *)
(* CA and revoked sets from match_known_hosts; known_hosts=None = accept   *)
(* any key), _validate_host_key, _validate_openssh_host_certificate,       *)
(* validate_server_host_key; known_hosts.py SSHKnownHosts._match / match   *)
(* ([host]:port lookup with fall-back to the plain name); public_key.py    *)
(* SSHOpenSSHCertificate.construct (certificate signature) and validate    *)
(* (type, [valid_after, valid_before), principals); kex_dh.py              *)
(* _verify_reply (signature over the exchange hash under the presented     *)
(* key).                                                                   *)
(*                                                                         *)
(* A known_hosts line is abstracted to [marker, match, key]; how the       *)
(* pattern is spelled (plain, hashed, wildcard, negated, CIDR, bracketed   *)
(* port, lists) is chosen when a case is materialised, constrained by      *)
(* `match`:                                                                *)
(*   "name"  the pattern matches the host name / address without port      *)
(*   "port"  the pattern matches the form [host]:port or [addr]:port       *)
(*   "both"  it matches either form (CIDR ranges, broad wildcards)         *)
(*   "none"  it does not match (other host, other port, negated)           *)
(***************************************************************************)
EXTENDS Naturals, Sequences, FiniteSets, TLC

CONSTANTS
    MaxLines,       \* lines in the known_hosts data
    LineKeys,       \* key ids that may appear on lines
    Focus,          \* "lines" | "cert" | "callbacks" | "trustall"
    FallbackKeepsRevoked,  \* TRUE: @revoked lines found for [host]:port stay
                    \* in force when the lookup falls back to the plain name
                    \* (the property; OpenSSH); FALSE: the fall-back result
                    \* replaces them (known_hosts.py as it is)
    SkipRevoked,    \* sensitivity: revoked set ignored
    PrincipalsIgnored,     \* sensitivity: principals not compared
    Emit

Now == 2
Markers == {"plain", "ca", "revoked"}
Matches == {"name", "port", "both", "none"}
Line == [marker : Markers, match : Matches, key : LineKeys]

(* validity windows [va, vb) around Now *)
Windows == {"in", "startsNow", "endsNext", "notYet", "endsNow", "expired"}
Va(w) == CASE w = "startsNow" -> Now [] w = "notYet" -> Now + 1 [] OTHER -> 0
Vb(w) == CASE w = "endsNext" -> Now + 1 [] w = "endsNow" -> Now
           [] w = "expired" -> Now - 1 [] OTHER -> 9
WindowHolds(w) == Va(w) <= Now /\ Now < Vb(w)

PresKey == [kind : {"key"}, key : {"K1"}, ca : {"none"}, type : {"host"},
            win : {"in"}, princ : {"covers"}, certSig : {TRUE},
            holds : BOOLEAN]
PresCertGood == [kind : {"cert"}, key : {"K1"}, ca : {"CA1"}, type : {"host"},
                 win : {"in"}, princ : {"covers"}, certSig : {TRUE},
                 holds : BOOLEAN]
PresCertAll == [kind : {"cert"}, key : {"K1"}, ca : {"CA1"},
                type : {"host", "user"}, win : Windows,
                princ : {"covers", "other", "empty"}, certSig : BOOLEAN,
                holds : BOOLEAN]

L(mk, mt, k) == [marker |-> mk, match |-> mt, key |-> k]
CertFocusLines ==
    { <<L("ca", "name", "CA1")>>,
      <<L("ca", "name", "CA2")>>,
      <<L("ca", "name", "CA1"), L("revoked", "name", "CA1")>>,
      <<L("revoked", "both", "CA1"), L("ca", "name", "CA1")>>,
      <<L("plain", "name", "K1")>>,
      <<L("ca", "none", "CA1")>>,
      <<L("ca", "name", "K1")>>,
      \* calibration: only the CA is looked up in the revoked set; a
      \* certificate whose certified key is listed @revoked is still
      \* accepted by asyncssh -- the property asks for a non-revoked CA only
      <<L("ca", "name", "CA1"), L("revoked", "name", "K1")>> }
AllLineSeqs == UNION {[1..n -> Line] : n \in 0..MaxLines}

VARIABLES
    lines,      \* known_hosts content
    port,       \* "def" | "nondef"
    mode,       \* "file": known_hosts given; "none": known_hosts=None
    cbKey,      \* answer of SSHClient.validate_host_public_key
    cbCA,       \* answer of SSHClient.validate_host_ca_key
    pres,       \* what the server presents and whether it can sign for it
    phase,      \* "connect" | "reply" | "accepted" | "rejected" | "auth"
    credsSent

vars == <<lines, port, mode, cbKey, cbCA, pres, phase, credsSent>>

Init ==
    /\ phase = "connect" /\ credsSent = FALSE
    /\ \/ /\ Focus = "lines"
              /\ lines \in AllLineSeqs /\ port \in {"def", "nondef"}
              /\ mode = "file" /\ cbKey = FALSE /\ cbCA = FALSE
              /\ pres \in PresKey \cup PresCertGood
       \/ /\ Focus = "cert"
              /\ lines \in CertFocusLines /\ port \in {"def", "nondef"}
              /\ mode = "file" /\ cbKey = FALSE /\ cbCA = FALSE
              /\ pres \in PresCertAll
       \/ /\ Focus = "callbacks"
              /\ lines \in AllLineSeqs /\ port \in {"def", "nondef"}
              /\ mode = "file" /\ cbKey \in BOOLEAN /\ cbCA \in BOOLEAN
              /\ pres \in PresKey \cup PresCertGood
       \/ /\ Focus = "trustall"
              /\ lines \in {<<>>, <<L("revoked", "both", "K1")>>,
                            <<L("revoked", "both", "CA1")>>}
              /\ port \in {"def", "nondef"}
              /\ mode = "none" /\ cbKey = FALSE /\ cbCA = FALSE
              /\ pres \in PresKey \cup PresCertAll

-----------------------------------------------------------------------------
(* known_hosts lookup *)
LineSet == {lines[i] : i \in 1..Len(lines)}
InPrimary(l) == IF port = "nondef" THEN l.match \in {"port", "both"}
                ELSE l.match \in {"name", "both"}
InPlain(l) == l.match \in {"name", "both"}
PrimaryHasTrust == \E l \in LineSet : InPrimary(l) /\ l.marker \in {"plain", "ca"}
Fallback == port = "nondef" /\ ~PrimaryHasTrust
Eff(l) == IF Fallback THEN InPlain(l) ELSE InPrimary(l)

KeysOf(mk, sel(_)) == {l.key : l \in {x \in LineSet : x.marker = mk /\ sel(x)}}
TrustedKeys == KeysOf("plain", Eff)
TrustedCAs  == KeysOf("ca", Eff)
RevokedFor(keep, skip) ==
    IF skip THEN {}
    ELSE KeysOf("revoked", Eff) \cup
         (IF keep THEN KeysOf("revoked", InPrimary) ELSE {})

(* the client's decision, in the order the code takes it *)
KeyAccepted(revoked) ==
    \/ mode = "none"
    \/ /\ pres.key \notin revoked
       /\ (pres.key \in TrustedKeys \/ cbKey)
CertAccepted(revoked) ==
    /\ pres.certSig                     \* else the blob does not decode
    /\ \/ mode = "none"
       \/ /\ pres.ca \notin revoked
          /\ (pres.ca \in TrustedCAs \/ cbCA)
          /\ pres.type = "host"
          /\ WindowHolds(pres.win)
          /\ (PrincipalsIgnored \/ pres.princ \in {"covers", "empty"})
DecisionWith(keep) ==
    /\ LET revoked == RevokedFor(keep, SkipRevoked) IN
       IF pres.kind = "key" THEN KeyAccepted(revoked)
       ELSE CertAccepted(revoked)
    /\ pres.holds                       \* signature over H verifies
Decision == DecisionWith(FallbackKeepsRevoked)

(* the property, written out *)
TrustRule ==
    LET revoked == RevokedFor(TRUE, FALSE) IN
    /\ pres.holds
    /\ \/ mode = "none" /\ (pres.kind = "cert" => pres.certSig)
       \/ /\ mode = "file" /\ pres.kind = "key"
          /\ (pres.key \in TrustedKeys \/ cbKey) /\ pres.key \notin revoked
       \/ /\ mode = "file" /\ pres.kind = "cert" /\ pres.certSig
          /\ (pres.ca \in TrustedCAs \/ cbCA) /\ pres.ca \notin revoked
          /\ pres.type = "host"
          /\ Va(pres.win) <= Now /\ Now < Vb(pres.win)
          /\ pres.princ \in {"covers", "empty"}

-----------------------------------------------------------------------------
Connect ==
    /\ phase = "connect" /\ phase' = "reply"
    /\ UNCHANGED <<lines, port, mode, cbKey, cbCA, pres, credsSent>>
Decide ==
    /\ phase = "reply"
    /\ phase' = IF Decision THEN "accepted" ELSE "rejected"
    /\ UNCHANGED <<lines, port, mode, cbKey, cbCA, pres, credsSent>>
SendAuth ==
    /\ phase = "accepted" /\ phase' = "auth" /\ credsSent' = TRUE
    /\ UNCHANGED <<lines, port, mode, cbKey, cbCA, pres>>
Next == Connect \/ Decide \/ SendAuth
Spec == Init /\ [][Next]_vars

DecisionMatchesRule == phase \in {"accepted", "auth"} => TrustRule
RuleMatchesDecision == phase = "rejected" => ~TrustRule
CredsOnlyIfTrusted  == credsSent => TrustRule
NoCredsBeforeTrust  == [][credsSent' => phase = "accepted"]_vars

Emitted ==
    (Emit /\ phase \in {"accepted", "rejected"}) =>
        PrintT(<<"case", lines, port, mode, cbKey, cbCA, pres, TrustRule,
                 DecisionWith(FALSE)>>)

NeverAccepted == phase # "accepted"
NeverFallbackAccept == ~(phase = "accepted" /\ Fallback)
=============================================================================
