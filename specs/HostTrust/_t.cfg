CONSTANTS
  MaxLines = 2
  LineKeys = {"K1","K2","CA1","CA2"}
  Focus = "lines"
  FallbackKeepsRevoked = TRUE
  SkipRevoked = FALSE
  PrincipalsIgnored = FALSE
  Emit = FALSE
SPECIFICATION Spec
CHECK_DEADLOCK FALSE
INVARIANT DecisionMatchesRule
INVARIANT RuleMatchesDecision
INVARIANT CredsOnlyIfTrusted
PROPERTY NoCredsBeforeTrust
