------------------------------ MODULE SaslPrep ------------------------------
(***************************************************************************)
(* SASLprep (RFC 4013, a stringprep profile, RFC 3454) as asyncssh applies *)
(* it to every user name and password that takes part in authentication    *)
(* (saslprep.py; auth.py password / host-based requests; connection.py     *)
(* USERAUTH_REQUEST user name and the client's own user name option).      *)
(*                                                                         *)
(* A string is a sequence of CHARACTER CLASSES; the rule is the RFC's       *)
(* pipeline, written over classes:                                         *)
(*   1. unassigned code points (table A.1) are refused                     *)
(*   2. map: non-ASCII spaces (C.1.2) -> SPACE, "mapped to nothing" (B.1)  *)
(*      characters disappear                                               *)
(*   3. NFKC: compatibility characters expand (a ligature into two         *)
(*      letters, a full-width letter into the plain one), a letter         *)
(*      followed by a combining mark composes                              *)
(*   4. prohibited output (C.2.1 - C.9) is refused                         *)
(*   5. bidi (section 6): with a RandALCat character present, no LCat      *)
(*      character may be, and the first and the last character must be     *)
(*      RandALCat                                                          *)
(* The output is a sequence of TOKENS that say where each output character *)
(* comes from, so that the driver can render it for whatever concrete      *)
(* representatives it chose for the classes:                               *)
(*   <<"keep", i>>       input character i unchanged                       *)
(*   <<"sp">>            U+0020                                            *)
(*   <<"exp", i, k>>     k-th character of the NFKC expansion of input i   *)
(*   <<"comp", t, j>>    token t composed with the combining mark input j  *)
(* Every string up to MaxLen over the classes is one initial state.        *)
(***************************************************************************)
EXTENDS Naturals, Sequences, FiniteSets, TLC

CONSTANTS MaxLen,
          Variant   \* "rfc" | wrong variants used for sensitivity:
                    \*   "bidi_on_input"  the bidi rule applied before mapping / normalising
                    \*   "no_nfkc"        normalisation skipped
                    \*   "map_after"      prohibited check before the mapping step

Classes == {"A",     \* letter: LCat, composes with the combining mark
            "ACC",   \* precomposed accented letter: LCat
            "D",     \* digit: neither LCat nor RandALCat
            "SP",    \* U+0020
            "NB",    \* non-ASCII space (C.1.2)
            "SHY",   \* mapped to nothing (B.1)
            "CTL",   \* control character (C.2.1 / C.2.2)
            "R",     \* RandALCat (D.1)
            "UNA",   \* unassigned in Unicode 3.2 (A.1)
            "PUA",   \* private use (C.3)
            "NCH",   \* non-character (C.4)
            "INA",   \* inappropriate for plain text / canonical representation, display-changing (C.6 - C.8)
            "TAG",   \* tagging character (C.9)
            "LIG",   \* compatibility ligature: NFKC gives two letters
            "FW",    \* full-width / superscript letter: NFKC gives one letter
            "CMB"}   \* combining mark (NSM)

Prohibited == {"CTL", "PUA", "NCH", "INA", "TAG", "NB"}
LCat(c) == c \in {"A", "ACC"}
RCat(c) == c = "R"

\* a working item: [c |-> class, t |-> token]
Item(c, t) == [c |-> c, t |-> t]
Items(str) == [i \in 1..Len(str) |-> Item(str[i], <<"keep", i>>)]

RECURSIVE MapStep(_)
MapStep(q) ==
    IF q = <<>> THEN <<>>
    ELSE LET h == Head(q) r == MapStep(Tail(q)) IN
         IF h.c = "NB" THEN <<Item("SP", <<"sp">>)>> \o r
         ELSE IF h.c = "SHY" THEN r
         ELSE <<h>> \o r

RECURSIVE Expand(_)
Expand(q) ==
    IF q = <<>> THEN <<>>
    ELSE LET h == Head(q) r == Expand(Tail(q)) i == h.t[2] IN
         IF h.c = "LIG" THEN <<Item("A", <<"exp", i, 1>>), Item("A", <<"exp", i, 2>>)>> \o r
         ELSE IF h.c = "FW" THEN <<Item("A", <<"exp", i, 1>>)>> \o r
         ELSE <<h>> \o r

RECURSIVE Compose(_)
Compose(q) ==
    IF Len(q) < 2 THEN q
    ELSE IF q[1].c = "A" /\ q[2].c = "CMB"
         THEN <<Item("ACC", <<"comp", q[1].t, q[2].t[2]>>)>> \o Compose(Tail(Tail(q)))
         ELSE <<Head(q)>> \o Compose(Tail(q))

Nfkc(q) == IF Variant = "no_nfkc" THEN q ELSE Compose(Expand(q))

ClassesOf(q) == [i \in 1..Len(q) |-> q[i].c]
Has(cs, P(_)) == \E i \in 1..Len(cs) : P(cs[i])

BidiBad(cs) ==
    /\ Has(cs, RCat)
    /\ \/ Has(cs, LCat)
       \/ ~RCat(cs[1]) \/ ~RCat(cs[Len(cs)])

Prep(str) ==
    LET q0 == Items(str)
        q1 == MapStep(q0)
        q2 == Nfkc(q1)
        cs == ClassesOf(q2)
    IN IF \E i \in 1..Len(str) : str[i] = "UNA" THEN <<"err", "unassigned">>
       ELSE IF Variant = "map_after" /\ \E i \in 1..Len(str) : str[i] \in Prohibited
       THEN <<"err", "prohibited">>
       ELSE IF \E i \in 1..Len(cs) : cs[i] \in Prohibited THEN <<"err", "prohibited">>
       ELSE IF (IF Variant = "bidi_on_input" THEN BidiBad(str) ELSE BidiBad(cs))
       THEN <<"err", "bidi">>
       ELSE <<"ok", [i \in 1..Len(q2) |-> q2[i].t], cs>>

-----------------------------------------------------------------------------
Strings == UNION {[1..n -> Classes] : n \in 0..MaxLen}

VARIABLE case
Init == case \in Strings
Next == UNCHANGED case
Spec == Init /\ [][Next]_case

Res == Prep(case)

\* the output is in the form the profile promises
NoProhibitedOut == Res[1] = "ok" =>
    \A i \in 1..Len(Res[3]) : Res[3][i] \notin (Prohibited \cup {"UNA", "SHY", "LIG", "FW"})
BidiOut == Res[1] = "ok" => ~BidiBad(Res[3])
\* preparing a prepared string changes nothing (output classes are input classes)
Idempotent == Res[1] = "ok" =>
    LET again == Prep(Res[3]) IN again[1] = "ok" /\ again[3] = Res[3]
\* the decision never depends on characters that are mapped to nothing
ShyInvisible == LET without == SelectSeq(case, LAMBDA c : c # "SHY")
                    r2 == Prep(without) IN
                Res[1] = r2[1] /\ (Res[1] = "ok" => Res[3] = r2[3])

\* sensitivity: the wrong variants decide some string differently from the RFC pipeline
RfcPrep(str) ==
    LET q2 == Compose(Expand(MapStep(Items(str)))) cs == ClassesOf(q2) IN
    IF \E i \in 1..Len(str) : str[i] = "UNA" THEN <<"err", "unassigned">>
    ELSE IF \E i \in 1..Len(cs) : cs[i] \in Prohibited THEN <<"err", "prohibited">>
    ELSE IF BidiBad(cs) THEN <<"err", "bidi">>
    ELSE <<"ok", [i \in 1..Len(q2) |-> q2[i].t], cs>>
AgreesWithRfc == Res = RfcPrep(case)

Emit == PrintT(ToString(<<"SCRIPT", case, Res>>))
=============================================================================
