----------------------------- MODULE HostBased -----------------------------
(***************************************************************************)
(* C05: the SERVER side of host-based authentication (RFC 4252 section 9)  *)
(* in asyncssh, as a decision table.  A state is ONE row: the server's      *)
(* set-up (known_client_hosts given or not, trust_client_host, what the     *)
(* application's validate_host_based_user answers), what the peer address  *)
(* reverse-resolves to, and one "hostbased" USERAUTH_REQUEST: the client    *)
(* host name written in the request, the host key or host certificate       *)
(* presented, the signature, the user names - optionally preceded by an     *)
(* earlier, refused request on the same connection.                         *)
(* Transcribed from connection.py validate_host_based_auth,                 *)
(* _match_known_hosts, _validate_host_key, _validate_openssh_host_          *)
(* certificate, host_based_auth_supported; auth.py _ServerHostBasedAuth;    *)
(* known_hosts.py match_known_hosts (an entry matches the host NAME or the  *)
(* peer ADDRESS); server.py validate_host_based_user (default: username =   *)
(* client_username).                                                        *)
(*                                                                         *)
(* Rule (HostBasedSound): access is granted iff the method is enabled AND   *)
(* the key (or the certificate's CA, with the certificate naming the host)  *)
(* is trusted for the host the SERVER believes the client to be - the name  *)
(* its address resolves to, unless trust_client_host - AND is not revoked   *)
(* AND the signature verifies over this session AND the user check passes.  *)
(***************************************************************************)
EXTENDS Naturals, Sequences, FiniteSets, TLC

CONSTANTS HTier,               \* "quick" | "thorough"
          LookupByClaimedHost, \* sensitivity: WRONG rule, known_client_hosts is searched under
                               \* the name written in the request
          Accumulate           \* TRUE: keys trusted for the host of an EARLIER request on the
                               \* connection stay trusted (asyncssh as coded); FALSE: the oracle

Addr == "10.0.0.5"                      \* the peer address
Hosts == {"ha", "hb", "hu"}             \* ha, hb are listed in known_client_hosts; hu is not
\* known_client_hosts
Listed == {<<"ha", "ka">>, <<"ha", "kr">>, <<"hb", "kb">>, <<Addr, "kaddr">>}
CAListed == {<<"ha", "caa">>, <<"hb", "cab">>}
Revoked == {"kr"}                       \* @revoked * kr
PlainKeys == {"ka", "kb", "ku", "kr", "kaddr"}
CAs == {"caa", "cab", "cau"}
NoCA == "-"

\* what is presented: a plain key, or a host certificate over the unlisted key "kc"
Plain(k) == [key |-> k, ca |-> NoCA, principals |-> {}]
CertBy(ca, ps) == [key |-> "kc", ca |-> ca, principals |-> ps]

Req(claimed, dot, cred, sig, cuser) ==
    [claimed |-> claimed,   \* client host name in the request
     dot |-> dot,           \* ... written with a trailing dot
     cred |-> cred,
     sig |-> sig,           \* "ok" | "othersid" (valid for another session id) | "otherkey"
     user |-> "alice", cuser |-> cuser]
NoReq == [Req("hu", FALSE, Plain("ku"), "ok", "alice") EXCEPT !.claimed = "-"]

Row(sec, enabled, trust, rdns, vuser, prior, req) ==
    [sec |-> sec,
     enabled |-> enabled,   \* known_client_hosts given (else the method is not offered)
     trust |-> trust,       \* trust_client_host
     rdns |-> rdns,         \* what Addr reverse-resolves to; "fail" = no name
     vuser |-> vuser,       \* validate_host_based_user: "default" | "true" | "false"
     prior |-> prior,       \* an earlier request on the connection (NoReq: none)
     req |-> req]

----------------------------------------------------------------------------
\* the host the server believes the request comes from
Believed(r, q) ==
    IF r.trust THEN q.claimed              \* (trailing dot removed)
    ELSE IF r.rdns = "fail" THEN Addr ELSE r.rdns
\* the name known_client_hosts is searched under
LookupName(r, q) == IF LookupByClaimedHost THEN q.claimed ELSE Believed(r, q)
\* match_known_hosts(known, host, addr): entries for the name or for the address
KeysFor(h) == {e[2] : e \in {e \in Listed : e[1] \in {h, Addr}}}
CAsFor(h) == {e[2] : e \in {e \in CAListed : e[1] \in {h, Addr}}}

UserOK(r, q) == CASE r.vuser = "true" -> TRUE
                  [] r.vuser = "false" -> FALSE
                  [] OTHER -> q.user = q.cuser

\* trusted plain keys when request q is judged: _trusted_host_keys is a set on the
\* connection which _match_known_hosts only ever adds to
TrustedKeys(r, q, earlier, acc) ==
    KeysFor(LookupName(r, q)) \cup
    (IF acc /\ earlier.claimed # "-" THEN KeysFor(LookupName(r, earlier)) ELSE {})

KeyOK(r, q, earlier, acc) ==
    IF q.cred.ca = NoCA
    THEN q.cred.key \notin Revoked /\ q.cred.key \in TrustedKeys(r, q, earlier, acc)
    ELSE /\ q.cred.ca \notin Revoked
         /\ q.cred.ca \in CAsFor(LookupName(r, q))       \* _trusted_ca_keys is assigned anew
         \* cert.validate(CERT_TYPE_HOST, resolved_host)
         /\ q.cred.principals = {} \/ Believed(r, q) \in q.cred.principals

Granted1(r, q, earlier, acc) ==
    /\ r.enabled
    /\ KeyOK(r, q, earlier, acc)
    /\ q.sig = "ok"
    /\ UserOK(r, q)
\* the row: the earlier request (if any) must be refused for the second to be examined
PriorGranted(r) == r.prior.claimed # "-" /\ Granted1(r, r.prior, NoReq, FALSE)
GrantedA(r, acc) == ~PriorGranted(r) /\ Granted1(r, r.req, r.prior, acc)
Granted(r) == GrantedA(r, Accumulate)
\* what the application callback is shown as client host
HostShown(r) == r.req.claimed

----------------------------------------------------------------------------
\* the table
Thorough == HTier = "thorough"
Certs == {CertBy(ca, ps) : ca \in CAs, ps \in {{"ha"}, {"hb"}, {"hu"}, {}}}
Creds == {Plain(k) : k \in PlainKeys} \cup Certs
FewCreds == {Plain("ka"), Plain("kb"), Plain("ku"), CertBy("caa", {"ha"}), CertBy("cab", {"hb"})}
Sigs == {"ok", "othersid", "otherkey"}
CUsers == {"alice", "mallory"}
VUsers == {"default", "true", "false"}

\* A. who is believed x what is claimed x what is presented
MainRows ==
    {Row("main", TRUE, t, "ha", "default", NoReq, Req(cl, d, cr, "ok", "alice")) :
        t \in BOOLEAN, cl \in Hosts, d \in BOOLEAN, cr \in Creds}
\* B. signature, user names, application answer
CheckRows ==
    {Row("check", TRUE, t, "ha", v, NoReq, Req(cl, FALSE, cr, s, cu)) :
        t \in BOOLEAN, cl \in IF Thorough THEN Hosts ELSE {"ha", "hb"},
        cr \in IF Thorough THEN Creds ELSE FewCreds, s \in Sigs, cu \in CUsers, v \in VUsers}
\* C. the address has no name; the method is not enabled
OtherRows ==
    {Row("rdns", TRUE, t, "fail", "default", NoReq, Req(cl, FALSE, cr, "ok", "alice")) :
        t \in BOOLEAN, cl \in Hosts,
        cr \in {Plain("ka"), Plain("kb"), Plain("kaddr"), Plain("ku"), CertBy("caa", {"ha"}),
                CertBy("caa", {})}}
    \cup {Row("off", FALSE, t, "ha", v, NoReq, Req("ha", FALSE, cr, "ok", "alice")) :
        t \in BOOLEAN, v \in {"default", "true"}, cr \in FewCreds}
\* D. an earlier, refused request on the same connection (refused by the user check, so
\*    that its key was looked up) must not widen what the next one may use
PriorRows ==
    {Row("prior", TRUE, t, "ha", "default",
         Req(pc, FALSE, pk, "ok", "mallory"), Req(cl, FALSE, cr, "ok", "alice")) :
        t \in BOOLEAN, pc \in {"ha", "hb"}, pk \in {Plain("ka"), Plain("kb"), CertBy("cab", {"hb"})},
        cl \in {"ha", "hb", "hu"}, cr \in {Plain("ka"), Plain("kb"), Plain("ku"),
                                           CertBy("cab", {"hb"}), CertBy("cab", {})}}

Rows == MainRows \cup CheckRows \cup OtherRows \cup PriorRows

VARIABLE r
Init == r \in Rows
Next == UNCHANGED r
Spec == Init /\ [][Next]_r

----------------------------------------------------------------------------
\* properties
\* the credential is listed (and not revoked) for host h
ListedFor(cred, h) ==
    IF cred.ca = NoCA
    THEN cred.key \notin Revoked /\ (<<h, cred.key>> \in Listed \/ <<Addr, cred.key>> \in Listed)
    ELSE /\ cred.ca \notin Revoked
         /\ <<h, cred.ca>> \in CAListed \/ <<Addr, cred.ca>> \in CAListed
         /\ cred.principals = {} \/ h \in cred.principals
HostBasedSound ==
    LET q == r.req
        who == IF r.trust THEN q.claimed ELSE IF r.rdns = "fail" THEN Addr ELSE r.rdns
    IN Granted(r) <=>
          /\ r.enabled
          /\ ListedFor(q.cred, who)
          /\ q.sig = "ok"
          /\ UserOK(r, q)
          /\ ~PriorGranted(r)
\* without trust_client_host the name in the request decides nothing
ClaimDecidesNothing ==
    ~r.trust => \A h \in Hosts, d \in BOOLEAN :
                    Granted([r EXCEPT !.req.claimed = h, !.req.dot = d]) = Granted(r)
RevokedNeverGranted ==
    (r.req.cred.key \in Revoked \/ r.req.cred.ca \in Revoked) => ~Granted(r)
DisabledNeverGranted == ~r.enabled => ~Granted(r)
\* an earlier request changes nothing
NoCarryOver == Granted(r) = (Granted1(r, r.req, NoReq, FALSE) /\ ~PriorGranted(r))

\* emission
Verdict == [granted |-> GrantedA(r, FALSE), coded |-> GrantedA(r, TRUE),
            priorGranted |-> PriorGranted(r), shown |-> HostShown(r)]
EmitRow == PrintT(ToString(<<"HBROW", r, Verdict>>))
ASSUME PrintT(ToString(<<"HBPOOL", Listed, CAListed, Revoked>>))
=============================================================================
