------------------------------- MODULE Auth -------------------------------
(***************************************************************************)
(* Server side user authentication of asyncssh, at the granularity of the  *)
(* event loop: one action per atomic section (code between two suspension  *)
(* points).  Sources: connection.py _process_userauth_request,             *)
(* _finish_userauth, send_userauth_success/failure, reload_config,         *)
(* validate_public_key/_validate_client_public_key, validate_password;     *)
(* auth.py ServerAuth and its subclasses, lookup_server_auth, Auth.cancel. *)
(*                                                                         *)
(* Scheduling is run-to-completion: callbacks already in the ready queue   *)
(* run in FIFO order before the next external event (a chunk of packets    *)
(* arriving, an executor job finishing, an application validator           *)
(* completing) is taken.  That is exactly what an asyncio loop does for    *)
(* events that reach it through the selector.                              *)
(***************************************************************************)
EXTENDS Naturals, Sequences, FiniteSets, TLC

CONSTANTS
    Users,        \* user names the client may claim
    Bad,          \* a credential valid for nobody
    NULL,
    MaxMsg,       \* number of client messages
    Methods,      \* subset of {"none","password","pkq","pks","kbdint"}
    SigKinds,     \* subset of {"ok","bad"}: signature binds session+request or not
    NoAuth,       \* users for which begin_auth() says "no authentication needed"
    PkMode,       \* "callback": owner.validate_public_key; "config": per-user AuthorizedKeysFile;
                  \* "begin": begin_auth(u) installs u's keys with conn.set_authorized_keys()
                  \* (the pattern of the documentation) - users in NoKeys have none to install
    NoKeys,       \* users for whom no public key at all is authorised
    ReloadResets, \* TRUE (as coded): reload_config(), run on every change of user name before
                  \* begin_auth, puts the listener's authorised keys (none) back in force;
                  \* FALSE: sensitivity variant
    AllowSync,    \* validators may answer synchronously
    AllowAsync,   \* validators may return an awaitable that completes later
    Probes,       \* TRUE: the client may also send a non-auth request (channel open)
    Fixed         \* TRUE: model of the repaired code

Creds == Users \cup {Bad}
NoObj == [aid |-> 0, user |-> NULL, method |-> "na", req |-> 0]

(* A client message.  kind "req" = USERAUTH_REQUEST, "resp" = INFO_RESPONSE, *)
(* "probe" = CHANNEL_OPEN / GLOBAL_REQUEST.                                 *)
ReqMsgs ==
    [kind : {"req"}, user : Users, method : Methods \ {"pks"}, cred : Creds, sig : {"na"}]
      \cup
    [kind : {"req"}, user : Users, method : Methods \cap {"pks"}, cred : Creds, sig : SigKinds]
RespMsgs == IF "kbdint" \in Methods
            THEN [kind : {"resp"}, user : {NULL}, method : {"kbdint"}, cred : Creds, sig : {"na"}]
            ELSE {}
ProbeMsgs == IF Probes
             THEN [kind : {"probe"}, user : {NULL}, method : {"na"}, cred : {Bad}, sig : {"na"}]
             ELSE {}
\* a "none" request carries no credential: normalise cred to Bad
Normal(m) == (m.kind = "req" /\ m.method \in {"none", "kbdint"} => m.cred = Bad)
Msgs == {m \in ReqMsgs \cup RespMsgs \cup ProbeMsgs : Normal(m)}

VARIABLES
    net,        \* messages sent by the client and not yet received
    nsent,      \* messages sent so far
    chunkLeft,  \* packets handed to the connection and not yet parsed
    parked,     \* the packet parser waits for an asynchronous handler to finish
    reqs,       \* history: messages received, in order (index = request id)
    connUser,   \* conn._username
    cfgUser,    \* user whose configuration (reload_config result) is in effect
    authObj,    \* conn._auth : NoObj or [aid, user, method, req]
    authDone,   \* conn._auth_complete
    authFinal,  \* conn._auth_final
    granted,    \* extra_info username set at success
    closed,     \* connection ended with a protocol error
    task,       \* task id -> task record
    ready,      \* FIFO of runnable task ids
    nextAid,
    checks,     \* history: credential checks that were accepted: set of [user, how]
    out,        \* history: replies sent
    accepted,   \* history: number of non-auth requests the server acted on
    lbl         \* label of the last step (for replay; hidden by VIEW in exhaustive runs)

vars == <<net, nsent, chunkLeft, parked, reqs, connUser, cfgUser, authObj, authDone,
          authFinal, granted, closed, task, ready, nextAid, checks, out,
          accepted, lbl>>

view == <<net, nsent, chunkLeft, parked, reqs, connUser, cfgUser, authObj, authDone,
          authFinal, granted, closed, task, ready, nextAid, checks, out,
          accepted>>

-----------------------------------------------------------------------------
(* Ground truth held by the application / trust configuration *)
PwOK(u, c)  == c = u                 \* password c is u's password
KeyOK(u, c) == c = u /\ u \notin NoKeys   \* key c is authorised for u (callback or u's file)
\* whose keys are in force once begin_auth(u) has been CALLED (mode "begin")
Installed(u, before) == IF u \in NoKeys THEN before ELSE u
NeedsAuth(u) == u \notin NoAuth

TaskIds == DOMAIN task
NewTid == Cardinality(DOMAIN task) + 1

BlankTask == [kind |-> "none", pc |-> "done", req |-> 0, begin |-> FALSE,
              user |-> NULL, aid |-> 0, wait |-> "none", vuser |-> NULL,
              cancelled |-> FALSE]

Init ==
    /\ net = <<>> /\ nsent = 0 /\ chunkLeft = 0 /\ parked = FALSE /\ reqs = <<>>
    /\ connUser = NULL /\ cfgUser = NULL /\ authObj = NoObj
    /\ authDone = FALSE /\ authFinal = FALSE /\ granted = NULL
    /\ closed = FALSE
    /\ task = <<>> /\ ready = <<>> /\ nextAid = 1
    /\ checks = {} /\ out = <<>> /\ accepted = 0
    /\ lbl = <<"init">>

-----------------------------------------------------------------------------
(* Client (adversary): may pipeline *)
ClientSend(m) ==
    /\ nsent < MaxMsg /\ ~closed
    /\ net' = Append(net, m) /\ nsent' = nsent + 1
    /\ lbl' = <<"send", m>>
    /\ UNCHANGED <<chunkLeft, parked, reqs, connUser, cfgUser, authObj, authDone,
                   authFinal, granted, closed, task, ready, nextAid, checks,
                   out, accepted>>

(* The network hands k >= 1 whole packets to data_received in one call *)
StartChunk(k) ==
    /\ ~closed /\ ready = <<>> /\ (chunkLeft = 0 \/ parked)
    /\ k >= 1 /\ chunkLeft + k <= Len(net)
    /\ chunkLeft' = chunkLeft + k
    /\ lbl' = <<"chunk", k>>
    /\ UNCHANGED <<net, nsent, parked, reqs, connUser, cfgUser, authObj, authDone,
                   authFinal, granted, closed, task, ready, nextAid, checks,
                   out, accepted>>

-----------------------------------------------------------------------------
(* Effects shared by several actions, written as functions of the "current" *)
(* values so they can be composed inside one atomic step.                   *)

CancelObj(tk, ao) ==      \* Auth.cancel(): cancel the object's running task
    IF ao.aid = 0 THEN tk
    ELSE [t \in DOMAIN tk |->
            IF tk[t].aid = ao.aid /\ tk[t].kind \in {"meth", "resp"} /\ tk[t].pc # "done"
            THEN [tk[t] EXCEPT !.cancelled = TRUE] ELSE tk[t]]

SetToSeqOne(S) == IF S = {} THEN <<>> ELSE <<CHOOSE x \in S : TRUE>>

\* cancelled tasks that were suspended get woken (to receive CancelledError)
WakeCancelled(oldtk, newtk, rq) ==
    LET woken == {t \in DOMAIN newtk : newtk[t].cancelled /\ ~oldtk[t].cancelled
                                        /\ newtk[t].wait # "none"}
        \* order of wake-ups among several is by task id (only one can exist)
    IN  rq \o SetToSeqOne(woken)

-----------------------------------------------------------------------------
(* _process_userauth_request / other packets, one packet of the chunk *)
RecvOne ==
    /\ chunkLeft > 0 /\ ~closed /\ ~parked
    /\ LET m == Head(net)
           rid == Len(reqs) + 1
       IN
       /\ net' = Tail(net) /\ UNCHANGED nsent
       /\ lbl' = <<"recv">>
       /\ reqs' = Append(reqs, m)
       /\ chunkLeft' = chunkLeft - 1
       \* the repaired code returns the coroutine to the packet parser, which
       \* then waits for it before parsing the next packet
       /\ parked' = (Fixed /\ m.kind = "req" /\ ~authDone)
       /\ CASE m.kind = "probe" ->
                 IF authDone
                 THEN /\ accepted' = accepted + 1 /\ authFinal' = TRUE
                      /\ UNCHANGED <<connUser, cfgUser, authObj, authDone, granted,
                                     closed, task, ready, nextAid, checks, out>>
                 ELSE /\ closed' = TRUE
                      /\ UNCHANGED <<connUser, cfgUser, authObj, authDone, authFinal,
                                     granted, task, ready, nextAid, checks, out,
                                     accepted>>
            [] m.kind = "resp" ->
                 \* type 61: dispatched to conn._auth if there is one
                 IF authObj = NoObj
                 THEN /\ closed' = TRUE       \* "Authentication not in progress"
                      /\ UNCHANGED <<connUser, cfgUser, authObj, authDone, authFinal,
                                     granted, task, ready, nextAid, checks, out,
                                     accepted>>
                 ELSE IF authObj.method # "kbdint"
                 THEN /\ out' = Append(out, <<"unimp">>)
                      /\ UNCHANGED <<connUser, cfgUser, authObj, authDone, authFinal,
                                     granted, closed, task, ready, nextAid, checks,
                                     accepted>>
                 ELSE \* _process_info_response: Auth.create_task cancels the
                      \* object's current task and starts _validate_response
                      LET tk1 == CancelObj(task, authObj)
                          tid == NewTid
                          nt  == [BlankTask EXCEPT !.kind = "resp", !.pc = "start",
                                     !.req = rid, !.user = authObj.user,
                                     !.aid = authObj.aid]
                      IN /\ task' = Append(tk1, nt)
                         /\ ready' = Append(WakeCancelled(task, tk1, ready), tid)
                         /\ UNCHANGED <<connUser, cfgUser, authObj, authDone,
                                        authFinal, granted, closed, nextAid,
                                        checks, out, accepted>>
            [] m.kind = "req" ->
                 IF authDone
                 THEN IF authFinal
                      THEN /\ closed' = TRUE
                           /\ UNCHANGED <<connUser, cfgUser, authObj, authDone,
                                          authFinal, granted, task, ready, nextAid,
                                          checks, out, accepted>>
                      ELSE UNCHANGED <<connUser, cfgUser, authObj, authDone,
                                       authFinal, granted, closed, task, ready,
                                       nextAid, checks, out, accepted>>
                 ELSE
                   LET changed == m.user # connUser
                       tk1 == IF Fixed THEN CancelObj(task, authObj) ELSE task
                       tid == NewTid
                       nt  == [BlankTask EXCEPT !.kind = "fin", !.pc = "start",
                                  !.req = rid, !.begin = changed, !.user = m.user]
                   IN /\ connUser' = m.user
                      /\ authObj' = IF Fixed THEN NoObj ELSE authObj
                      /\ task' = Append(tk1, nt)
                      /\ ready' = Append(WakeCancelled(task, tk1, ready), tid)
                      /\ UNCHANGED <<cfgUser, authDone, authFinal, granted, closed,
                                     nextAid, checks, out, accepted>>

-----------------------------------------------------------------------------
(* send_userauth_success / failure as state updates *)

\* lookup_server_auth + creation of the method task, from inside a fin task
\* Returns the new <<authObj, task, ready, nextAid, out>> given current ones.
Supported(method) == method # "none"     \* "none" is never a supported method

-----------------------------------------------------------------------------
(* One step of the task at the head of the ready queue *)

\* The user a fin task works for: the repaired code uses the name captured
\* when the request arrived, the original code re-reads conn._username.
FinUser(t) == connUser
Stale(t)   == FALSE
\* when the asynchronous packet handler (fin task) of the repaired code ends,
\* its done-callback (marker 0) un-parks the parser
Done(t, rq) == IF Fixed /\ task[t].kind = "fin" THEN Append(rq, 0) ELSE rq

Finish(t, tk) == [tk EXCEPT ![t].pc = "done", ![t].wait = "none"]

\* success: out, authObj, authDone, granted
DoSuccess(t, tk, rq, how, who) ==
    /\ out' = Append(out, <<"success", connUser>>)
    /\ authObj' = NoObj
    /\ authDone' = TRUE
    /\ granted' = connUser
    /\ checks' = checks \cup {[user |-> who, how |-> how]}
    /\ task' = Finish(t, tk)
    /\ ready' = Done(t, rq)
    /\ UNCHANGED <<nextAid>>

DoFailure(t, tk, rq) ==
    /\ out' = Append(out, <<"failure">>)
    /\ authObj' = NoObj
    /\ task' = Finish(t, tk)
    /\ ready' = Done(t, rq)
    /\ UNCHANGED <<authDone, granted, checks, nextAid>>

\* the lookup part of _finish_userauth (no suspension inside)
DoLookup(t, rq) ==
    LET m   == reqs[task[t].req]
        u   == FinUser(t)
        tk1 == CancelObj(task, authObj)
        rq1 == WakeCancelled(task, tk1, rq)
    IN IF ~Supported(m.method)
       THEN DoFailure(t, tk1, rq1)
       ELSE LET mt  == NewTid
                nt  == [BlankTask EXCEPT !.kind = "meth", !.pc = "start",
                           !.req = task[t].req, !.user = u, !.aid = nextAid]
            IN /\ authObj' = [aid |-> nextAid, user |-> u, method |-> m.method,
                              req |-> task[t].req]
               /\ nextAid' = nextAid + 1
               /\ task' = Append(Finish(t, tk1), nt)
               /\ ready' = Done(t, Append(rq1, mt))
               /\ UNCHANGED <<out, authDone, granted, checks>>

\* begin_auth(u) answered (sync or after the awaitable completed)
AfterBegin(t, rq, u) ==
    IF Stale(t)
    THEN /\ task' = Finish(t, task) /\ ready' = rq
         /\ UNCHANGED <<authObj, authDone, granted, checks, out, nextAid>>
    ELSE IF ~NeedsAuth(u)
    THEN DoSuccess(t, task, rq, "noauth", u)
    ELSE DoLookup(t, rq)

\* the credential check of a method task has been answered with result ok
\* for user vu (the name passed to the application callback)
AfterCheck(t, rq, ok, vu, how) ==
    LET m == reqs[task[t].req] IN
    IF ok
    THEN IF m.method = "pkq"
         THEN /\ out' = Append(out, <<"pkok">>)
              /\ task' = Finish(t, task) /\ ready' = rq
              /\ UNCHANGED <<authObj, authDone, granted, checks, nextAid>>
         ELSE IF m.method = "pks" /\ m.sig # "ok"
         THEN DoFailure(t, task, rq)
         ELSE DoSuccess(t, task, rq, how, vu)
    ELSE DoFailure(t, task, rq)

\* what the application / trust configuration answers for a check
Answer(kind, vu, cred) ==
    CASE kind = "pw"  -> PwOK(vu, cred)
      [] kind = "pk"  -> KeyOK(vu, cred)
      [] kind = "kbd" -> PwOK(vu, cred)
      [] OTHER -> FALSE

Suspend(t, rq, w, vu) ==
    /\ task' = [task EXCEPT ![t].wait = w, ![t].vuser = vu]
    /\ ready' = rq
    /\ UNCHANGED <<authObj, authDone, granted, checks, out, nextAid>>

\* does the next step of task t invoke an application callback?
CallsApp(t) ==
    LET T == task[t] IN
    /\ ~T.cancelled /\ T.pc # "done"
    /\ \/ T.kind = "fin" /\ T.pc = "reload" /\ ~Stale(t)
       \/ /\ T.kind = "meth" /\ T.pc = "start"
          /\ \/ reqs[T.req].method \in {"password", "kbdint"}
             \/ reqs[T.req].method \in {"pkq", "pks"} /\ PkMode = "callback"
       \/ T.kind = "resp" /\ T.pc = "start"

RunHead ==
    /\ ready # <<>> /\ Head(ready) # 0 /\ (chunkLeft = 0 \/ parked) /\ ~closed
    /\ LET t  == Head(ready)
           rq == Tail(ready)
           T  == task[t]
       IN
       /\ UNCHANGED <<net, nsent, chunkLeft, parked, reqs, connUser, authFinal, closed,
                      accepted>>
       /\ IF T.cancelled \/ T.pc = "done"
          THEN \* CancelledError is thrown into the coroutine: it ends
               /\ task' = Finish(t, task) /\ ready' = IF T.pc = "done" THEN rq ELSE Done(t, rq)
               /\ UNCHANGED <<cfgUser, authObj, authDone, granted, checks, out, nextAid>>
          ELSE CASE T.kind = "fin" /\ T.pc = "start" ->
                    IF T.begin
                    THEN \* await reload_config(): always an executor hop
                         /\ task' = [task EXCEPT ![t].pc = "reload", ![t].wait = "exec",
                                                 ![t].vuser = connUser]
                         /\ ready' = rq
                         /\ UNCHANGED <<cfgUser, authObj, authDone, granted, checks, out, nextAid>>
                    ELSE /\ UNCHANGED cfgUser
                         /\ IF Stale(t)
                            THEN /\ task' = Finish(t, task) /\ ready' = rq
                                 /\ UNCHANGED <<authObj, authDone, granted, checks, out, nextAid>>
                            ELSE DoLookup(t, rq)
                 [] T.kind = "fin" /\ T.pc = "reload" ->
                    \* reload_config applies the options built for T.vuser
                    \* (the name at the time the job was submitted)
                    /\ cfgUser' = IF PkMode = "begin"
                                  THEN LET reset == IF ReloadResets THEN NULL ELSE cfgUser IN
                                       IF Stale(t) THEN reset ELSE Installed(FinUser(t), reset)
                                  ELSE T.vuser
                    /\ IF Stale(t)
                       THEN /\ task' = Finish(t, task) /\ ready' = rq
                            /\ UNCHANGED <<authObj, authDone, granted, checks, out, nextAid>>
                       ELSE \* owner.begin_auth(user): sync or awaitable
                            \/ /\ AllowSync /\ AfterBegin(t, rq, FinUser(t))
                            \/ /\ AllowAsync
                               /\ task' = [task EXCEPT ![t].pc = "begin", ![t].wait = "val",
                                                       ![t].vuser = FinUser(t)]
                               /\ ready' = rq
                               /\ UNCHANGED <<authObj, authDone, granted, checks, out, nextAid>>
                 [] T.kind = "fin" /\ T.pc = "begin" ->
                    /\ UNCHANGED cfgUser
                    /\ AfterBegin(t, rq, T.vuser)
                 [] T.kind = "meth" /\ T.pc = "start" ->
                    /\ UNCHANGED cfgUser
                    /\ LET m == reqs[T.req] IN
                       CASE m.method = "password" ->
                              \/ /\ AllowSync
                                 /\ AfterCheck(t, rq, Answer("pw", T.user, m.cred), T.user, "pw")
                              \/ /\ AllowAsync
                                 /\ Suspend(t, rq, "val", T.user)
                                 \* pc stays "start": resumed by ValDone with pc "checked"
                         [] m.method \in {"pkq", "pks"} ->
                              IF PkMode \in {"config", "begin"}
                              THEN \* authorized_client_keys of the configuration in effect;
                                   \* no suspension, the user name is not consulted
                                   AfterCheck(t, rq, cfgUser # NULL /\ KeyOK(cfgUser, m.cred),
                                              IF cfgUser = NULL THEN T.user ELSE cfgUser, "pk")
                              ELSE \/ /\ AllowSync
                                      /\ AfterCheck(t, rq, Answer("pk", T.user, m.cred), T.user, "pk")
                                   \/ /\ AllowAsync
                                      /\ Suspend(t, rq, "val", T.user)
                         [] m.method = "kbdint" ->
                              \* get_kbdint_challenge: the application returns a
                              \* challenge (one prompt); INFO_REQUEST is sent
                              \/ /\ AllowSync
                                 /\ out' = Append(out, <<"inforeq">>)
                                 /\ task' = Finish(t, task) /\ ready' = rq
                                 /\ UNCHANGED <<authObj, authDone, granted, checks, nextAid>>
                              \/ /\ AllowAsync
                                 /\ Suspend(t, rq, "val", T.user)
                         [] OTHER -> FALSE
                 [] T.kind = "meth" /\ T.pc = "checked" ->
                    /\ UNCHANGED cfgUser
                    /\ LET m == reqs[T.req] IN
                       IF m.method = "kbdint"
                       THEN /\ out' = Append(out, <<"inforeq">>)
                            /\ task' = Finish(t, task) /\ ready' = rq
                            /\ UNCHANGED <<authObj, authDone, granted, checks, nextAid>>
                       ELSE AfterCheck(t, rq,
                                       Answer(IF m.method = "password" THEN "pw" ELSE "pk",
                                              T.vuser, m.cred), T.vuser,
                                       IF m.method = "password" THEN "pw" ELSE "pk")
                 [] T.kind = "resp" /\ T.pc = "start" ->
                    \* _validate_response -> validate_kbdint_response(user, responses)
                    /\ UNCHANGED cfgUser
                    /\ LET m == reqs[T.req] IN
                       \/ /\ AllowSync
                          /\ AfterCheck(t, rq, Answer("kbd", T.user, m.cred), T.user, "kbd")
                       \/ /\ AllowAsync
                          /\ Suspend(t, rq, "val", T.user)
                 [] T.kind = "resp" /\ T.pc = "checked" ->
                    /\ UNCHANGED cfgUser
                    /\ LET m == reqs[T.req] IN
                       AfterCheck(t, rq, Answer("kbd", T.vuser, m.cred), T.vuser, "kbd")
                 [] OTHER -> FALSE
       /\ lbl' = <<"run", t, IF task'[t].wait = "val" THEN "async"
                             ELSE IF CallsApp(t) THEN "sync" ELSE "none",
                   task'[t].wait>>

-----------------------------------------------------------------------------
(* Environment: an executor job or an application awaitable completes *)
ExecDone(t) ==
    /\ ~closed /\ ready = <<>> /\ (chunkLeft = 0 \/ parked)
    /\ t \in DOMAIN task /\ task[t].wait = "exec" /\ ~task[t].cancelled
    /\ task' = [task EXCEPT ![t].wait = "none"]
    /\ ready' = <<t>>
    /\ lbl' = <<"exec", t>>
    /\ UNCHANGED <<net, nsent, chunkLeft, parked, reqs, connUser, cfgUser, authObj,
                   authDone, authFinal, granted, closed, nextAid, checks, out,
                   accepted>>

ValDone(t) ==
    /\ ~closed /\ ready = <<>> /\ (chunkLeft = 0 \/ parked)
    /\ t \in DOMAIN task /\ task[t].wait = "val" /\ ~task[t].cancelled
    /\ task' = [task EXCEPT ![t].wait = "none",
                            ![t].pc = IF task[t].kind = "fin" THEN "begin" ELSE "checked"]
    /\ ready' = <<t>>
    /\ lbl' = <<"val", t>>
    /\ UNCHANGED <<net, nsent, chunkLeft, parked, reqs, connUser, cfgUser, authObj,
                   authDone, authFinal, granted, closed, nextAid, checks, out,
                   accepted>>

Unpark ==
    /\ ready # <<>> /\ Head(ready) = 0 /\ ~closed
    /\ parked' = FALSE /\ ready' = Tail(ready)
    /\ lbl' = <<"unpark">>
    /\ UNCHANGED <<net, nsent, chunkLeft, reqs, connUser, cfgUser, authObj,
                   authDone, authFinal, granted, closed, task, nextAid, checks,
                   out, accepted>>

Next ==
    \/ Unpark
    \/ \E m \in Msgs : ClientSend(m)
    \/ \E k \in 1..MaxMsg : StartChunk(k)
    \/ RecvOne
    \/ RunHead
    \/ \E t \in DOMAIN task : ExecDone(t) \/ ValDone(t)

Spec == Init /\ [][Next]_vars

-----------------------------------------------------------------------------
(* Properties (C05) *)

\* A request in the received history that is a valid credential for user u
ValidFor(u, m) ==
    /\ m.kind = "req" /\ m.user = u
    /\ \/ m.method = "password" /\ PwOK(u, m.cred)
       \/ m.method = "pks" /\ KeyOK(u, m.cred) /\ m.sig = "ok"
KbdValidFor(u, i) ==
    /\ reqs[i].kind = "resp" /\ PwOK(u, reqs[i].cred)
    /\ \E j \in 1..(i-1) : reqs[j].kind = "req" /\ reqs[j].user = u /\ reqs[j].method = "kbdint"

\* Observable form (what the L1 monitor evaluates on real executions):
\* access granted to U only if a valid credential for U was presented
AuthSoundObs ==
    authDone =>
        \/ granted \in NoAuth
        \/ \E i \in DOMAIN reqs : ValidFor(granted, reqs[i]) \/ KbdValidFor(granted, i)

\* Internal form: a credential check for the granted user was accepted
AuthSound == authDone => \E c \in checks : c.user = granted

\* every accepted check was truthful for the user it names
ChecksTruthful == \A c \in checks : c.how = "noauth" => c.user \in NoAuth

GateUntilAuth == accepted > 0 => authDone
GateAction == [][accepted' > accepted => authDone]_vars
GrantStable == [][authDone => (authDone' /\ granted' = granted)]_vars

\* success replies always name the granted user
SuccessNamesGranted == \A i \in DOMAIN out : out[i][1] = "success" => out[i][2] = granted

TypeOK ==
    /\ chunkLeft \in 0..MaxMsg /\ nsent \in 0..MaxMsg /\ parked \in BOOLEAN
    /\ connUser \in Users \cup {NULL} /\ cfgUser \in Users \cup {NULL}
    /\ granted \in Users \cup {NULL}
    /\ authDone \in BOOLEAN /\ authFinal \in BOOLEAN /\ closed \in BOOLEAN

\* witnesses for vacuity control (expected to be violated = reachable)
NeverGranted == ~authDone
NeverPkok == \A i \in DOMAIN out : out[i][1] # "pkok"
NeverCancelled == \A t \in DOMAIN task : ~task[t].cancelled
=============================================================================
