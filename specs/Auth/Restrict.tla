------------------------------ MODULE Restrict ------------------------------
(***************************************************************************)
(* C05, clause "the restrictions attached to the accepted credential are   *)
(* the ones enforced afterwards", for an asyncssh SERVER.                   *)
(*                                                                         *)
(* A state is ONE table row: an abstract credential presented by a client   *)
(* (password | plain public key | OpenSSH user certificate), the server's   *)
(* authorized_keys entries / application callbacks, the client's address    *)
(* and user name.  The decision functions:                                  *)
(*   Session(c)           the connection after the authentication exchange: *)
(*                        admitted or not (and why not), the authorized_keys*)
(*                        options in force (_key_options) and the           *)
(*                        certificate options in force (_cert_options)      *)
(*   Allowed(s, op)       may the post-authentication operation op proceed  *)
(*   OpenAllowed(s, d)    direct-tcpip to destination d (permitopen)         *)
(*   Started(s, req)      what the session is started with for request req  *)
(*   EnvSeen(s)           environment variable N as the session sees it     *)
(* transcribed from                                                         *)
(*   connection.py  _validate_openssh_certificate, _validate_client_public_ *)
(*                  key, check_key_permission, check_certificate_permission,*)
(*                  get_key_option, get_certificate_option,                 *)
(*                  _process_direct_tcpip_open, _process_tcpip_forward_     *)
(*                  global_request, the two streamlocal variants,           *)
(*                  attach_x11_listener, create_agent_listener              *)
(*   channel.py     _process_pty_req_request, _start_session                *)
(*   auth_keys.py   SSHAuthorizedKeys.validate, match_options, option parser*)
(*   public_key.py  SSHOpenSSHCertificate.validate, option/extension tables *)
(*   pattern.py     _PatternList.matches                                    *)
(* with the authorized_keys flag words given the meaning of sshd(8)         *)
(* (RestrictRule = TRUE): "restrict" switches every permission off, a later *)
(* "pty" / "port-forwarding" / ... switches a single one back on, a later   *)
(* "no-..." off again.  RestrictRule = FALSE is the reading "only no-* words *)
(* count", which is what asyncssh/auth_keys.py implements today.            *)
(*                                                                         *)
(* Rules (sshd(8), ssh-keygen(1) CERTIFICATES, PROTOCOL.certkeys):          *)
(*  - a permission is granted only if BOTH the authorized_keys entry and    *)
(*    the certificate grant it;                                             *)
(*  - a certificate grants exactly the permit-* extensions it carries: one  *)
(*    with no extensions grants nothing; no certificate = no certificate    *)
(*    restriction;                                                          *)
(*  - password / callback-accepted credentials carry no restrictions;       *)
(*  - force-command of the certificate, else command= of the entry,         *)
(*    replaces whatever the client asked to run (exec, shell, subsystem);   *)
(*  - from= (every option, positive and not negative pattern), cert         *)
(*    source-address, principals, validity window and certificate type      *)
(*    decide whether the credential is accepted at all;                    *)
(*  - a FIDO security key (sk-ssh-ed25519 / sk-ecdsa) signature must carry  *)
(*    the user-presence bit unless EVERY applicable source says             *)
(*    no-touch-required: the authorized_keys line and, for a certificate,   *)
(*    ALSO the certificate's extension; verify-required on the line         *)
(*    demands the user-verification bit; the signature covers the           *)
(*    application id that is part of the public key.                        *)
(***************************************************************************)
EXTENDS Naturals, Sequences, FiniteSets, TLC

CONSTANTS Tier,              \* "quick" | "thorough" : size of the table
          Sections,          \* which slices of the table are enumerated
          RestrictRule,      \* TRUE = sshd(8) meaning of restrict / permit words (the oracle)
          EmptyCertIsNoCert, \* sensitivity: WRONG rule "an empty option dict is like no certificate"
          KeyCommandFirst,   \* sensitivity: WRONG precedence command= over force-command
          EitherGrants,      \* sensitivity: WRONG rule "granted if key OR certificate grants"
          VerifyRule,        \* TRUE = sshd(8) meaning of verify-required (the oracle); FALSE = the
                             \* word is ignored (asyncssh as coded today)
          EitherWaivesTouch, \* sensitivity: WRONG rule "touch is waived if the cert-authority line
                             \* OR the certificate says no-touch-required"
          CallbackWaivesTouch \* sensitivity: WRONG rule "a key accepted by the application callback
                             \* need not prove user presence"

Perms == {"pty", "agent-forwarding", "X11-forwarding", "port-forwarding", "user-rc"}
Order == <<"pty", "agent-forwarding", "X11-forwarding", "port-forwarding", "user-rc">>
No(p) == "no-" \o p

\* operation -> permission consulted
Ops == {"pty", "agent", "x11", "direct-tcpip", "tcpip-forward", "direct-streamlocal",
        "streamlocal-forward"}
OpPerm(op) == CASE op = "pty" -> "pty"
                [] op = "agent" -> "agent-forwarding"
                [] op = "x11" -> "X11-forwarding"
                [] OTHER -> "port-forwarding"
\* user-rc is parsed on both sides but no operation of asyncssh consults it

\* session requests: <<kind, argument>>
Reqs == {<<"exec", "rc">>, <<"shell", "-">>, <<"subsystem", "sub">>}

Dest(h, p) == [h |-> h, p |-> p]
Dests == {Dest("h1", "80"), Dest("h1", "81"), Dest("h2", "22"), Dest("h2", "80"), Dest("h3", "80")}

----------------------------------------------------------------------------
\* pattern matching over a small universe (pattern.py)
Addrs == {"10.0.0.5", "10.0.1.5"}
HostMatch(pat, a) ==
    CASE pat = "*" -> TRUE
      [] pat = "10.0.*" -> a \in {"10.0.0.5", "10.0.1.5"}
      [] pat = "10.0.0.0/24" -> a = "10.0.0.5"
      [] pat = "10.0.0.0/16" -> a \in {"10.0.0.5", "10.0.1.5"}
      [] pat = "192.168.0.0/16" -> FALSE
      [] OTHER -> pat = a
NameMatch(pat, n) ==
    CASE pat = "*" -> TRUE
      [] pat = "al*" -> n = "alice"
      [] OTHER -> pat = n
Item(neg, pat) == [neg |-> neg, pat |-> pat]
\* _PatternList.matches: some positive pattern matches and no negative one does
HostListMatch(pl, a) ==
    /\ \E i \in DOMAIN pl : ~pl[i].neg /\ HostMatch(pl[i].pat, a)
    /\ ~ \E i \in DOMAIN pl : pl[i].neg /\ HostMatch(pl[i].pat, a)
NameListMatch(pl, n) ==
    /\ \E i \in DOMAIN pl : ~pl[i].neg /\ NameMatch(pl[i].pat, n)
    /\ ~ \E i \in DOMAIN pl : pl[i].neg /\ NameMatch(pl[i].pat, n)

----------------------------------------------------------------------------
\* the data
Entry(ca, key, flags) ==
    [ca |-> ca,          \* cert-authority
     key |-> key,        \* which key the line carries: "user" | "ca" | "otherca" | "other"
     flags |-> flags,    \* flag words in line order
     cmd |-> "-",        \* command=      ("-" absent; "empty" is command="")
     open |-> {},        \* permitopen=   set of Dest, port "*" = any port
     frm |-> <<>>,       \* from=         one pattern list per option
     princ |-> <<>>,     \* principals=   one pattern list per option
     env |-> "-"]        \* environment="N=<env>"
EmptyEntry == Entry(FALSE, "-", <<>>)      \* options = {}

Cert(ext) ==
    [present |-> TRUE, ext |-> ext, force |-> "-", src |-> {}, principals |-> {"alice"},
     valid |-> "ok", ctype |-> "user", ca |-> "ca",
     notouch |-> FALSE]  \* extension no-touch-required
NoCert == [Cert({}) EXCEPT !.present = FALSE, !.principals = {}]

Cred(sec, method, entries, cert) ==
    [sec |-> sec, method |-> method, entries |-> entries, cert |-> cert,
     cbkey |-> FALSE,    \* SSHServer.validate_public_key accepts the user key
     cbca |-> FALSE,     \* SSHServer.validate_ca_key accepts the CA "ca"
     user |-> "alice", addr |-> "10.0.0.5",
     cenv |-> "-",       \* value the client sends for environment variable N
     \* the user key: "ed25519" or a FIDO security key "sk-ed25519" / "sk-ecdsa"; and what the
     \* token put into the signature: user-presence bit, user-verification bit, and whether it
     \* signed for the application id the public key names ("same") or another one
     ktype |-> "ed25519",
     kapp |-> "ssh:",    \* application id the security key was enrolled for (part of the key)
     sig |-> [up |-> TRUE, uv |-> FALSE, app |-> "same"]]

----------------------------------------------------------------------------
\* authentication (connection.py validate_public_key and below, auth_keys.py validate)
EntryMatches(e, isCA, keyname, addr, hasCert, certPrincipals) ==
    /\ e.ca = isCA                       \* _ca_entries vs _user_entries
    /\ e.key = keyname
    /\ \A i \in DOMAIN e.frm : HostListMatch(e.frm[i], addr)
    /\ (hasCert /\ e.princ # <<>>) =>
           \A i \in DOMAIN e.princ : \E p \in certPrincipals : NameListMatch(e.princ[i], p)

Min(S) == CHOOSE x \in S : \A y \in S : x <= y
\* index of the first matching entry, 0 = none
Lookup(c) ==
    IF c.method = "password" THEN 0
    ELSE LET idx == {i \in DOMAIN c.entries :
                        IF c.cert.present
                        THEN EntryMatches(c.entries[i], TRUE, c.cert.ca, c.addr, TRUE,
                                          c.cert.principals)
                        ELSE EntryMatches(c.entries[i], FALSE, "user", c.addr, FALSE, {})}
         IN IF idx = {} THEN 0 ELSE Min(idx)

\* The connection after the authentication exchange:
\*   why      "ok" = admitted, else the condition that failed (in code order)
\*   applied  index of the authorized_keys entry in force (0: none, options = {})
\*   o        _key_options,  cert  _cert_options (present = FALSE: None)
\* the certificate's own conditions, judged with the authorized_keys options o in force
\* (cert.validate(CERT_TYPE_USER, None if principals= else username), source-address)
CertWhy(c, o) ==
    IF c.cert.ctype # "user" THEN "cert-type"
    ELSE IF c.cert.valid \notin {"ok", "window"} THEN "validity"
    ELSE IF o.princ = <<>> /\ c.cert.principals # {} /\ c.user \notin c.cert.principals
         THEN "principal"
    ELSE IF c.cert.src # {} /\ ~ \E n \in c.cert.src : HostMatch(n, c.addr)
         THEN "source-address"
    ELSE "ok"
Callback(c) == IF c.cert.present THEN c.cbca /\ c.cert.ca = "ca" ELSE c.cbkey

\* security keys (sk_eddsa.py / sk_ecdsa.py verify_ssh, set_touch_required in connection.py;
\* sshd(8) no-touch-required / verify-required, PROTOCOL.u2f): the signature covers the
\* application id of the public key; it must carry the user-presence bit unless EVERY
\* applicable source waives touch - the authorized_keys line, and for a certificate ALSO the
\* certificate's extension (a key accepted by the application callback has no line: never
\* waived); verify-required on the line demands the user-verification bit.
IsSk(c) == c.ktype \in {"sk-ed25519", "sk-ecdsa"}
HasFlag(o, t) == \E i \in DOMAIN o.flags : o.flags[i] = t
TouchWaived(c, i, o) ==
    LET line == HasFlag(o, "no-touch-required") \/ (CallbackWaivesTouch /\ i = 0)
    IN IF ~c.cert.present THEN line
       ELSE IF EitherWaivesTouch THEN line \/ c.cert.notouch
       ELSE line /\ c.cert.notouch
SigWhy(c, i, o, vr) ==
    IF ~IsSk(c) THEN "ok"
    ELSE IF ~TouchWaived(c, i, o) /\ ~c.sig.up THEN "touch"
    ELSE IF vr /\ HasFlag(o, "verify-required") /\ ~c.sig.uv THEN "verify"
    ELSE IF c.sig.app # "same" THEN "signature"
    ELSE "ok"

SessionR(c, vr) ==
    LET i == Lookup(c)
        o == IF i # 0 THEN c.entries[i] ELSE EmptyEntry
        why == IF c.method = "password" THEN "ok"
               ELSE IF i = 0 /\ ~Callback(c) THEN "lookup"
               ELSE IF c.cert.present /\ CertWhy(c, o) # "ok" THEN CertWhy(c, o)
               ELSE SigWhy(c, i, o, vr)
    IN [acc |-> why = "ok", why |-> why, applied |-> i, o |-> o, cert |-> c.cert,
        cenv |-> c.cenv]
Session(c) == SessionR(c, VerifyRule)
Accepted(c) == Session(c).acc

----------------------------------------------------------------------------
\* after authentication: decisions on the session s
RECURSIVE Fold(_, _, _, _)
Fold(flags, p, acc, rr) ==
    IF flags = <<>> THEN acc
    ELSE LET t == Head(flags)
         IN Fold(Tail(flags), p,
                 IF t = No(p) THEN FALSE
                 ELSE IF rr /\ t = "restrict" THEN FALSE
                 ELSE IF rr /\ t = p THEN TRUE
                 ELSE acc, rr)
\* check_key_permission
KeyPermits(s, p, rr) == Fold(s.o.flags, p, TRUE, rr)

\* the option dict of the certificate as decoded (critical options + extensions)
CertDictEmpty(s) == s.cert.ext = {} /\ s.cert.force = "-" /\ s.cert.src = {}
\* check_certificate_permission: _cert_options is None <=> no certificate
CertPermits(s, p) ==
    IF s.cert.present /\ ~(EmptyCertIsNoCert /\ CertDictEmpty(s))
    THEN p \in s.cert.ext
    ELSE TRUE

AllowedR(s, op, rr) ==
    /\ s.acc
    /\ IF EitherGrants /\ s.cert.present
       THEN KeyPermits(s, OpPerm(op), rr) \/ CertPermits(s, OpPerm(op))
       ELSE KeyPermits(s, OpPerm(op), rr) /\ CertPermits(s, OpPerm(op))
Allowed(s, op) == AllowedR(s, op, RestrictRule)

\* _process_direct_tcpip_open: permitopen after the permission test
OpenOK(s, d) == s.o.open = {} \/ d \in s.o.open \/ Dest(d.h, "*") \in s.o.open
OpenAllowedR(s, d, rr) == AllowedR(s, "direct-tcpip", rr) /\ OpenOK(s, d)
OpenAllowed(s, d) == OpenAllowedR(s, d, RestrictRule)

\* _start_session: get_certificate_option('force-command'), else get_key_option('command')
CertForce(s) == IF s.cert.present THEN s.cert.force ELSE "-"
Forced(s) ==
    IF KeyCommandFirst
    THEN IF s.o.cmd # "-" THEN s.o.cmd ELSE CertForce(s)
    ELSE IF CertForce(s) # "-" THEN CertForce(s) ELSE s.o.cmd
Started(s, req) == IF Forced(s) # "-" THEN <<"exec", Forced(s)>> ELSE req
\* SSHServerChannel.__init__ + _process_env_request: the client's value replaces the entry's
EnvSeen(s) == IF s.cenv # "-" THEN s.cenv ELSE s.o.env

----------------------------------------------------------------------------
\* the table
RECURSIVE NoSeqR(_, _)
NoSeqR(S, i) == IF i > Len(Order) THEN <<>>
                ELSE (IF Order[i] \in S THEN <<No(Order[i])>> ELSE <<>>) \o NoSeqR(S, i + 1)
NoSeq(S) == NoSeqR(S, 1)
SeqsUpTo(S, n) == UNION {[1..k -> S] : k \in 0..n}
Thorough == Tier = "thorough"

KeyRow(sec, flags) == Cred(sec, "publickey", <<Entry(FALSE, "user", flags)>>, NoCert)
CertRow(sec, flags, cert) == Cred(sec, "publickey", <<Entry(TRUE, "ca", flags)>>, cert)
CbCertRow(sec, cert) == [Cred(sec, "publickey", <<>>, cert) EXCEPT !.cbca = TRUE]
CbKeyRow(sec) == [Cred(sec, "publickey", <<>>, NoCert) EXCEPT !.cbkey = TRUE]
PwRow(sec) == Cred(sec, "password", <<>>, NoCert)

\* A. every no-* subset x every certificate extension subset (incl. none / no certificate)
PermSetA == IF Thorough THEN Perms ELSE Perms \ {"user-rc"}
PermRows ==
    {KeyRow("perm", NoSeq(S)) : S \in SUBSET PermSetA}
    \cup {CertRow("perm", NoSeq(S), Cert(X)) : S \in SUBSET PermSetA, X \in SUBSET PermSetA}
    \cup {CbCertRow("perm", Cert(X)) : X \in SUBSET PermSetA}
    \cup {CbKeyRow("perm"), PwRow("perm")}
    \cup {CertRow("perm", f, Cert(X)) :
             f \in {<<>>, <<"no-user-rc">>},
             X \in {{"user-rc"}, Perms \ {"user-rc"}, Perms, {"user-rc", "pty"}}}
    \cup {KeyRow("perm", <<"no-user-rc">>)}

\* B. flag words in order: restrict, permit words, no-* words
SeqTokens == {"restrict", "pty", "no-pty", "port-forwarding", "no-port-forwarding"}
FlagSeqs == SeqsUpTo(SeqTokens, IF Thorough THEN 3 ELSE 2)
            \cup {<<"restrict", p>> : p \in Perms}
            \cup {<<"restrict", "agent-forwarding", "X11-forwarding">>,
                  <<"no-agent-forwarding", "agent-forwarding">>,
                  <<"X11-forwarding", "no-X11-forwarding">>,
                  <<"restrict", "pty", "agent-forwarding", "X11-forwarding", "port-forwarding",
                    "user-rc">>}
SeqRows ==
    {KeyRow("seq", f) : f \in FlagSeqs}
    \cup {CertRow("seq", f, Cert(X)) : f \in FlagSeqs, X \in {{}, Perms}}

\* C. forced commands
KeyCmds == {"-", "kc", "empty", "kq"}
CertCmds == {"-", "cc"}
WithCmd(c, k) == [c EXCEPT !.entries[1].cmd = k]
WithForce(c, f) == [c EXCEPT !.cert.force = f]
CmdRows ==
    {WithCmd(KeyRow("cmd", <<>>), k) : k \in KeyCmds}
    \cup {WithForce(WithCmd(CertRow("cmd", <<>>, Cert(X)), k), f) :
             k \in KeyCmds, f \in CertCmds, X \in {{}, Perms}}
    \cup {WithForce(CbCertRow("cmd", Cert(Perms)), f) : f \in CertCmds}
    \cup {CbKeyRow("cmd"), PwRow("cmd")}
    \cup {WithCmd(KeyRow("cmd", <<"no-pty">>), "kc"),
          WithForce(CertRow("cmd", <<"no-pty">>, Cert({"pty"})), "cc")}
    \* environment= of the entry vs the client's own env request
    \cup {[[KeyRow("cmd", <<>>) EXCEPT !.entries[1].env = e] EXCEPT !.cenv = v] :
             e \in {"-", "kv"}, v \in {"-", "cv"}}

\* D. permitopen
OpenPool == {Dest("h1", "80"), Dest("h1", "*"), Dest("h2", "22")}
WithOpen(c, o) == [c EXCEPT !.entries[1].open = o]
OpenRows ==
    {WithOpen(KeyRow("open", f), o) : o \in SUBSET OpenPool,
                                      f \in {<<>>, <<"no-port-forwarding">>, <<"no-pty">>}}
    \cup {WithOpen(CertRow("open", <<>>, Cert(X)), o) :
             o \in SUBSET OpenPool, X \in {{}, {"port-forwarding"}, Perms \ {"port-forwarding"}}}
    \cup {WithOpen(KeyRow("open", f), {Dest("h1", "80")}) :
             f \in {<<"restrict">>, <<"restrict", "port-forwarding">>}}

\* E. acceptance conditions.  Entries carry a tell-tale no-* word so that the replay
\*    sees WHICH entry's options are in force.
L(p) == <<Item(FALSE, p)>>
HostLists == {L("10.0.0.5"), L("10.0.0.0/24"), <<Item(FALSE, "10.0.*"), Item(TRUE, "10.0.1.5")>>,
              L("10.0.1.5"), <<Item(TRUE, "10.0.0.5"), Item(FALSE, "*")>>,
              <<Item(FALSE, "192.168.0.0/16"), Item(FALSE, "10.0.0.0/16")>>}
FromSeqs == SeqsUpTo(HostLists, IF Thorough THEN 2 ELSE 1)
           \cup {<<L("10.0.0.0/24"), L("10.0.1.5")>>, <<L("10.0.*"), L("10.0.0.5")>>}
WithFrom(c, f) == [c EXCEPT !.entries[1].frm = f]
At(c, a) == [c EXCEPT !.addr = a]
FromRows ==
    {At(WithFrom(KeyRow("match", <<"no-pty">>), f), a) : f \in FromSeqs, a \in Addrs}
    \cup {At(WithFrom(CertRow("match", <<"no-pty">>, Cert(Perms)), f), a) :
             f \in FromSeqs, a \in Addrs}
    \* entry does not match -> the application callback decides, and then no options apply
    \cup {[At(WithFrom(KeyRow("match", <<"no-pty">>), <<L("10.0.0.5")>>), a) EXCEPT !.cbkey = TRUE] :
             a \in Addrs}
    \cup {[At(WithFrom(CertRow("match", <<"no-pty">>, Cert(Perms)), <<L("10.0.0.5")>>), a)
             EXCEPT !.cbca = TRUE] : a \in Addrs}

\* first matching entry wins; entries for other keys are skipped
E2(e1, e2) == <<e1, e2>>
FirstRows ==
    {At(Cred("match", "publickey",
             E2([Entry(FALSE, k1, <<"no-pty">>) EXCEPT !.frm = f1],
                Entry(FALSE, k2, <<"no-agent-forwarding">>)), NoCert), a) :
         k1 \in {"user", "other"}, k2 \in {"user", "other"},
         f1 \in {<<>>, <<L("10.0.0.5")>>}, a \in Addrs}
    \cup {At(Cred("match", "publickey",
             E2([Entry(TRUE, k1, <<"no-pty">>) EXCEPT !.frm = f1],
                Entry(TRUE, k2, <<"no-agent-forwarding">>)), Cert(Perms)), a) :
         k1 \in {"ca", "otherca"}, k2 \in {"ca", "otherca"},
         f1 \in {<<>>, <<L("10.0.0.5")>>}, a \in Addrs}

\* certificate source-address
Nets == {"10.0.0.0/24", "192.168.0.0/16"}
SrcRows ==
    {At([CertRow("match", <<>>, Cert(Perms)) EXCEPT !.cert.src = s], a) :
         s \in SUBSET Nets, a \in Addrs}
    \cup {At([CbCertRow("match", Cert(Perms)) EXCEPT !.cert.src = s], a) :
         s \in SUBSET Nets, a \in Addrs}
    \cup {At([CertRow("match", <<>>, Cert({})) EXCEPT !.cert.src = {"10.0.0.0/24"}], a) :
         a \in Addrs}

\* principals
NameLists == {<<Item(FALSE, "alice")>>, <<Item(FALSE, "bob")>>, <<Item(FALSE, "al*")>>,
              <<Item(TRUE, "alice"), Item(FALSE, "*")>>,
              <<Item(FALSE, "alice"), Item(FALSE, "bob")>>}
PrincSeqs == SeqsUpTo(NameLists, 1) \cup {<<L("alice"), L("bob")>>, <<L("al*"), L("alice")>>}
Users == {"alice", "bob"}
PrincRows ==
    {[CertRow("match", <<"no-pty">>, [Cert(Perms) EXCEPT !.principals = ps])
         EXCEPT !.entries[1].princ = pl, !.user = u] :
         ps \in SUBSET Users, pl \in PrincSeqs, u \in Users}
    \cup {[CbCertRow("match", [Cert(Perms) EXCEPT !.principals = ps]) EXCEPT !.user = u] :
         ps \in SUBSET Users, u \in Users}
    \* principals= on a plain key line has nothing to match against
    \cup {[KeyRow("match", <<"no-pty">>) EXCEPT !.entries[1].princ = <<L("bob")>>]}

\* validity window, certificate type, CA trust, entry class
TrustRows ==
    {[CertRow("match", <<>>, Cert(Perms)) EXCEPT !.cert.valid = v] :
         v \in {"ok", "window", "expired", "notyet"}}
    \cup {[CbCertRow("match", Cert(Perms)) EXCEPT !.cert.valid = v] :
         v \in {"window", "expired", "notyet"}}
    \cup {[CertRow("match", <<>>, Cert(Perms)) EXCEPT !.cert.ctype = "host"],
          [CbCertRow("match", Cert(Perms)) EXCEPT !.cert.ctype = "host"]}
    \* certificate signed by another CA; CA key listed WITHOUT cert-authority;
    \* user key listed WITH cert-authority; user's plain key listed while a certificate
    \* of an untrusted CA is presented
    \cup {[Cred("match", "publickey", <<Entry(isca, k, <<"no-pty">>)>>,
                [Cert(Perms) EXCEPT !.ca = signer]) EXCEPT !.cbca = cb, !.cbkey = cb] :
             isca \in BOOLEAN, k \in {"ca", "otherca", "user"}, signer \in {"ca", "otherca"},
             cb \in BOOLEAN}
    \cup {[Cred("match", "publickey", <<Entry(isca, k, <<"no-pty">>)>>, NoCert)
             EXCEPT !.cbkey = cb] :
             isca \in BOOLEAN, k \in {"ca", "user", "other"}, cb \in BOOLEAN}

\* F. everything at once: no option disturbs another one
MixRows ==
    {At([WithOpen(WithCmd(CertRow("mix", f, [Cert(X) EXCEPT !.force = fc,
                                                           !.src = {"10.0.0.0/24"}]), k),
                  {Dest("h1", "80"), Dest("h2", "22")})
            EXCEPT !.entries[1].frm = <<L("10.0.*")>>, !.entries[1].env = "kv"], a) :
         f \in {<<>>, <<"no-agent-forwarding">>}, X \in {{"port-forwarding"}, Perms \ {"pty"}},
         fc \in CertCmds, k \in {"-", "kc"}, a \in Addrs}
    \cup {At([WithOpen(WithCmd(KeyRow("mix", f), k), {Dest("h1", "*")})
            EXCEPT !.entries[1].frm = <<L("10.0.0.0/24")>>, !.cbkey = TRUE], a) :
         f \in {<<"no-pty">>, <<"no-X11-forwarding", "no-agent-forwarding">>},
         k \in {"-", "kc"}, a \in Addrs}

\* G. security keys: key kind x (plain line | cert-authority line + certificate | callbacks)
\*    x touch / verify words on the line x no-touch-required extension x signature flags x
\*    application id
SkTypes == {"sk-ed25519", "sk-ecdsa"}
SkWords == {<<>>, <<"no-touch-required">>, <<"verify-required">>,
            <<"no-touch-required", "verify-required">>}
Sigs == [up : BOOLEAN, uv : BOOLEAN, app : {"same", "other"}]
SigsQ == IF Thorough THEN Sigs ELSE {g \in Sigs : g.app = "same" \/ (g.up /\ ~g.uv)}
WithSk(cc, t, g) == [cc EXCEPT !.ktype = t, !.sig = g]
NoTouch(cert, b) == [cert EXCEPT !.notouch = b]
SkRows ==
    {WithSk(KeyRow("sk", w), t, g) : w \in SkWords, t \in SkTypes, g \in SigsQ}
    \cup {WithSk(CertRow("sk", w, NoTouch(Cert(Perms), b)), t, g) :
             w \in SkWords, b \in BOOLEAN, t \in SkTypes, g \in SigsQ}
    \cup {WithSk(CbCertRow("sk", NoTouch(Cert(Perms), b)), t, g) :
             b \in BOOLEAN, t \in SkTypes, g \in SigsQ}
    \cup {WithSk(CbKeyRow("sk"), t, g) : t \in SkTypes, g \in SigsQ}
    \* the line names the same public value under another application id: another key
    \cup {WithSk(Cred("sk", "publickey", <<Entry(FALSE, "user-otherapp", w)>>, NoCert), t, g) :
             w \in {<<>>, <<"no-touch-required">>}, t \in SkTypes,
             g \in {g \in Sigs : g.up /\ ~g.uv}}
    \* a key enrolled for another application id: the signature must cover THAT id
    \cup {[WithSk(KeyRow("sk", <<>>), t, g) EXCEPT !.kapp = "ssh:other"] :
             t \in SkTypes, g \in {g \in Sigs : g.up /\ ~g.uv}}
    \* the words mean nothing for an ordinary key (its signature has no flags)
    \cup {KeyRow("sk", w) : w \in SkWords}
    \cup {CertRow("sk", w, NoTouch(Cert(Perms), b)) : w \in SkWords, b \in BOOLEAN}
    \* ... and leave the other options of the line in force
    \cup {WithSk(KeyRow("sk", <<"no-pty">> \o w), t, [up |-> TRUE, uv |-> TRUE, app |-> "same"]) :
             w \in SkWords, t \in SkTypes}

Rows == (IF "perm" \in Sections THEN PermRows ELSE {})
        \cup (IF "sk" \in Sections THEN SkRows ELSE {})
        \cup (IF "mix" \in Sections THEN MixRows ELSE {})
        \cup (IF "seq" \in Sections THEN SeqRows ELSE {})
        \cup (IF "cmd" \in Sections THEN CmdRows ELSE {})
        \cup (IF "open" \in Sections THEN OpenRows ELSE {})
        \cup (IF "match" \in Sections
              THEN FromRows \cup FirstRows \cup SrcRows \cup PrincRows \cup TrustRows ELSE {})

VARIABLE c
Init == c \in Rows
Next == UNCHANGED c
Spec == Init /\ [][Next]_c

----------------------------------------------------------------------------
\* properties (each over the whole table); S is the session the row leads to
S == Session(c)

\* a permission needs the entry's word: the last word about p decides, restrict counts for all
LastWord(flags, p) ==
    LET idx == {i \in DOMAIN flags : flags[i] \in {p, No(p), "restrict"}}
    IN IF idx = {} THEN "none" ELSE flags[CHOOSE i \in idx : \A j \in idx : j <= i]
KeyIsCeiling ==
    LET s == S IN
    \A op \in Ops : Allowed(s, op) => LastWord(s.o.flags, OpPerm(op)) \in {"none", OpPerm(op)}
\* ... and the certificate's extension
CertIsCeiling ==
    LET s == S IN
    \A op \in Ops : (Allowed(s, op) /\ c.cert.present) => OpPerm(op) \in c.cert.ext
EmptyCertGrantsNothing ==
    LET s == S IN
    (c.cert.present /\ c.cert.ext = {}) => \A op \in Ops : ~Allowed(s, op)
\* no certificate: the certificate side imposes nothing
NoCertNoCertRestriction ==
    LET s == S IN
    (s.acc /\ ~c.cert.present) =>
        \A op \in Ops : Allowed(s, op) <=> KeyPermits(s, OpPerm(op), RestrictRule)
\* password, or key accepted by the application callback: nothing is restricted
Unrestricted ==
    LET s == S IN
    (s.acc /\ s.applied = 0 /\ ~c.cert.present) =>
        /\ \A op \in Ops : Allowed(s, op)
        /\ \A d \in Dests : OpenAllowed(s, d)
        /\ \A r \in Reqs : Started(s, r) = r
RejectedGetsNothing ==
    LET s == S IN
    ~s.acc => /\ \A op \in Ops : ~Allowed(s, op)
              /\ \A d \in Dests : ~OpenAllowed(s, d)

\* adding a restriction never grants more
Restrictions(s) ==
    {[s EXCEPT !.o.flags = IF fr THEN <<t>> \o @ ELSE Append(@, t)] :
        t \in {"restrict"} \cup {No(p) : p \in Perms}, fr \in BOOLEAN}
    \cup (IF s.cert.present THEN {[s EXCEPT !.cert.ext = @ \ {p}] : p \in Perms}
          ELSE {[s EXCEPT !.cert = Cert(X)] : X \in {{}, {"pty"}, Perms}})
    \cup {[s EXCEPT !.o.open = @ \cup {Dest("h9", "9")}]}
Monotone ==
    LET s == S IN
    \A r \in Restrictions(s) :
        /\ \A op \in Ops : Allowed(r, op) => Allowed(s, op)
        /\ \A d \in Dests : OpenAllowed(r, d) => OpenAllowed(s, d)

\* restrict, then permit words: exactly the named permissions survive
RestrictThenPermit ==
    LET s == S
        f == s.o.flags
    IN (s.acc /\ f # <<>> /\ f[1] = "restrict" /\ \A i \in 2..Len(f) : f[i] \in Perms) =>
           \A p \in Perms : KeyPermits(s, p, RestrictRule) <=> \E i \in 2..Len(f) : f[i] = p

\* a forced command replaces every request; the certificate's wins over the entry's
ForcedCommandWins ==
    LET s == S IN
    s.acc =>
        /\ CertForce(s) # "-" => \A r \in Reqs : Started(s, r) = <<"exec", CertForce(s)>>
        /\ (CertForce(s) = "-" /\ s.o.cmd # "-") =>
               \A r \in Reqs : Started(s, r) = <<"exec", s.o.cmd>>
        /\ (CertForce(s) = "-" /\ s.o.cmd = "-") => \A r \in Reqs : Started(s, r) = r

PermitOpenEnforced ==
    LET s == S IN
    \A d \in Dests : OpenAllowed(s, d) =>
        /\ Allowed(s, "direct-tcpip")
        /\ s.o.open # {} => \E o \in s.o.open : o.h = d.h /\ o.p \in {d.p, "*"}

\* acceptance conditions
FromEnforced ==
    LET s == S IN
    (s.acc /\ s.applied # 0) => \A i \in DOMAIN s.o.frm : HostListMatch(s.o.frm[i], c.addr)
CertConditionsEnforced ==
    LET s == S IN
    (s.acc /\ c.cert.present) =>
        /\ c.cert.ctype = "user" /\ c.cert.valid \notin {"expired", "notyet"}
        /\ c.cert.src # {} => \E n \in c.cert.src : HostMatch(n, c.addr)
        /\ IF s.o.princ # <<>>
           THEN \A i \in DOMAIN s.o.princ :
                    \E p \in c.cert.principals : NameListMatch(s.o.princ[i], p)
           ELSE c.cert.principals # {} => c.user \in c.cert.principals
        \* signer trusted as a CA: cert-authority line or validate_ca_key
        /\ \/ \E i \in DOMAIN c.entries : c.entries[i].ca /\ c.entries[i].key = c.cert.ca
           \/ c.cbca /\ c.cert.ca = "ca"
PlainKeyNotViaCALine ==
    LET s == S IN
    (s.acc /\ c.method = "publickey" /\ ~c.cert.present) =>
        \/ \E i \in DOMAIN c.entries : ~c.entries[i].ca /\ c.entries[i].key = "user"
        \/ c.cbkey

\* security keys
TouchEnforced ==
    LET s == S IN
    (s.acc /\ IsSk(c) /\ ~c.sig.up) =>
        /\ s.applied # 0 /\ HasFlag(s.o, "no-touch-required")
        /\ c.cert.present => c.cert.notouch
VerifyEnforced ==
    LET s == S IN
    (s.acc /\ IsSk(c) /\ HasFlag(s.o, "verify-required")) => c.sig.uv
SkSignatureBound == (S.acc /\ IsSk(c)) => c.sig.app = "same"
\* a token that asserts presence and verification for the right application is refused only
\* for reasons that would refuse an ordinary key as well
SkWordsOnlyRestrict ==
    (IsSk(c) /\ c.sig.up /\ c.sig.uv /\ c.sig.app = "same") =>
        S.acc = Session([c EXCEPT !.ktype = "ed25519"]).acc

\* emits the table (always TRUE)
Verdict ==
    LET s == S IN
    [acc |-> s.acc, why |-> s.why, applied |-> s.applied,
     accCoded |-> SessionR(c, FALSE).acc,
     ops |-> {op \in Ops : AllowedR(s, op, TRUE)},
     opsCoded |-> {op \in Ops : AllowedR(s, op, FALSE)},
     dests |-> {d \in Dests : OpenAllowedR(s, d, TRUE)},
     destsCoded |-> {d \in Dests : OpenAllowedR(s, d, FALSE)},
     started |-> {<<r[1], r[2], Started(s, r)[1], Started(s, r)[2]>> : r \in Reqs},
     env |-> EnvSeen(s)]
EmitRow == PrintT(ToString(<<"ROW", c, Verdict>>))
=============================================================================
