---------------------------- MODULE RestrictSeq ----------------------------
(***************************************************************************)
(* C05: HISTORY INDEPENDENCE of credential evaluation.                      *)
(*   "No repetition, interleaving, pipelining, or switch of method or user  *)
(*    name across authentication messages grants access otherwise, and the  *)
(*    restrictions attached to the accepted credential are the ones         *)
(*    enforced afterwards."                                                 *)
(* A state is ONE row: a server set-up (per-user authorized_keys installed  *)
(* by begin_auth, site-wide validate_public_key / validate_ca_key           *)
(* callbacks) and a short SEQUENCE of authentication requests on one        *)
(* connection, each naming its own user and credential:                     *)
(*   query    publickey request without signature (answered PK_OK / FAILURE)*)
(*   signed   publickey request with a valid signature                      *)
(*   badsig   publickey request whose signature does not verify             *)
(*   password / badpw   password request with the right / a wrong password  *)
(* The rule (Alone): every reply, the user admitted and every restriction   *)
(* in force afterwards are those which specs/Auth/Restrict.tla gives for    *)
(* the deciding request ALONE - nothing carries over from earlier requests. *)
(*                                                                         *)
(* Run(..., mode) is the operational model of the connection object         *)
(* (SSHServerConnection._key_options / _cert_options through                *)
(* validate_public_key -> _validate_openssh_certificate /                   *)
(* _validate_client_public_key):                                            *)
(*   "reset"  both are cleared when a request starts (the repair proposed   *)
(*            in fixes/C05r_reset_credential_options.patch)                 *)
(*   "coded"  asyncssh as it is: _key_options is assigned as soon as an     *)
(*            authorized_keys entry or callback accepted the key / CA (also *)
(*            when the certificate is refused afterwards), _cert_options    *)
(*            when a certificate passed; nothing is ever cleared; password  *)
(*            requests touch neither                                        *)
(*   "keep"   WRONG variant (sensitivity): on the validate_ca_key path      *)
(*            _key_options keeps its old value, and the principals= option  *)
(*            is read from it                                               *)
(***************************************************************************)
EXTENDS Restrict

CONSTANTS Carry,        \* "reset" | "coded" | "keep" : which model the invariants judge
          SeqTier       \* "quick" | "thorough"

Users2 == {"alice", "bob"}

\* authorized_keys files a user may have
CaP == [Entry(TRUE, "ca", <<"no-pty">>) EXCEPT !.princ = <<L("ops")>>, !.cmd = "kp"]
CaO == [Entry(TRUE, "ca", <<"no-agent-forwarding">>) EXCEPT !.open = {Dest("h1", "80")},
                                                            !.env = "kv"]
KeyC == [Entry(FALSE, "user", <<"no-X11-forwarding">>) EXCEPT !.cmd = "kc",
                                                            !.open = {Dest("h2", "22")}]
KeyP == Entry(FALSE, "user", <<>>)
FileNames == {"none", "caP", "ca", "key", "keyplain", "caPkey"}
FileOf(n) == CASE n = "none" -> <<>>
               [] n = "caP" -> <<CaP>>
               [] n = "ca" -> <<CaO>>
               [] n = "key" -> <<KeyC>>
               [] n = "keyplain" -> <<KeyP>>
               [] n = "caPkey" -> <<CaP, KeyC>>

\* credentials the client holds: the plain user key and certificates over it
CredNames == {"key", "cOps", "cAlice", "cAny"}
CertOf(n) == CASE n = "key" -> NoCert
               [] n = "cOps" -> [Cert(Perms) EXCEPT !.principals = {"ops"}]
               [] n = "cAlice" -> [Cert({"pty", "port-forwarding"}) EXCEPT !.force = "cc"]
               [] n = "cAny" -> [Cert(Perms \ {"pty"}) EXCEPT !.principals = {}]

Step(kind, user, cred) == [kind |-> kind, user |-> user, cred |-> cred]
IsPw(st) == st.kind \in {"password", "badpw"}

\* the single-request row of Restrict.tla which a step corresponds to
StepCred(h, st) ==
    [Cred("hist", IF IsPw(st) THEN "password" ELSE "publickey",
          FileOf(IF st.user = "alice" THEN h.fa ELSE h.fb),
          IF IsPw(st) THEN NoCert ELSE CertOf(st.cred))
        EXCEPT !.cbkey = h.cbkey, !.cbca = h.cbca, !.user = st.user]

----------------------------------------------------------------------------
\* the rule: each step judged alone
ReplyFor(kind, valid) ==
    CASE kind = "query" -> IF valid THEN "pk_ok" ELSE "fail"
      [] kind = "signed" -> IF valid THEN "success" ELSE "fail"
      [] kind = "password" -> "success"
      [] OTHER -> "fail"                         \* badsig, badpw
ReplyAlone(h, i) == ReplyFor(h.steps[i].kind, Session(StepCred(h, h.steps[i])).acc)
\* the deciding request: the first one that is admitted (later ones are not examined)
Deciding(h) ==
    LET ok == {i \in DOMAIN h.steps : ReplyAlone(h, i) = "success"}
    IN IF ok = {} THEN 0 ELSE Min(ok)

Outcome(replies, s, user) ==
    [replies |-> replies, acc |-> s.acc, user |-> user,
     ops |-> {op \in Ops : AllowedR(s, op, TRUE)},
     dests |-> {d \in Dests : OpenAllowedR(s, d, TRUE)},
     started |-> IF s.acc THEN {<<r[1], r[2], Started(s, r)[1], Started(s, r)[2]>> : r \in Reqs}
                 ELSE {},
     env |-> IF s.acc THEN EnvSeen(s) ELSE "-"]
Nobody == [acc |-> FALSE, why |-> "lookup", applied |-> 0, o |-> EmptyEntry, cert |-> NoCert,
           cenv |-> "-"]
Alone(h) ==
    LET d == Deciding(h)
        replies == [i \in DOMAIN h.steps |->
                       IF d # 0 /\ i > d THEN "skipped" ELSE ReplyAlone(h, i)]
    IN IF d = 0 THEN Outcome(replies, Nobody, "-")
       ELSE Outcome(replies, Session(StepCred(h, h.steps[d])), h.steps[d].user)

----------------------------------------------------------------------------
\* the connection object, request after request
Conn0 == [k |-> EmptyEntry, cert |-> NoCert, done |-> FALSE, user |-> "-", replies |-> <<>>]

Answer(cn, st, valid) ==
    LET r == ReplyFor(st.kind, valid)
    IN [cn EXCEPT !.replies = Append(@, r),
                  !.done = (r = "success"),
                  !.user = IF r = "success" THEN st.user ELSE @]

Apply(cn0, h, st, mode) ==
    IF cn0.done THEN [cn0 EXCEPT !.replies = Append(@, "skipped")]
    ELSE
    LET cn == IF mode = "reset" THEN [cn0 EXCEPT !.k = EmptyEntry, !.cert = NoCert] ELSE cn0
        c1 == StepCred(h, st)
        i == Lookup(c1)
    IN IF IsPw(st) THEN Answer(cn, st, TRUE)
       ELSE IF i = 0 /\ ~Callback(c1) THEN Answer(cn, st, FALSE)          \* nothing assigned
       ELSE IF ~c1.cert.present
            THEN \* _validate_client_public_key: options of the entry, or {} after the callback
                 Answer([cn EXCEPT !.k = IF i # 0 THEN c1.entries[i] ELSE EmptyEntry], st, TRUE)
       ELSE \* _validate_openssh_certificate
            LET o == IF i # 0 THEN c1.entries[i]
                     ELSE IF mode = "keep" THEN cn.k ELSE EmptyEntry
                cn2 == [cn EXCEPT !.k = o]          \* assigned before the certificate is judged
            IN IF CertWhy(c1, o) = "ok"
               THEN Answer([cn2 EXCEPT !.cert = c1.cert], st, TRUE)
               ELSE Answer(cn2, st, FALSE)

RECURSIVE Run(_, _, _, _)
Run(cn, h, i, mode) ==
    IF i > Len(h.steps) THEN cn ELSE Run(Apply(cn, h, h.steps[i], mode), h, i + 1, mode)

Out(h, mode) ==
    LET cn == Run(Conn0, h, 1, mode)
        s == [acc |-> cn.done, why |-> "ok", applied |-> 0, o |-> cn.k, cert |-> cn.cert,
              cenv |-> "-"]
    IN Outcome(cn.replies, s, cn.user)

----------------------------------------------------------------------------
\* the rows
Cfg(fa, fb, cbkey, cbca, steps) ==
    [fa |-> fa, fb |-> fb, cbkey |-> cbkey, cbca |-> cbca, steps |-> steps]
Thorough2 == SeqTier = "thorough"

\* requests which cannot admit anybody but may leave something behind
Before == {Step(k, u, cr) : k \in {"query", "badsig"}, u \in Users2, cr \in CredNames}
          \cup {Step("badpw", "alice", "-")}
\* requests which may admit
Last == {Step("signed", u, cr) : u \in Users2, cr \in CredNames}
        \cup {Step("password", u, "-") : u \in Users2}
Callbacks == {<<TRUE, TRUE>>, <<FALSE, TRUE>>, <<FALSE, FALSE>>} \cup
             (IF Thorough2 THEN {<<TRUE, FALSE>>} ELSE {})
FilesA == {"caP", "caPkey", "ca"} \cup (IF Thorough2 THEN {"key", "none"} ELSE {})
FilesB == {"none", "key", "ca"} \cup (IF Thorough2 THEN {"keyplain", "caP"} ELSE {})

Rows2 == {Cfg(fa, fb, cb[1], cb[2], <<s1, s2>>) :
             fa \in FilesA, fb \in FilesB, cb \in Callbacks, s1 \in Before, s2 \in Last}
\* three requests: two leave something behind, or the first one already admits
Rows3 == {Cfg(fa, fb, cb[1], cb[2], <<s1, s2, s3>>) :
             fa \in {"caP", "caPkey"}, fb \in {"none", "key"},
             cb \in {<<TRUE, TRUE>>, <<FALSE, TRUE>>},
             s1 \in IF Thorough2 THEN Before \cup Last
                    ELSE {s \in Before : s.cred \in {"-", "cOps", "cAlice"}},
             s2 \in IF Thorough2 THEN Before ELSE {s \in Before : s.cred \in {"-", "key", "cOps"}},
             s3 \in IF Thorough2 THEN Last ELSE {s \in Last : s.cred \in {"-", "key", "cOps"}}}

\* h = the row; c = the deciding request as a row of Restrict.tla (so that module's
\* operators can be applied to it); r = the outcomes, computed once per row
VARIABLES h, r
HInit == /\ h \in Rows2 \cup Rows3
         /\ c = StepCred(h, h.steps[Len(h.steps)])
         /\ r = [alone |-> Alone(h), out |-> Out(h, Carry), coded |-> Out(h, "coded"),
                 keep |-> Out(h, "keep")]
HNext == UNCHANGED <<h, c, r>>
HSpec == HInit /\ [][HNext]_<<h, c, r>>

----------------------------------------------------------------------------
\* properties
\* nothing carries over: replies, admitted user and every restriction are those of the
\* deciding request alone
NoCarryOver == r.out = r.alone
\* ... the part that concerns who gets in
Verdict3(o) == <<o.replies, o.acc, o.user>>
VerdictHistoryIndependent == Verdict3(r.out) = Verdict3(r.alone)
\* ... earlier requests never widen what the admitted credential allows
NoLoosening == r.out.ops \subseteq r.alone.ops /\ r.out.dests \subseteq r.alone.dests
\* ... the forced command of the admitted credential is the one that runs
ForcedCommandOfAccepted ==
    \A t \in r.alone.started : (<<t[1], t[2]>> # <<t[3], t[4]>>) => t \in r.out.started

\* emission: every row where the WRONG variant would let somebody in, every row where a
\* stale certificate's forced command would replace the admitted key's, and a thinned
\* selection of the rows where history shows in the model as coded / not at all
Thin(n) ==
    LET w(st) == (IF st.user = "alice" THEN 1 ELSE 2) +
                 (CASE st.kind = "query" -> 0 [] st.kind = "badsig" -> 3 [] st.kind = "signed" -> 5
                    [] OTHER -> 7) +
                 (CASE st.cred = "key" -> 0 [] st.cred = "cOps" -> 11 [] st.cred = "cAlice" -> 13
                    [] st.cred = "cAny" -> 17 [] OTHER -> 19)
        f(x) == CASE x = "none" -> 0 [] x = "caP" -> 1 [] x = "ca" -> 2 [] x = "key" -> 3
                  [] x = "keyplain" -> 4 [] OTHER -> 5
        sum == w(h.steps[1]) * 3 + w(h.steps[2]) * 5 + w(h.steps[Len(h.steps)]) * 7 +
               f(h.fa) * 11 + f(h.fb) * 13 + (IF h.cbkey THEN 17 ELSE 0) + (IF h.cbca THEN 19 ELSE 0)
    IN sum % n = 0
Class ==
    IF Verdict3(r.keep) # Verdict3(r.alone) THEN "keep"
    ELSE IF \E t \in r.alone.started : <<t[1], t[2]>> # <<t[3], t[4]>> /\ t \notin r.coded.started
         THEN "force"
    ELSE IF r.coded # r.alone \/ r.keep # r.alone THEN "stale"
    ELSE "plain"
Emitted ==
    LET two == Len(h.steps) = 2
    IN CASE Class = "keep" -> Thin(IF Thorough2 THEN 1 ELSE IF two THEN 2 ELSE 5)
         [] Class = "force" -> Thin(IF Thorough2 THEN 1 ELSE IF two THEN 3 ELSE 7)
         [] Class = "stale" -> Thin(IF Thorough2 THEN 7 ELSE IF two THEN 9 ELSE 29)
         [] OTHER -> Thin(IF Thorough2 THEN 23 ELSE IF two THEN 13 ELSE 31)
EmitHist ==
    Emitted => PrintT(ToString(<<"HROW", h, [class |-> Class, alone |-> r.alone,
                                             coded |-> r.coded]>>))

\* the pools, printed once
ASSUME PrintT(ToString(<<"POOL", [f \in FileNames |-> FileOf(f)], [n \in CredNames |-> CertOf(n)]>>))
=============================================================================
